//! C08 monitor (Level B, real dispatch): instruction × signer identity × single-account substitution.
//! The expected verdict comes from a small independent specification (who is entitled; any
//! substitution by an object of another group/bank must be rejected); rejected instructions must
//! leave the account store byte-identical.
use crate::mon::Report;
use crate::rng::Rng;
use crate::scen::{Act, Scen};
use crate::world::fixtures::bank_config_fixed;
use crate::world::ix;
use anchor_lang::prelude::Pubkey;
use fixed::types::I80F48;
use marginfi_type_crate::types::{BankConfigOpt, InterestRateConfigOpt, ACCOUNT_FROZEN, ACCOUNT_IN_RECEIVERSHIP};
use solana_program::instruction::Instruction;

#[derive(Clone, Copy, Debug, PartialEq)]
enum Who {
    Authority,
    Stranger,
    GroupAdmin,
    CurveAdmin,
    LimitAdmin,
    RiskAdmin,
    FeeAdmin,
}

struct Roles {
    stranger: Pubkey,
    curve: Pubkey,
    limit: Pubkey,
    risk: Pubkey,
    emode: Pubkey,
    emissions: Pubkey,
    metadata: Pubkey,
}

fn key_of(s: &Scen, r: &Roles, who: Who) -> Pubkey {
    match who {
        Who::Authority => s.users[0].wallet,
        Who::Stranger => r.stranger,
        Who::GroupAdmin => s.admin,
        Who::CurveAdmin => r.curve,
        Who::LimitAdmin => r.limit,
        Who::RiskAdmin => r.risk,
        Who::FeeAdmin => s.fee_admin,
    }
}

const WHOS: [Who; 7] = [Who::Authority, Who::Stranger, Who::GroupAdmin, Who::CurveAdmin, Who::LimitAdmin, Who::RiskAdmin, Who::FeeAdmin];

/// replace every occurrence of `from` in the account metas by `to`
fn subst(ixn: &Instruction, from: Pubkey, to: Pubkey) -> Instruction {
    let mut i = ixn.clone();
    for m in i.accounts.iter_mut() {
        if m.pubkey == from {
            m.pubkey = to;
        }
    }
    i
}

pub fn run(rng: &mut Rng, n: usize, rep: &mut Report) {
    let mut cells = 0;
    while cells < n {
        // ---------------------------------------------------------------- world
        let mut s = Scen::build(rng);
        let mut scratch = Report::default();
        for i in 0..2 {
            let key = s.banks[i].bank;
            let mut bk = s.w.bank(&key);
            bk.config.deposit_limit = u64::MAX;
            bk.config.borrow_limit = u64::MAX;
            s.w.set_bank(&key, &bk);
        }
        let roles = Roles {
            stranger: s.w.add_wallet(1_000_000_000),
            curve: s.w.add_wallet(1_000_000_000),
            limit: s.w.add_wallet(1_000_000_000),
            risk: s.w.add_wallet(1_000_000_000),
            emode: s.w.add_wallet(1_000_000_000),
            emissions: s.w.add_wallet(1_000_000_000),
            metadata: s.w.add_wallet(1_000_000_000),
        };
        let g = s.group;
        s.w.set_group_admins(&g, roles.emode, roles.curve, roles.limit, roles.emissions, roles.risk, roles.metadata);
        // a second group with its own bank over the same mint as bank 0, and an account in it
        let admin2 = s.w.add_wallet(1_000_000_000);
        let group2 = s.w.add_group(admin2);
        let mint0 = s.banks[0].mint;
        let foreign_bank = s.w.add_bank(group2, mint0, bank_config_fixed(I80F48::from_num(1)));
        let foreign_acct = s.w.add_marginfi_account(group2, s.users[0].wallet);
        let setup_ok = [
            Act::Deposit { u: 0, b: 0, amt: 5_000_000_000_000, upto: false },
            Act::Deposit { u: 1, b: 1, amt: 5_000_000_000_000, upto: false },
            Act::Borrow { u: 0, b: 1, amt: 10 },
        ]
        .iter()
        .all(|a| matches!(s.step(a, &mut scratch), Some(Ok(()))));
        if !setup_ok {
            rep.bump("prepare_failed");
            cells += 1;
            continue;
        }
        // tokens for whoever signs: give every role a token account of each mint
        let mut tok: std::collections::BTreeMap<(Pubkey, Pubkey), Pubkey> = Default::default();
        for who in WHOS {
            let k = key_of(&s, &roles, who);
            for h in s.banks.clone() {
                let t = if who == Who::Authority { s.users[0].toks[s.banks.iter().position(|x| x.bank == h.bank).unwrap()] } else { s.w.add_token_account(h.mint, k, 1_000_000_000_000) };
                tok.insert((k, h.mint), t);
            }
        }
        let acct = s.users[0].acct;
        let (b0, b1) = (s.banks[0], s.banks[1]);

        // ---------------------------------------------------------------- user instructions
        for frozen in [false, true] {
            for recv in [false, true] {
                let mut base = s.w.clone();
                {
                    let mut a = s.w.marginfi_account(&acct);
                    if frozen {
                        a.account_flags |= ACCOUNT_FROZEN;
                    }
                    if recv {
                        a.account_flags |= ACCOUNT_IN_RECEIVERSHIP;
                    }
                    std::mem::swap(&mut s.w, &mut base);
                    s.w.set_marginfi_account(&acct, &a);
                }
                for who in WHOS {
                    let signer = key_of(&s, &roles, who);
                    let t0 = tok[&(signer, b0.mint)];
                    let t1 = tok[&(signer, b1.mint)];
                    let risk_sorted = s.w.remaining_for(&acct, &[]);
                    let cases: Vec<(&str, Instruction, bool)> = vec![
                        ("deposit", ix::deposit(&b0, acct, signer, t0, 1_000, None), false),
                        ("withdraw", ix::withdraw(&b0, acct, signer, t0, 1_000, None, risk_sorted.clone()), true),
                        ("borrow", ix::borrow(&b1, acct, signer, t1, 2, risk_sorted.clone()), false),
                        ("repay", ix::repay(&b1, acct, signer, t1, 2, None), true),
                    ];
                    for (name, ixn, recv_allowed) in cases {
                        let is_auth = who == Who::Authority;
                        let is_admin = who == Who::GroupAdmin;
                        // the independent specification of the signer rule
                        let entitled = if recv_allowed && recv { !(frozen && is_auth) } else if frozen { is_admin } else { is_auth };
                        let before = s.w.accounts.clone();
                        let mut w2 = s.w.clone();
                        let r = w2.exec(&ixn);
                        cells += 1;
                        rep.bump("cases");
                        let code = r.as_ref().err().and_then(|e| e.code());
                        let auth_err = matches!(code, Some(6042) | Some(6103));
                        if !entitled && !auth_err {
                            // receivership blocks deposit/borrow with AccountDisabled-style errors before auth? no: constraints run first
                            rep.fail(format!("{} by {:?} (frozen={}, receivership={}) was not refused for authorization: {:?}", name, who, frozen, recv, r.as_ref().map_err(|e| e.to_string())));
                        }
                        if entitled && auth_err {
                            rep.fail(format!("{} by {:?} (frozen={}, receivership={}) refused although the signer is entitled: code {:?}", name, who, frozen, recv, code));
                        }
                        if r.is_err() && w2.accounts != before {
                            rep.fail(format!("{} by {:?}: rejected instruction changed the store", name, who));
                        }
                        rep.bump(if r.is_ok() { "ok" } else { "rejected" });
                    }
                }
                std::mem::swap(&mut s.w, &mut base);
            }
        }
        // ---------------------------------------------------------------- substitutions (entitled signer)
        {
            let signer = s.users[0].wallet;
            let t0 = s.users[0].toks[0];
            let risk = s.w.remaining_for(&acct, &[]);
            let good: Vec<(&str, Instruction)> = vec![
                ("deposit", ix::deposit(&b0, acct, signer, t0, 1_000, None)),
                ("withdraw", ix::withdraw(&b0, acct, signer, t0, 1_000, None, risk.clone())),
                ("repay", ix::repay(&b1, acct, signer, s.users[0].toks[1], 2, None)),
            ];
            for (name, ixn) in good {
                let subs: Vec<(&str, Instruction)> = vec![
                    ("foreign-group", subst(&ixn, s.group, group2)),
                    ("foreign-bank", subst(&ixn, ixn.accounts[3].pubkey, foreign_bank.bank)),
                    ("foreign-account", subst(&ixn, acct, foreign_acct)),
                    ("other-banks-vault", subst(&ixn, if name == "repay" { b1.liquidity_vault } else { b0.liquidity_vault }, if name == "repay" { b0.liquidity_vault } else { b1.liquidity_vault })),
                    ("foreign-vault", subst(&ixn, if name == "repay" { b1.liquidity_vault } else { b0.liquidity_vault }, foreign_bank.liquidity_vault)),
                    ("wrong-vault-authority", subst(&ixn, b0.liquidity_vault_authority, b1.liquidity_vault_authority)),
                ];
                let mut w_ok = s.w.clone();
                if w_ok.exec(&ixn).is_err() {
                    rep.fail(format!("baseline {} failed in substitution test", name));
                    continue;
                }
                for (sn, bad) in subs {
                    if bad.accounts == ixn.accounts {
                        continue; // substitution not applicable to this instruction
                    }
                    let before = s.w.accounts.clone();
                    let mut w2 = s.w.clone();
                    let r = w2.exec(&bad);
                    cells += 1;
                    rep.bump("cases");
                    rep.bump("substitutions");
                    if r.is_ok() {
                        rep.fail(format!("{} with substitution {} was ACCEPTED", name, sn));
                    } else if w2.accounts != before {
                        rep.fail(format!("{} with substitution {}: rejected instruction changed the store", name, sn));
                    }
                }
            }
        }
        // ---------------------------------------------------------------- administrative instructions
        {
            let dst_fee = s.w.add_token_account(b0.mint, s.admin, 0);
            for who in WHOS {
                let signer = key_of(&s, &roles, who);
                let admin_cases: Vec<(&str, Instruction, Who)> = vec![
                    ("configure_bank", ix::configure_bank(&b0, signer, BankConfigOpt { deposit_limit: Some(123456789), ..Default::default() }), Who::GroupAdmin),
                    ("configure_bank_interest_only", ix::configure_bank_interest_only(&b0, signer, InterestRateConfigOpt::default()), Who::CurveAdmin),
                    ("configure_bank_limits_only", ix::configure_bank_limits_only(&b0, signer, Some(77), None, None), Who::LimitAdmin),
                    ("withdraw_fees", ix::withdraw_fees(&b0, signer, dst_fee, 0), Who::GroupAdmin),
                    ("set_freeze", ix::set_freeze(s.group, acct, signer, true), Who::GroupAdmin),
                    ("force_tokenless_repay_complete", ix::force_tokenless_repay_complete(&b0, signer), Who::RiskAdmin),
                    ("panic_pause", ix::panic_pause(signer), Who::FeeAdmin),
                ];
                for (name, ixn, role) in admin_cases {
                    let before = s.w.accounts.clone();
                    let mut w2 = s.w.clone();
                    let r = w2.exec(&ixn);
                    cells += 1;
                    rep.bump("cases");
                    rep.bump("admin_cells");
                    let code = r.as_ref().err().and_then(|e| e.code());
                    let unauthorized = matches!(code, Some(6042));
                    if who != role && !unauthorized {
                        rep.fail(format!("admin instruction {} signed by {:?} (needs {:?}) was not refused as Unauthorized: {:?}", name, who, role, r.as_ref().map_err(|e| e.to_string())));
                    }
                    if who == role && unauthorized {
                        rep.fail(format!("admin instruction {} signed by its role {:?} refused as Unauthorized", name, role));
                    }
                    if r.is_err() && w2.accounts != before {
                        rep.fail(format!("admin instruction {}: rejected instruction changed the store", name));
                    }
                    // foreign group substitution with the RIGHT role of the home group
                    if who == role && name != "panic_pause" {
                        let bad = subst(&ixn, s.group, group2);
                        let mut w3 = s.w.clone();
                        if w3.exec(&bad).is_ok() {
                            rep.fail(format!("admin instruction {} accepted a foreign group", name));
                        }
                        cells += 1;
                        rep.bump("cases");
                    }
                }
            }
        }
        // ---------------------------------------------------------------- role assignment (marginfi_group_configure)
        // keys drawn from a small pool so that several roles often receive the SAME key, the current holder, or a key
        // another role holds; after a successful configure every role must be exactly the key that was named for it, and
        // the risk-admin-only instruction must follow the new assignment
        for _ in 0..6 {
            let mut w2 = s.w.clone();
            let g0 = w2.group(&s.group);
            let fresh: Vec<Pubkey> = (0..3).map(|_| w2.add_wallet(1_000_000_000)).collect();
            let pool = [g0.admin, g0.risk_admin, g0.metadata_admin, g0.emode_admin, fresh[0], fresh[1], fresh[2]];
            let pick = |rng: &mut Rng| *rng.pick(&pool);
            let want = [g0.admin, pick(rng), pick(rng), pick(rng), pick(rng), pick(rng), pick(rng)];
            let r = w2.exec(&ix::group_configure(s.group, g0.admin, want[0], want[1], want[2], want[3], want[4], want[5], want[6], None, None));
            cells += 1;
            rep.bump("cases");
            rep.bump("role_assign_cells");
            if r.is_err() {
                rep.bump("role_assign_refused");
                continue;
            }
            let g1 = w2.group(&s.group);
            let got = [g1.admin, g1.emode_admin, g1.delegate_curve_admin, g1.delegate_limit_admin, g1.delegate_emissions_admin, g1.metadata_admin, g1.risk_admin];
            let names = ["admin", "emode_admin", "curve_admin", "limit_admin", "emissions_admin", "metadata_admin", "risk_admin"];
            for i in 0..7 {
                if got[i] != want[i] {
                    rep.fail(format!(
                        "role-assignment: marginfi_group_configure succeeded but {} is {} instead of the key named for it ({}); requested {:?}, previous roles {:?}",
                        names[i], got[i], want[i], want, [g0.admin, g0.emode_admin, g0.delegate_curve_admin, g0.delegate_limit_admin, g0.delegate_emissions_admin, g0.metadata_admin, g0.risk_admin]
                    ));
                }
            }
            // the risk-admin-only instruction follows the assignment that was asked for
            for (signer, should) in [(want[6], true), (g0.risk_admin, g0.risk_admin == want[6])] {
                let mut w3 = w2.clone();
                if w3.get(&signer).is_none() {
                    continue;
                }
                let r = w3.exec(&ix::force_tokenless_repay_complete(&b0, signer));
                let refused = matches!(r.as_ref().err().and_then(|e| e.code()), Some(6042));
                if should && refused {
                    rep.fail(format!("role-assignment: the key named risk admin by a successful configure is refused by a risk-admin-only instruction"));
                }
                if !should && !refused {
                    rep.fail(format!("role-assignment: a rotated-out risk admin is still accepted by a risk-admin-only instruction after a successful configure"));
                }
            }
        }
        rep.sample(format!("auth matrix on a world with {} banks", s.banks.len()));
    }
}
