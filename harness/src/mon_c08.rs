//! C08 monitor (Level B, real dispatch): instruction × signer identity × single-account substitution.
//! The expected verdict comes from a small independent specification (who is entitled; any
//! substitution by an object of another group/bank must be rejected); rejected instructions must
//! leave the account store byte-identical.
use crate::mon::Report;
use crate::rng::Rng;
use crate::scen::{Act, Scen};
use crate::world::fixtures::bank_config_fixed;
use crate::world::ix;
use anchor_lang::prelude::Pubkey;
use fixed::types::I80F48;
use marginfi_type_crate::types::{BankConfigOpt, InterestRateConfigOpt, ACCOUNT_FROZEN, ACCOUNT_IN_RECEIVERSHIP};
use solana_program::instruction::Instruction;

#[derive(Clone, Copy, Debug, PartialEq)]
enum Who {
    Authority,
    Stranger,
    GroupAdmin,
    CurveAdmin,
    LimitAdmin,
    RiskAdmin,
    FeeAdmin,
}

struct Roles {
    stranger: Pubkey,
    curve: Pubkey,
    limit: Pubkey,
    risk: Pubkey,
    emode: Pubkey,
    emissions: Pubkey,
    metadata: Pubkey,
}

fn key_of(s: &Scen, r: &Roles, who: Who) -> Pubkey {
    match who {
        Who::Authority => s.users[0].wallet,
        Who::Stranger => r.stranger,
        Who::GroupAdmin => s.admin,
        Who::CurveAdmin => r.curve,
        Who::LimitAdmin => r.limit,
        Who::RiskAdmin => r.risk,
        Who::FeeAdmin => s.fee_admin,
    }
}

const WHOS: [Who; 7] = [Who::Authority, Who::Stranger, Who::GroupAdmin, Who::CurveAdmin, Who::LimitAdmin, Who::RiskAdmin, Who::FeeAdmin];

/// replace every occurrence of `from` in the account metas by `to`
fn subst(ixn: &Instruction, from: Pubkey, to: Pubkey) -> Instruction {
    let mut i = ixn.clone();
    for m in i.accounts.iter_mut() {
        if m.pubkey == from {
            m.pubkey = to;
        }
    }
    i
}

pub fn run(rng: &mut Rng, n: usize, rep: &mut Report) {
    let mut cells = 0;
    while cells < n {
        // ---------------------------------------------------------------- world
        let mut s = Scen::build(rng);
        let mut scratch = Report::default();
        for i in 0..2 {
            let key = s.banks[i].bank;
            let mut bk = s.w.bank(&key);
            bk.config.deposit_limit = u64::MAX;
            bk.config.borrow_limit = u64::MAX;
            s.w.set_bank(&key, &bk);
        }
        let roles = Roles {
            stranger: s.w.add_wallet(1_000_000_000),
            curve: s.w.add_wallet(1_000_000_000),
            limit: s.w.add_wallet(1_000_000_000),
            risk: s.w.add_wallet(1_000_000_000),
            emode: s.w.add_wallet(1_000_000_000),
            emissions: s.w.add_wallet(1_000_000_000),
            metadata: s.w.add_wallet(1_000_000_000),
        };
        let g = s.group;
        s.w.set_group_admins(&g, roles.emode, roles.curve, roles.limit, roles.emissions, roles.risk, roles.metadata);
        // a second group with its own bank over the same mint as bank 0, and an account in it
        let admin2 = s.w.add_wallet(1_000_000_000);
        let group2 = s.w.add_group(admin2);
        let mint0 = s.banks[0].mint;
        let foreign_bank = s.w.add_bank(group2, mint0, bank_config_fixed(I80F48::from_num(1)));
        let foreign_acct = s.w.add_marginfi_account(group2, s.users[0].wallet);
        let setup_ok = [
            Act::Deposit { u: 0, b: 0, amt: 5_000_000_000_000, upto: false },
            Act::Deposit { u: 1, b: 1, amt: 5_000_000_000_000, upto: false },
            Act::Borrow { u: 0, b: 1, amt: 10 },
        ]
        .iter()
        .all(|a| matches!(s.step(a, &mut scratch), Some(Ok(()))));
        if !setup_ok {
            rep.bump("prepare_failed");
            cells += 1;
            continue;
        }
        // tokens for whoever signs: give every role a token account of each mint
        let mut tok: std::collections::BTreeMap<(Pubkey, Pubkey), Pubkey> = Default::default();
        for who in WHOS {
            let k = key_of(&s, &roles, who);
            for h in s.banks.clone() {
                let t = if who == Who::Authority { s.users[0].toks[s.banks.iter().position(|x| x.bank == h.bank).unwrap()] } else { s.w.add_token_account(h.mint, k, 1_000_000_000_000) };
                tok.insert((k, h.mint), t);
            }
        }
        let acct = s.users[0].acct;
        let (b0, b1) = (s.banks[0], s.banks[1]);

        // ---------------------------------------------------------------- user instructions
        for frozen in [false, true] {
            for recv in [false, true] {
                let mut base = s.w.clone();
                {
                    let mut a = s.w.marginfi_account(&acct);
                    if frozen {
                        a.account_flags |= ACCOUNT_FROZEN;
                    }
                    if recv {
                        a.account_flags |= ACCOUNT_IN_RECEIVERSHIP;
                    }
                    std::mem::swap(&mut s.w, &mut base);
                    s.w.set_marginfi_account(&acct, &a);
                }
                for who in WHOS {
                    let signer = key_of(&s, &roles, who);
                    let t0 = tok[&(signer, b0.mint)];
                    let t1 = tok[&(signer, b1.mint)];
                    let risk_sorted = s.w.remaining_for(&acct, &[]);
                    let cases: Vec<(&str, Instruction, bool)> = vec![
                        ("deposit", ix::deposit(&b0, acct, signer, t0, 1_000, None), false),
                        ("withdraw", ix::withdraw(&b0, acct, signer, t0, 1_000, None, risk_sorted.clone()), true),
                        ("borrow", ix::borrow(&b1, acct, signer, t1, 2, risk_sorted.clone()), false),
                        ("repay", ix::repay(&b1, acct, signer, t1, 2, None), true),
                    ];
                    for (name, ixn, recv_allowed) in cases {
                        let is_auth = who == Who::Authority;
                        let is_admin = who == Who::GroupAdmin;
                        // the independent specification of the signer rule
                        let entitled = if recv_allowed && recv { !(frozen && is_auth) } else if frozen { is_admin } else { is_auth };
                        let before = s.w.accounts.clone();
                        let mut w2 = s.w.clone();
                        let r = w2.exec(&ixn);
                        cells += 1;
                        rep.bump("cases");
                        let code = r.as_ref().err().and_then(|e| e.code());
                        let auth_err = matches!(code, Some(6042) | Some(6103));
                        if !entitled && !auth_err {
                            // receivership blocks deposit/borrow with AccountDisabled-style errors before auth? no: constraints run first
                            rep.fail(format!("{} by {:?} (frozen={}, receivership={}) was not refused for authorization: {:?}", name, who, frozen, recv, r.as_ref().map_err(|e| e.to_string())));
                        }
                        if entitled && auth_err {
                            rep.fail(format!("{} by {:?} (frozen={}, receivership={}) refused although the signer is entitled: code {:?}", name, who, frozen, recv, code));
                        }
                        if r.is_err() && w2.accounts != before {
                            rep.fail(format!("{} by {:?}: rejected instruction changed the store", name, who));
                        }
                        rep.bump(if r.is_ok() { "ok" } else { "rejected" });
                    }
                }
                std::mem::swap(&mut s.w, &mut base);
            }
        }
        // ---------------------------------------------------------------- substitutions (entitled signer)
        {
            let signer = s.users[0].wallet;
            let t0 = s.users[0].toks[0];
            let risk = s.w.remaining_for(&acct, &[]);
            let good: Vec<(&str, Instruction)> = vec![
                ("deposit", ix::deposit(&b0, acct, signer, t0, 1_000, None)),
                ("withdraw", ix::withdraw(&b0, acct, signer, t0, 1_000, None, risk.clone())),
                ("repay", ix::repay(&b1, acct, signer, s.users[0].toks[1], 2, None)),
            ];
            for (name, ixn) in good {
                let subs: Vec<(&str, Instruction)> = vec![
                    ("foreign-group", subst(&ixn, s.group, group2)),
                    ("foreign-bank", subst(&ixn, ixn.accounts[3].pubkey, foreign_bank.bank)),
                    ("foreign-account", subst(&ixn, acct, foreign_acct)),
                    ("other-banks-vault", subst(&ixn, if name == "repay" { b1.liquidity_vault } else { b0.liquidity_vault }, if name == "repay" { b0.liquidity_vault } else { b1.liquidity_vault })),
                    ("foreign-vault", subst(&ixn, if name == "repay" { b1.liquidity_vault } else { b0.liquidity_vault }, foreign_bank.liquidity_vault)),
                    ("wrong-vault-authority", subst(&ixn, b0.liquidity_vault_authority, b1.liquidity_vault_authority)),
                ];
                let mut w_ok = s.w.clone();
                if w_ok.exec(&ixn).is_err() {
                    rep.fail(format!("baseline {} failed in substitution test", name));
                    continue;
                }
                for (sn, bad) in subs {
                    if bad.accounts == ixn.accounts {
                        continue; // substitution not applicable to this instruction
                    }
                    let before = s.w.accounts.clone();
                    let mut w2 = s.w.clone();
                    let r = w2.exec(&bad);
                    cells += 1;
                    rep.bump("cases");
                    rep.bump("substitutions");
                    if r.is_ok() {
                        rep.fail(format!("{} with substitution {} was ACCEPTED", name, sn));
                    } else if w2.accounts != before {
                        rep.fail(format!("{} with substitution {}: rejected instruction changed the store", name, sn));
                    }
                }
            }
        }
        // ---------------------------------------------------------------- administrative instructions
        {
            let dst_fee = s.w.add_token_account(b0.mint, s.admin, 0);
            for who in WHOS {
                let signer = key_of(&s, &roles, who);
                let admin_cases: Vec<(&str, Instruction, Who)> = vec![
                    ("configure_bank", ix::configure_bank(&b0, signer, BankConfigOpt { deposit_limit: Some(123456789), ..Default::default() }), Who::GroupAdmin),
                    ("configure_bank_interest_only", ix::configure_bank_interest_only(&b0, signer, InterestRateConfigOpt::default()), Who::CurveAdmin),
                    ("configure_bank_limits_only", ix::configure_bank_limits_only(&b0, signer, Some(77), None, None), Who::LimitAdmin),
                    ("withdraw_fees", ix::withdraw_fees(&b0, signer, dst_fee, 0), Who::GroupAdmin),
                    ("set_freeze", ix::set_freeze(s.group, acct, signer, true), Who::GroupAdmin),
                    ("force_tokenless_repay_complete", ix::force_tokenless_repay_complete(&b0, signer), Who::RiskAdmin),
                    ("panic_pause", ix::panic_pause(signer), Who::FeeAdmin),
                ];
                for (name, ixn, role) in admin_cases {
                    let before = s.w.accounts.clone();
                    let mut w2 = s.w.clone();
                    let r = w2.exec(&ixn);
                    cells += 1;
                    rep.bump("cases");
                    rep.bump("admin_cells");
                    let code = r.as_ref().err().and_then(|e| e.code());
                    let unauthorized = matches!(code, Some(6042));
                    if who != role && !unauthorized {
                        rep.fail(format!("admin instruction {} signed by {:?} (needs {:?}) was not refused as Unauthorized: {:?}", name, who, role, r.as_ref().map_err(|e| e.to_string())));
                    }
                    if who == role && unauthorized {
                        rep.fail(format!("admin instruction {} signed by its role {:?} refused as Unauthorized", name, role));
                    }
                    if r.is_err() && w2.accounts != before {
                        rep.fail(format!("admin instruction {}: rejected instruction changed the store", name));
                    }
                    // foreign group substitution with the RIGHT role of the home group
                    if who == role && name != "panic_pause" {
                        let bad = subst(&ixn, s.group, group2);
                        let mut w3 = s.w.clone();
                        if w3.exec(&bad).is_ok() {
                            rep.fail(format!("admin instruction {} accepted a foreign group", name));
                        }
                        cells += 1;
                        rep.bump("cases");
                    }
                }
            }
        }
        // ---------------------------------------------------------------- role assignment (marginfi_group_configure)
        // keys drawn from a small pool so that several roles often receive the SAME key, the current holder, or a key
        // another role holds; after a successful configure every role must be exactly the key that was named for it, and
        // the risk-admin-only instruction must follow the new assignment
        for _ in 0..6 {
            let mut w2 = s.w.clone();
            let g0 = w2.group(&s.group);
            let fresh: Vec<Pubkey> = (0..3).map(|_| w2.add_wallet(1_000_000_000)).collect();
            let pool = [g0.admin, g0.risk_admin, g0.metadata_admin, g0.emode_admin, fresh[0], fresh[1], fresh[2]];
            let pick = |rng: &mut Rng| *rng.pick(&pool);
            let want = [g0.admin, pick(rng), pick(rng), pick(rng), pick(rng), pick(rng), pick(rng)];
            let r = w2.exec(&ix::group_configure(s.group, g0.admin, want[0], want[1], want[2], want[3], want[4], want[5], want[6], None, None));
            cells += 1;
            rep.bump("cases");
            rep.bump("role_assign_cells");
            if r.is_err() {
                rep.bump("role_assign_refused");
                continue;
            }
            let g1 = w2.group(&s.group);
            let got = [g1.admin, g1.emode_admin, g1.delegate_curve_admin, g1.delegate_limit_admin, g1.delegate_emissions_admin, g1.metadata_admin, g1.risk_admin];
            let names = ["admin", "emode_admin", "curve_admin", "limit_admin", "emissions_admin", "metadata_admin", "risk_admin"];
            for i in 0..7 {
                if got[i] != want[i] {
                    rep.fail(format!(
                        "role-assignment: marginfi_group_configure succeeded but {} is {} instead of the key named for it ({}); requested {:?}, previous roles {:?}",
                        names[i], got[i], want[i], want, [g0.admin, g0.emode_admin, g0.delegate_curve_admin, g0.delegate_limit_admin, g0.delegate_emissions_admin, g0.metadata_admin, g0.risk_admin]
                    ));
                }
            }
            // the risk-admin-only instruction follows the assignment that was asked for
            for (signer, should) in [(want[6], true), (g0.risk_admin, g0.risk_admin == want[6])] {
                let mut w3 = w2.clone();
                if w3.get(&signer).is_none() {
                    continue;
                }
                let r = w3.exec(&ix::force_tokenless_repay_complete(&b0, signer));
                let refused = matches!(r.as_ref().err().and_then(|e| e.code()), Some(6042));
                if should && refused {
                    rep.fail(format!("role-assignment: the key named risk admin by a successful configure is refused by a risk-admin-only instruction"));
                }
                if !should && !refused {
                    rep.fail(format!("role-assignment: a rotated-out risk admin is still accepted by a risk-admin-only instruction after a successful configure"));
                }
            }
        }
        // ---------------------------------------------------------------- account creation (both entrypoints, real `init`)
        // a created account belongs to the group and the authority NAMED in the instruction, the authority signed, the account
        // is empty (no position, no flag, no migration link, no emissions destination) and nothing else in the store moved but
        // the payer's lamports; a PDA account sits at the address derived from (group, authority, index, third-party id), and a
        // restricted third-party id (>= 10 000) cannot be claimed by a direct call
        for _ in 0..6 {
            let mut w2 = s.w.clone();
            let authority = if rng.chance(1, 2) { s.users[0].wallet } else { w2.add_wallet(1_000_000_000) };
            let payer = if rng.chance(1, 2) { authority } else { w2.add_wallet(1_000_000_000) };
            let group = if rng.chance(1, 5) { group2 } else { s.group };
            let pda = rng.chance(2, 3);
            let (index, third): (u16, Option<u16>) = (rng.below(4) as u16, match rng.below(5) { 0 => None, 1 => Some(0), 2 => Some(rng.below(10_000) as u16), 3 => Some(10_001), _ => Some(10_000 + rng.below(50_000) as u16) });
            let (key, bump) = if pda { ix::marginfi_account_pda(&group, &authority, index, third.unwrap_or(0)) } else { (w2.new_key(), 0) };
            let deviation = rng.below(7);
            let mut ixn = if pda {
                use anchor_lang::{InstructionData, ToAccountMetas};
                Instruction {
                    program_id: marginfi::ID,
                    accounts: marginfi::accounts::MarginfiAccountInitializePda {
                        marginfi_group: group, marginfi_account: key, authority, fee_payer: payer,
                        instructions_sysvar: solana_program::sysvar::instructions::ID, system_program: solana_program::system_program::ID,
                    }.to_account_metas(None),
                    data: marginfi::instruction::MarginfiAccountInitializePda { account_index: index, third_party_id: third }.data(),
                }
            } else {
                ix::initialize_account(group, key, authority, payer)
            };
            let what = match deviation {
                0 => { for m in ixn.accounts.iter_mut() { if m.pubkey == authority && authority != payer { m.is_signer = false; } } if authority != payer { "the authority does not sign" } else { "none" } }
                1 if pda => { let other = ix::marginfi_account_pda(&group, &authority, index.wrapping_add(1), third.unwrap_or(0)).0; ixn = subst(&ixn, key, other); "the account offered is the PDA of another index" }
                2 if pda => { let other = ix::marginfi_account_pda(&group, &roles.stranger, index, third.unwrap_or(0)).0; ixn = subst(&ixn, key, other); "the account offered is the PDA of another authority" }
                3 => { ixn = subst(&ixn, key, s.users[1].acct); "the account offered already exists (another user's account)" }
                _ => "none",
            };
            let target = ixn.accounts.iter().find(|m| m.is_writable && m.pubkey != payer).map(|m| m.pubkey).unwrap_or(key);
            let before = w2.accounts.clone();
            let now = w2.clock_ts;
            let r = w2.exec(&ixn);
            cells += 1;
            rep.bump("cases");
            rep.bump("account_creation_cells");
            let restricted = pda && third.map(|t| t >= 10_000).unwrap_or(false);
            match r {
                Err(_) => {
                    rep.bump("account_creation_refused");
                    if w2.accounts != before {
                        rep.fail(format!("C08 a refused account creation changed the store ({}, pda {}, third-party id {:?})", what, pda, third));
                    }
                    if what == "none" && !restricted {
                        rep.fail(format!("C08 a plain account creation was refused (pda {}, index {}, third-party id {:?}, payer is authority {})", pda, index, third, payer == authority));
                    }
                }
                Ok(()) => {
                    rep.bump("account_creation_ok");
                    if what != "none" {
                        rep.fail(format!("C08 account creation succeeded although {} (pda {}, index {}, third-party id {:?})", what, pda, index, third));
                    }
                    if restricted {
                        rep.fail(format!("C08 a direct call claimed the restricted third-party id {:?} (ids >= 10000 are reserved for CPI from the registered program)", third));
                    }
                    let got = w2.marginfi_account(&target);
                    let mut expect: marginfi_type_crate::types::MarginfiAccount = bytemuck::Zeroable::zeroed();
                    expect.group = group;
                    expect.authority = authority;
                    expect.last_update = now as u64;
                    if pda { expect.account_index = index; expect.third_party_index = third.unwrap_or(0); expect.bump = bump; }
                    if bytemuck::bytes_of(&got) != bytemuck::bytes_of(&expect) {
                        let positions = got.lending_account.balances.iter().filter(|b| b.active != 0).count();
                        let line = format!("a freshly created account is not the empty account of the named group and authority: group ok {}, authority ok {}, flags {:#x}, active positions {}, migrated_from default {}, migrated_to default {}, emissions destination default {}, index {} / third-party {} / bump {} (expected {} / {} / {})",
                            got.group == group, got.authority == authority, got.account_flags, positions, got.migrated_from == Pubkey::default(), got.migrated_to == Pubkey::default(),
                            got.emissions_destination_account == Pubkey::default(), got.account_index, got.third_party_index, got.bump, expect.account_index, expect.third_party_index, expect.bump);
                        rep.fail(format!("C08 {}", line));
                        rep.fail(format!("C16 {}", line));
                    }
                    // nothing else moved but lamports of the payer
                    for (k, a) in w2.accounts.iter() {
                        if *k == target { continue; }
                        match before.get(k) {
                            Some(b) if b.data == a.data && b.owner == a.owner && (*k == payer || b.lamports == a.lamports) => {}
                            _ => { rep.fail(format!("C08 account creation changed another account of the store ({})", k)); break; }
                        }
                    }
                    // and the new account obeys the signer rule from the first instruction on: a stranger cannot deposit into it
                    if group == s.group {
                        let tok = s.users[0].toks[0];
                        let r2 = w2.exec(&ix::deposit(&b0, target, roles.stranger, tok, 1, None));
                        if r2.is_ok() { rep.fail("C08 a stranger deposited into a freshly created account of somebody else".to_string()); }
                    }
                }
            }
        }
        rep.sample(format!("auth matrix on a world with {} banks", s.banks.len()));
    }
}
