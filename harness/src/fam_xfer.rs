//! family `xfer` and monitor "XFER": the REAL `transfer_to_new_account` through real dispatch.
//!
//! World: fee state, a group (sometimes protocol-paused, sometimes a different group than the account's), an
//! account with an arbitrary position array (random bank keys, tags, shares on either side, emissions, timestamps),
//! arbitrary flag word (disabled / flash loan / receivership / deleverage / frozen / unknown high bits), already
//! migrated or not; signer = authority / group admin / stranger; right or wrong fee wallet.
//!   family line : `xfer.run <16 slots x 7> group authority flags emisDest mFrom mTo lastUpdate oldKey groupKey
//!                  groupAdmin cachedFeeWallet paused signer newKey newAuth feeWallet now  =>  old' | new`
//!   monitor     : the property clauses on the real bytes: positions moved wholesale to exactly one account, old
//!                 account empty + disabled + linked, a second transfer refused, and the disabled old account
//!                 refused by deposit/withdraw/borrow/repay/flash-loan start.
use crate::mon::Report;
use crate::rng::Rng;
use crate::world::{ix, World};
use anchor_lang::prelude::Pubkey;
use fixed::types::I80F48;
use marginfi_type_crate::types::{MarginfiAccount, ACCOUNT_DISABLED, ACCOUNT_FROZEN, ACCOUNT_IN_FLASHLOAN, ACCOUNT_IN_RECEIVERSHIP};
use std::collections::HashMap;

const ONE: i128 = 1 << 48;

struct Keys(HashMap<Pubkey, u64>);
impl Keys {
    fn n(&mut self, k: &Pubkey) -> u64 {
        if *k == Pubkey::default() {
            return 0;
        }
        let next = self.0.len() as u64 + 1;
        *self.0.entry(*k).or_insert(next)
    }
}

fn show(a: &MarginfiAccount, keys: &mut Keys) -> String {
    let mut s = format!(
        "{} {} {} {} {} {} {}",
        keys.n(&a.group),
        keys.n(&a.authority),
        a.account_flags,
        keys.n(&a.emissions_destination_account),
        keys.n(&a.migrated_from),
        keys.n(&a.migrated_to),
        a.last_update
    );
    s.push(' ');
    s.push_str(&slots(a, keys));
    s
}

fn slots(a: &MarginfiAccount, keys: &mut Keys) -> String {
    a.lending_account
        .balances
        .iter()
        .map(|b| {
            format!(
                "{} {} {} {} {} {} {}",
                b.active,
                keys.n(&b.bank_pk),
                b.bank_asset_tag,
                I80F48::from(b.asset_shares).to_bits(),
                I80F48::from(b.liability_shares).to_bits(),
                I80F48::from(b.emissions_outstanding).to_bits(),
                b.last_update
            )
        })
        .collect::<Vec<_>>()
        .join(" ")
}

pub struct Case {
    pub w: World,
    pub group: Pubkey,
    pub admin: Pubkey,
    pub old: Pubkey,
    pub authority: Pubkey,
    pub signer: Pubkey,
    pub new_key: Pubkey,
    pub new_auth: Pubkey,
    pub fee_wallet_passed: Pubkey,
    pub payer: Pubkey,
    pub paused: bool,
    /// Some(account_index): use the PDA entrypoint (transfer_to_new_account_pda)
    pub pda: Option<u16>,
}

pub fn build(rng: &mut Rng, mostly_valid: bool) -> Case {
    crate::world::install_stubs();
    let mut w = World::new();
        // fresh keys are hashes of a counter: a random starting point makes the relative ORDER of the keys created below (banks,
        // accounts, vaults) differ from world to world — positions are kept sorted by bank key, and order-dependent code paths
        // would otherwise see the same order in every world
        w.key_counter = rng.below(1 << 40);
    w.set_clock(1_700_000_000 + rng.range(0, 1_000_000), 1000);
    let fee_admin = w.add_wallet(10_000_000_000);
    let fee_wallet = w.add_wallet(0);
    w.add_fee_state(fee_admin, fee_wallet, Default::default());
    let admin = w.add_wallet(10_000_000_000);
    let group = w.add_group(admin);
    let other_group = w.add_group(admin);
    let authority = w.add_wallet(10_000_000_000);
    let stranger = w.add_wallet(10_000_000_000);
    let rare = |rng: &mut Rng| if mostly_valid { rng.chance(1, 12) } else { rng.chance(1, 3) };
    let acct_group = if rare(rng) { other_group } else { group };
    let old = w.add_marginfi_account(acct_group, authority);
    let mut a = w.marginfi_account(&old);
    // arbitrary position array
    let nact = rng.below(17) as usize;
    for (i, b) in a.lending_account.balances.iter_mut().enumerate() {
        if i < nact || rng.chance(1, 10) {
            b.active = 1;
            b.bank_pk = Pubkey::new_from_array(solana_program::hash::hashv(&[b"bank", &rng.below(1 << 40).to_le_bytes()]).to_bytes());
            b.bank_asset_tag = rng.below(6) as u8;
            let sh = (rng.u64_mixed() as i128) * if rng.chance(1, 2) { ONE } else { 1 };
            if rng.chance(1, 2) {
                b.asset_shares = I80F48::from_bits(sh).into();
                if rng.chance(1, 8) {
                    b.liability_shares = I80F48::from_bits(rng.below(ONE as u64) as i128).into();
                }
            } else {
                b.liability_shares = I80F48::from_bits(sh).into();
            }
            b.emissions_outstanding = I80F48::from_bits(rng.below(1 << 50) as i128).into();
            b.last_update = 1_600_000_000 + rng.below(100_000_000);
        }
    }
    let mut flags = 0u64;
    if rare(rng) { flags |= ACCOUNT_DISABLED; }
    if rare(rng) { flags |= ACCOUNT_IN_FLASHLOAN; }
    if rare(rng) { flags |= ACCOUNT_IN_RECEIVERSHIP; }
    if rng.chance(1, 4) { flags |= ACCOUNT_FROZEN; }
    if rng.chance(1, 4) { flags |= 4 | 8; } // transfer-authority-deprecated / emissions-destination bits
    if rng.chance(1, 6) { flags |= 32; }
    if rng.chance(1, 8) { flags |= 1u64 << (7 + rng.below(50)); }
    a.account_flags = flags;
    if rng.chance(1, 3) { a.emissions_destination_account = w.new_key(); }
    if rng.chance(1, 4) { a.migrated_from = w.new_key(); }
    if rare(rng) { a.migrated_to = w.new_key(); }
    a.last_update = 1_650_000_000 + rng.below(1000);
    w.set_marginfi_account(&old, &a);
    let frozen = flags & ACCOUNT_FROZEN != 0;
    let signer = match rng.below(if mostly_valid { 8 } else { 3 }) {
        0 => stranger,
        1 => if frozen { authority } else { admin },
        _ => if frozen { admin } else { authority },
    };
    let paused = rare(rng);
    if paused {
        let _ = w.exec(&ix::panic_pause(fee_admin));
        let _ = w.exec(&ix::propagate_fee_state(group));
        if rng.chance(1, 3) {
            w.advance(*rng.pick(&[1799i64, 1800, 1801]));
        }
    }
    let paused_now = {
        let c = w.group(&group).panic_state_cache;
        c.is_paused_flag() && !c.is_expired(w.clock_ts)
    };
    let new_key = w.new_key();
    let new_auth = if rng.chance(1, 5) { authority } else { w.new_key() };
    let fee_wallet_passed = if rare(rng) { stranger } else { fee_wallet };
    let payer = w.add_wallet(10_000_000_000);
    Case { w, group, admin, old, authority, signer, new_key, new_auth, fee_wallet_passed, payer, paused: paused_now, pda: None }
}

impl Case {
    pub fn ix(&self) -> solana_program::instruction::Instruction {
        if let Some(idx) = self.pda {
            return ix::transfer_to_new_account_pda(self.group, self.old, self.signer, self.payer, self.new_auth, self.fee_wallet_passed, idx, None);
        }
        ix::transfer_to_new_account(self.group, self.old, self.new_key, self.signer, self.payer, self.new_auth, self.fee_wallet_passed)
    }
}

pub fn gen(rng: &mut Rng, n: usize, out: &mut Vec<String>) {
    while out.len() < n {
        let mostly_valid = rng.chance(2, 3);
        let mut c = build(rng, mostly_valid);
        let mut keys = Keys(HashMap::new());
        let a = c.w.marginfi_account(&c.old);
        let g = c.w.group(&c.group);
        let now = c.w.clock_ts;
        let head = format!(
            "xfer.run {} {} {} {} {} {} {} {} {} {} {} {} {} {} {} {} {} {}",
            slots(&a, &mut keys),
            keys.n(&a.group),
            keys.n(&a.authority),
            a.account_flags,
            keys.n(&a.emissions_destination_account),
            keys.n(&a.migrated_from),
            keys.n(&a.migrated_to),
            a.last_update,
            keys.n(&c.old),
            keys.n(&c.group),
            keys.n(&g.admin),
            keys.n(&g.fee_state_cache.global_fee_wallet),
            c.paused as u8,
            keys.n(&c.signer),
            keys.n(&c.new_key),
            keys.n(&c.new_auth),
            keys.n(&c.fee_wallet_passed),
            now
        );
        let r = c.w.exec(&c.ix());
        match r {
            Ok(()) => {
                let o = c.w.marginfi_account(&c.old);
                let nw = c.w.marginfi_account(&c.new_key);
                out.push(format!("{} => ok {} // {}", head, show(&o, &mut keys), show(&nw, &mut keys)));
                // the same case as the world state machine sees it (`World.transferIx`: the fields an `AcctV` carries)
                let wv = |a: &MarginfiAccount, keys: &mut Keys| format!("{} {} {} {} {}", keys.n(&a.group), keys.n(&a.authority), a.account_flags, keys.n(&a.migrated_to), slots(a, keys));
                out.push(format!("wd.xfer{} => ok {} // {}", &head[8..], wv(&o, &mut keys), wv(&nw, &mut keys)));
            }
            Err(e) => match e.code() {
                Some(code) => {
                    out.push(format!("{} => err {}", head, code));
                    if code >= 6000 { out.push(format!("wd.xfer{} => err {}", &head[8..], code)); }
                }
                None => out.push(format!("{} => {}", head, e)),
            },
        }
    }
}

pub fn monitor(rng: &mut Rng, n: usize, rep: &mut Report) {
    for _ in 0..n {
        rep.bump("cases");
        let mut c = build(rng, true);
        if rng.chance(1, 2) {
            // the PDA entrypoint: the new account lives at the address derived from (group, new authority, index, 0)
            let idx = rng.below(4) as u16;
            c.pda = Some(idx);
            c.new_key = ix::marginfi_account_pda(&c.group, &c.new_auth, idx, 0).0;
            rep.bump("pda_variant");
        }
        // ---- a stranger with a group of HIS OWN (group creation is permissionless, he is its admin) against this account,
        //      frozen or not, through either entrypoint: the group passed must be the account's group
        if rng.chance(1, 3) {
            let mut w2 = c.w.clone();
            let stranger = w2.add_wallet(5_000_000_000);
            let own_group = w2.add_group(stranger);
            let mut a = w2.marginfi_account(&c.old);
            let frozen = rng.chance(2, 3);
            if frozen { a.account_flags |= ACCOUNT_FROZEN; } else { a.account_flags &= !ACCOUNT_FROZEN; }
            a.account_flags &= !(ACCOUNT_IN_FLASHLOAN | ACCOUNT_IN_RECEIVERSHIP | ACCOUNT_DISABLED);
            a.migrated_to = Pubkey::default();
            w2.set_marginfi_account(&c.old, &a);
            let fee_wallet = w2.group(&own_group).fee_state_cache.global_fee_wallet;
            let ixn = match c.pda {
                Some(idx) => ix::transfer_to_new_account_pda(own_group, c.old, stranger, stranger, stranger, fee_wallet, idx, None),
                None => { let nk = w2.new_key(); ix::transfer_to_new_account(own_group, c.old, nk, stranger, stranger, stranger, fee_wallet) }
            };
            let store = w2.accounts.clone();
            let r = w2.exec(&ixn);
            rep.bump("foreign_group_probe");
            if r.is_ok() {
                rep.fail(format!("C08 a stranger moved the positions of a{} account to an account of his own by passing a group HE created (he is its admin) to {}: the group is not bound to the account", if frozen { " FROZEN" } else { "n" }, if c.pda.is_some() { "transfer_to_new_account_pda" } else { "transfer_to_new_account" }));
                rep.fail("C16 an account was transferred under a group it does not belong to".to_string());
            } else if w2.accounts != store {
                rep.fail("C08 a refused transfer changed the account store".to_string());
            }
        }
        let before = c.w.marginfi_account(&c.old);
        let pre_store = c.w.accounts.clone();
        let r = c.w.exec(&c.ix());
        match r {
            Err(e) => {
                rep.bump("refused");
                if let Some(code) = e.code() {
                    rep.bump(&format!("err_{}", code));
                }
                if c.w.accounts != pre_store {
                    rep.fail("C16 refused transfer changed the account store".to_string());
                }
                // why may it be refused at all?
                let frozen = before.account_flags & ACCOUNT_FROZEN != 0;
                let authorised = if frozen { c.signer == c.admin } else { c.signer == c.authority };
                let legit = c.paused
                    || before.group != c.group
                    || !authorised
                    || c.fee_wallet_passed != c.w.group(&c.group).fee_state_cache.global_fee_wallet
                    || before.account_flags & (ACCOUNT_IN_FLASHLOAN | ACCOUNT_IN_RECEIVERSHIP) != 0
                    || before.migrated_to != Pubkey::default();
                if !legit {
                    rep.fail(format!("C16 transfer of a transferable account refused: {}", e));
                }
            }
            Ok(()) => {
                rep.bump("transferred");
                let o = c.w.marginfi_account(&c.old);
                let nw = c.w.marginfi_account(&c.new_key);
                if before.migrated_to != Pubkey::default() {
                    rep.fail("C16 an already-migrated account was transferred again".to_string());
                }
                if before.account_flags & (ACCOUNT_IN_FLASHLOAN | ACCOUNT_IN_RECEIVERSHIP) != 0 {
                    rep.fail("C16 transfer accepted inside a flash loan / receivership".to_string());
                }
                if bytemuck::bytes_of(&nw.lending_account) != bytemuck::bytes_of(&before.lending_account) {
                    rep.fail("C16 transfer: the new account's position array differs from the old one's".to_string());
                }
                if o.lending_account.balances.iter().any(|b| b.is_active()) || bytemuck::bytes_of(&o.lending_account).iter().any(|x| *x != 0) {
                    rep.fail("C16 transfer: the old account still holds positions (they now exist twice)".to_string());
                }
                if o.account_flags & ACCOUNT_DISABLED == 0 {
                    rep.fail("C16 transfer: the old account is not disabled".to_string());
                }
                if o.migrated_to != c.new_key || nw.migrated_from != c.old || nw.migrated_to != Pubkey::default() {
                    rep.fail("C16 transfer: migration links wrong".to_string());
                }
                if nw.authority != c.new_auth || nw.group != before.group || nw.account_flags != before.account_flags {
                    rep.fail("C16 transfer: new account header wrong (authority / group / flags)".to_string());
                }
                // once: every further attempt on the old account is refused (any signer / target)
                for signer in [c.authority, c.admin, c.signer] {
                    let k2 = c.w.new_key();
                    let ix2 = if let Some(idx) = c.pda {
                        // another index => another, not yet existing, PDA
                        ix::transfer_to_new_account_pda(c.group, c.old, signer, c.payer, c.new_auth, c.fee_wallet_passed, idx + 7, None)
                    } else {
                        ix::transfer_to_new_account(c.group, c.old, k2, signer, c.payer, c.new_auth, c.fee_wallet_passed)
                    };
                    if c.w.exec(&ix2).is_ok() {
                        rep.fail("C16 a transferred account was transferred a second time".to_string());
                    }
                    rep.bump("second_attempts");
                }
                // ... while the new account can move on (unless it inherited a blocking flag)
                let k3 = c.w.new_key();
                let frozen = nw.account_flags & ACCOUNT_FROZEN != 0;
                let s3 = if frozen { c.admin } else { c.new_auth };
                if c.w.get(&s3).is_none() {
                    c.w.accounts.insert(s3, crate::world::Acct { lamports: 1_000_000_000, data: vec![], owner: solana_program::system_program::ID, executable: false });
                }
                let (ix3, k3) = if let Some(idx) = c.pda {
                    (ix::transfer_to_new_account_pda(c.group, c.new_key, s3, c.payer, c.authority, c.fee_wallet_passed, idx + 11, None), ix::marginfi_account_pda(&c.group, &c.authority, idx + 11, 0).0)
                } else {
                    (ix::transfer_to_new_account(c.group, c.new_key, k3, s3, c.payer, c.authority, c.fee_wallet_passed), k3)
                };
                match c.w.exec(&ix3) {
                    Ok(()) => {
                        rep.bump("chained");
                        let n3 = c.w.marginfi_account(&k3);
                        if bytemuck::bytes_of(&n3.lending_account) != bytemuck::bytes_of(&before.lending_account) {
                            rep.fail("C16 chained transfer lost or changed positions".to_string());
                        }
                    }
                    Err(e) => rep.fail(format!("C16 the new account could not be transferred onward: {}", e)),
                }
                rep.sample(format!("transferred {} active slots, flags {}", before.lending_account.balances.iter().filter(|b| b.is_active()).count(), before.account_flags));
            }
        }
    }
}
