//! family `fees`: lending_pool_collect_bank_fees through REAL DISPATCH on generated fee buckets and vault
//! liquidity (SPL and Token-2022 banks); the line carries (feeI feeG feeP vault) and the observed effect.
use crate::rng::Rng;
use crate::scen::{Act, Scen};
use crate::mon::Report;
use crate::world::ix;
use fixed::types::I80F48;

const ONE: i128 = 1 << 48;

pub fn gen(rng: &mut Rng, n: usize, out: &mut Vec<String>) {
    let mut produced = 0;
    while produced < n {
        let mut s = Scen::build(rng);
        let mut scratch = Report::default();
        for b in 0..s.banks.len() {
            let _ = s.step(&Act::Deposit { u: 0, b, amt: 1_000_000_000 * (1 + rng.below(100)), upto: false }, &mut scratch);
        }
        for _ in 0..12 {
            let b = rng.below(s.banks.len() as u64) as usize;
            let h = s.banks[b];
            let vault = s.w.token_amount(&h.liquidity_vault);
            let gen_fee = |rng: &mut Rng| -> i128 {
                match rng.below(7) {
                    0 => 0,
                    1 => rng.below(ONE as u64) as i128,
                    2 => (rng.below(1000) as i128) * ONE + rng.below(ONE as u64) as i128,
                    3 => (vault as i128) * ONE + rng.range(-2, 2) as i128,
                    4 => (vault as i128 / 2) * ONE + rng.below(ONE as u64) as i128,
                    5 => (vault as i128 * 2) * ONE,
                    _ => (rng.below(1_000_000) as i128) * ONE,
                }
                .max(0)
            };
            let (fi, fg, fp) = (gen_fee(rng), gen_fee(rng), gen_fee(rng));
            let mut bank = s.w.bank(&h.bank);
            bank.collected_insurance_fees_outstanding = I80F48::from_bits(fi).into();
            bank.collected_group_fees_outstanding = I80F48::from_bits(fg).into();
            bank.collected_program_fees_outstanding = I80F48::from_bits(fp).into();
            s.w.set_bank(&h.bank, &bank);
            let ata = s.w.ata(&s.fee_wallet, &h.mint);
            if s.w.get(&ata).is_none() {
                let (fw, m) = (s.fee_wallet, h.mint);
                s.w.add_ata(fw, m, 0);
            }
            let pre = (s.w.token_amount(&h.insurance_vault), s.w.token_amount(&h.fee_vault), s.w.token_amount(&ata));
            let pre_w = (s.w.token_withheld(&h.insurance_vault), s.w.token_withheld(&h.fee_vault), s.w.token_withheld(&ata));
            let r = s.w.exec(&ix::collect_fees(&h, ata));
            let o = match r {
                Err(e) => match e.code() {
                    Some(c) => format!("err {}", c),
                    None => "panic".to_string(),
                },
                Ok(()) => {
                    let nb = s.w.bank(&h.bank);
                    let v2 = s.w.token_amount(&h.liquidity_vault);
                    // what LEFT the liquidity vault towards each destination = received + fee withheld at the destination
                    let recv = |k: &anchor_lang::prelude::Pubkey, p: u64, pw: u64| (s.w.token_amount(k) - p) + (s.w.token_withheld(k) - pw);
                    let (ti, tg, tp) = (recv(&h.insurance_vault, pre.0, pre_w.0), recv(&h.fee_vault, pre.1, pre_w.1), recv(&ata, pre.2, pre_w.2));
                    if vault - v2 != ti + tg + tp {
                        format!("vault-mismatch {} {}", vault - v2, ti + tg + tp)
                    } else {
                        format!(
                            "ok {} {} {} {} {} {}",
                            I80F48::from(nb.collected_insurance_fees_outstanding).to_bits(),
                            I80F48::from(nb.collected_group_fees_outstanding).to_bits(),
                            I80F48::from(nb.collected_program_fees_outstanding).to_bits(),
                            ti,
                            tg,
                            tp
                        )
                    }
                }
            };
            out.push(format!("fee.collect {} {} {} {} => {}", fi, fg, fp, vault, o));
            produced += 1;
        }
    }
}
