//! Monitor "KAM" (Level B, real dispatch): the Kamino-backed instructions of marginfi — lending_pool_add_bank_kamino,
//! kamino_deposit, kamino_withdraw — executed for real. Kamino Lend itself does not exist in the sandbox; its two CPI
//! targets are played by a stand-in in the world's CPI dispatcher (world/stubs.rs: Kamino's documented effect on the
//! accounts marginfi reads afterwards, in exact integer arithmetic; it can be told to misbehave by a few units). Everything
//! marginfi does around the CPI — account constraints, signer rule, bank-state gate, the conversion it EXPECTS, the
//! after-the-fact checks on the obligation and on the vault, the booking into the bank and the position, the transfer to
//! the user, the health check — is the real code.
//!
//! Judged, with this monitor's own exact arithmetic on the store's bytes:
//!   C02/C01  what is booked to the position and to the bank total is exactly the collateral that entered / left the
//!            bank's obligation; the sum of all positions never exceeds the obligation's collateral (venue banks are
//!            "solvent" when the obligation backs every share); the intermediary vault keeps nothing
//!   C03      a deposit takes exactly `amount` from the user; a withdrawal pays exactly what Kamino released, which is at
//!            most the exact value of the collateral given up
//!   C20      a venue that credits or releases something else than the conversion announces (by 2 units or more) makes
//!            the instruction fail and nothing is booked
//!   C04      a withdrawal that leaves the account's debt uncovered is refused
//!   C08      strangers, substituted reserves / obligations / vaults are refused; refusals leave the store unchanged
//!   C14      paused bank: no deposit, no withdrawal; reduce-only bank: no deposit, withdrawals go through
use crate::mon::Report;
use crate::rng::Rng;
use crate::world::fixtures::{bank_config_fixed, BankHandle};
use crate::world::stubs::{KAMINO_SKEW_COLLATERAL, KAMINO_SKEW_LIQUIDITY};
use crate::world::{ix, TokenKind, World};
use anchor_lang::prelude::Pubkey;
use anchor_lang::{Discriminator, InstructionData, ToAccountMetas};
use fixed::types::I80F48;
use kamino_mocks::state::{MinimalObligation, MinimalReserve};
use marginfi::constants::{FARMS_PROGRAM_ID, KAMINO_PROGRAM_ID};
use marginfi_type_crate::types::{BankOperationalState, OracleSetup, RiskTier};
use num_bigint::BigInt;
use solana_program::instruction::{AccountMeta, Instruction};
use std::sync::atomic::Ordering;

const ONE: i128 = 1 << 48;

fn bits(v: marginfi_type_crate::types::WrappedI80F48) -> i128 {
    I80F48::from(v).to_bits()
}

pub struct Kw {
    pub w: World,
    pub group: Pubkey,
    pub admin: Pubkey,
    pub kb: BankHandle,
    pub debt: BankHandle,
    pub reserve: Pubkey,
    pub obligation: Pubkey,
    pub market: Pubkey,
    pub market_auth: Pubkey,
    pub supply_vault: Pubkey,
    pub col_mint: Pubkey,
    pub col_vault: Pubkey,
    pub oracle: Pubkey,
    pub users: Vec<(Pubkey, Pubkey, Pubkey, Pubkey)>, // wallet, marginfi account, token account (kamino mint), token account (debt mint)
    pub dec: u8,
}

fn read_reserve(w: &World, k: &Pubkey) -> MinimalReserve {
    let a = w.get(k).expect("reserve");
    *bytemuck::from_bytes(&a.data[8..8 + std::mem::size_of::<MinimalReserve>()])
}
fn write_reserve(w: &mut World, k: &Pubkey, r: &MinimalReserve) {
    let mut data = Vec::with_capacity(8 + std::mem::size_of::<MinimalReserve>());
    data.extend_from_slice(<MinimalReserve as Discriminator>::DISCRIMINATOR);
    data.extend_from_slice(bytemuck::bytes_of(r));
    w.put(*k, KAMINO_PROGRAM_ID, data);
}
fn read_obligation(w: &World, k: &Pubkey) -> MinimalObligation {
    let a = w.get(k).expect("obligation");
    *bytemuck::from_bytes(&a.data[8..8 + std::mem::size_of::<MinimalObligation>()])
}
fn write_obligation(w: &mut World, k: &Pubkey, o: &MinimalObligation) {
    let mut data = Vec::with_capacity(8 + std::mem::size_of::<MinimalObligation>());
    data.extend_from_slice(<MinimalObligation as Discriminator>::DISCRIMINATOR);
    data.extend_from_slice(bytemuck::bytes_of(o));
    w.put(*k, KAMINO_PROGRAM_ID, data);
}

/// total liquidity at scale 2^60 and total collateral of a reserve, exactly
fn supplies(r: &MinimalReserve) -> (BigInt, BigInt) {
    let sf = |b: [u8; 16]| BigInt::from(u128::from_le_bytes(b));
    let liq = (BigInt::from(r.available_amount) << 60u32) + sf(r.borrowed_amount_sf) - sf(r.accumulated_protocol_fees_sf) - sf(r.accumulated_referrer_fees_sf) - sf(r.pending_referrer_fees_sf);
    (liq, BigInt::from(r.mint_total_supply))
}

pub fn build(rng: &mut Rng, rep: &mut Report) -> Option<Kw> {
    crate::world::install_stubs();
    KAMINO_SKEW_COLLATERAL.store(0, Ordering::SeqCst);
    KAMINO_SKEW_LIQUIDITY.store(0, Ordering::SeqCst);
    let mut w = World::new();
        // fresh keys are hashes of a counter: a random starting point makes the relative ORDER of the keys created below (banks,
        // accounts, vaults) differ from world to world — positions are kept sorted by bank key, and order-dependent code paths
        // would otherwise see the same order in every world
        w.key_counter = rng.below(1 << 40);
    w.add_program(KAMINO_PROGRAM_ID);
    w.add_program(FARMS_PROGRAM_ID);
    w.set_clock(1_700_000_000 + rng.range(0, 1_000_000), 1000);
    let fee_admin = w.add_wallet(10_000_000_000);
    let fee_wallet = w.add_wallet(0);
    w.add_fee_state(fee_admin, fee_wallet, Default::default());
    let admin = w.add_wallet(100_000_000_000);
    let group = w.add_group(admin);
    let dec = *rng.pick(&[6u8, 6, 9, 8]);
    let kind = if rng.chance(1, 3) { TokenKind::T22 } else { TokenKind::Spl };
    let mint = w.add_mint(kind, dec);
    // ---- the Kamino side (fabricated accounts with the real layouts)
    let market = w.new_key();
    let market_auth = w.new_key();
    let reserve = w.new_key();
    let col_mint = w.new_key();
    let col_vault = w.new_key();
    let available: u64 = match rng.below(3) { 0 => 1_000_000, 1 => 5_000_000_000_000, _ => 1 + rng.below(1_000_000_000_000_000) };
    let supply_vault = w.add_token_account(mint, market_auth, available);
    let mut r: MinimalReserve = bytemuck::Zeroable::zeroed();
    r.slot = w.slot;
    r.lending_market = market;
    r.mint_pubkey = mint;
    r.supply_vault = supply_vault;
    r.available_amount = available;
    // some of the liquidity is lent out, so that one collateral token is worth 1.0 .. 3.0 liquidity tokens
    let borrowed: u128 = match rng.below(4) { 0 => 0, 1 => (available as u128) << 60, _ => ((rng.below(2 * available.min(1 << 50) + 1) as u128) << 60) + rng.below(1 << 60) as u128 };
    r.borrowed_amount_sf = borrowed.to_le_bytes();
    r.accumulated_protocol_fees_sf = ((rng.below(1000) as u128) << 50).to_le_bytes();
    r.mint_decimals = dec as u64;
    r.collateral_mint_pubkey = col_mint;
    r.collateral_supply_vault = col_vault;
    r.token_program = w.token_program_of(&mint);
    let total_now: u128 = ((available as u128) << 60) + borrowed;
    let rate_num = 1 + rng.below(3); // collateral supply = total liquidity / (1..3), roughly
    r.mint_total_supply = match rng.below(5) { 0 => ((total_now >> 60) as u64).max(1), _ => (((total_now >> 60) as u64) / rate_num).max(1) + rng.below(1000) };
    write_reserve(&mut w, &reserve, &r);
    // ---- the bank, through the REAL lending_pool_add_bank_kamino
    let oracle = w.add_pyth_oracle(1_0000_0000, 0, 1_0000_0000, 0, -8, w.clock_ts);
    let seed: u64 = rng.below(1000);
    let (bank, _) = Pubkey::find_program_address(&[group.as_ref(), mint.as_ref(), &seed.to_le_bytes()], &marginfi::ID);
    let pda = |s: &str| Pubkey::find_program_address(&[s.as_bytes(), bank.as_ref()], &marginfi::ID).0;
    use marginfi_type_crate::constants::*;
    let (lv, lva, iv, iva, fv, fva) = (pda(LIQUIDITY_VAULT_SEED), pda(LIQUIDITY_VAULT_AUTHORITY_SEED), pda(INSURANCE_VAULT_SEED), pda(INSURANCE_VAULT_AUTHORITY_SEED), pda(FEE_VAULT_SEED), pda(FEE_VAULT_AUTHORITY_SEED));
    let (obligation, _) = Pubkey::find_program_address(
        &[&[0u8], &[0u8], lva.as_ref(), market.as_ref(), solana_program::system_program::ID.as_ref(), solana_program::system_program::ID.as_ref()],
        &KAMINO_PROGRAM_ID,
    );
    let cfg = marginfi::state::kamino::KaminoConfigCompact {
        oracle,
        asset_weight_init: I80F48::from_num(0.5).into(),
        asset_weight_maint: I80F48::from_num(0.6).into(),
        deposit_limit: u64::MAX,
        oracle_setup: OracleSetup::KaminoPythPush,
        operational_state: BankOperationalState::Operational,
        risk_tier: RiskTier::Collateral,
        config_flags: 1,
        total_asset_value_init_limit: 0,
        oracle_max_age: 60,
        oracle_max_confidence: 0,
    };
    let mut metas = marginfi::accounts::LendingPoolAddBankKamino {
        group, admin, fee_payer: admin, bank_mint: mint, bank, integration_acc_1: reserve, integration_acc_2: obligation,
        liquidity_vault_authority: lva, liquidity_vault: lv, insurance_vault_authority: iva, insurance_vault: iv,
        fee_vault_authority: fva, fee_vault: fv, token_program: w.token_program_of(&mint), system_program: solana_program::system_program::ID,
    }.to_account_metas(None);
    metas.push(AccountMeta::new_readonly(oracle, false));
    metas.push(AccountMeta::new_readonly(reserve, false));
    let add = Instruction { program_id: marginfi::ID, accounts: metas, data: marginfi::instruction::LendingPoolAddBankKamino { bank_config: cfg, bank_seed: seed }.data() };
    // a stranger cannot add a Kamino bank to the group
    {
        let stranger = w.add_wallet(100_000_000_000);
        let mut bad = add.clone();
        for m in bad.accounts.iter_mut() { if m.pubkey == admin { m.pubkey = stranger; } }
        let before = w.accounts.clone();
        if w.exec(&bad).is_ok() { rep.fail("C08 lending_pool_add_bank_kamino succeeded for a signer who is not the group admin".to_string()); w.accounts = before; }
        else if w.accounts != before { rep.fail("C08 a refused lending_pool_add_bank_kamino changed the store".to_string()); }
    }
    if let Err(e) = w.exec(&add) {
        rep.fail(format!("C13 lending_pool_add_bank_kamino refused a plain valid Kamino bank: {}", e));
        return None;
    }
    rep.bump("kamino_bank_added");
    let b = w.bank(&bank);
    if b.group != group || b.mint != mint || b.integration_acc_1 != reserve || b.integration_acc_2 != obligation || b.liquidity_vault != lv
        || b.config.asset_tag != ASSET_TAG_KAMINO || b.config.oracle_keys[0] != oracle || b.config.oracle_keys[1] != reserve
        || bits(b.asset_share_value) != ONE || bits(b.total_asset_shares) != 0 || bits(b.config.liability_weight_init) < ONE
    {
        rep.fail(format!("C13 the bank created by lending_pool_add_bank_kamino is not bound to the given group / mint / reserve / obligation / oracle or does not start empty: tag {}, keys ok {}", b.config.asset_tag, b.config.oracle_keys[0] == oracle && b.config.oracle_keys[1] == reserve));
    }
    let kb = w.bank_handle(&bank);
    // the obligation (Kamino's init_obligation is not available here): owned by the bank's liquidity-vault authority
    let mut o: MinimalObligation = bytemuck::Zeroable::zeroed();
    o.lending_market = market;
    o.owner = lva;
    o.last_update_slot = w.slot;
    o.deposits[0].deposit_reserve = reserve;
    write_obligation(&mut w, &obligation, &o);
    // ---- an ordinary bank to borrow from
    let dmint = w.add_mint(TokenKind::Spl, 6);
    let debt = w.add_bank(group, dmint, bank_config_fixed(I80F48::from_num(1)));
    {
        let lender_w = w.add_wallet(1_000_000_000);
        let lender = w.add_marginfi_account(group, lender_w);
        let t = w.add_token_account(dmint, lender_w, u64::MAX / 4);
        if w.exec(&ix::deposit(&debt, lender, lender_w, t, 100_000_000_000_000, None)).is_err() { return None; }
    }
    let mut users = vec![];
    for _ in 0..3 {
        let wallet = w.add_wallet(1_000_000_000);
        let acct = w.add_marginfi_account(group, wallet);
        let tk = w.add_token_account(mint, wallet, u64::MAX / 8);
        let td = w.add_token_account(dmint, wallet, 0);
        users.push((wallet, acct, tk, td));
    }
    Some(Kw { w, group, admin, kb, debt, reserve, obligation, market, market_auth, supply_vault, col_mint, col_vault, oracle, users, dec })
}

impl Kw {
    fn deposit_ix(&self, u: usize, signer: Pubkey, amount: u64) -> Instruction {
        let (_, acct, tk, _) = self.users[u];
        Instruction {
            program_id: marginfi::ID,
            accounts: marginfi::accounts::KaminoDeposit {
                group: self.group, marginfi_account: acct, authority: signer, bank: self.kb.bank, signer_token_account: tk,
                liquidity_vault_authority: self.kb.liquidity_vault_authority, liquidity_vault: self.kb.liquidity_vault,
                integration_acc_2: self.obligation, lending_market: self.market, lending_market_authority: self.market_auth,
                integration_acc_1: self.reserve, mint: self.kb.mint, reserve_liquidity_supply: self.supply_vault,
                reserve_collateral_mint: self.col_mint, reserve_destination_deposit_collateral: self.col_vault,
                obligation_farm_user_state: None, reserve_farm_state: None, kamino_program: KAMINO_PROGRAM_ID, farms_program: FARMS_PROGRAM_ID,
                collateral_token_program: spl_token::ID, liquidity_token_program: self.kb.token_program,
                instruction_sysvar_account: solana_program::sysvar::instructions::ID,
            }.to_account_metas(None),
            data: marginfi::instruction::KaminoDeposit { amount }.data(),
        }
    }
    fn withdraw_ix(&self, u: usize, signer: Pubkey, amount: u64, all: bool) -> Instruction {
        let (_, acct, tk, _) = self.users[u];
        let mut metas = marginfi::accounts::KaminoWithdraw {
            group: self.group, marginfi_account: acct, authority: signer, bank: self.kb.bank, destination_token_account: tk,
            liquidity_vault_authority: self.kb.liquidity_vault_authority, liquidity_vault: self.kb.liquidity_vault,
            integration_acc_2: self.obligation, lending_market: self.market, lending_market_authority: self.market_auth,
            integration_acc_1: self.reserve, reserve_liquidity_mint: self.kb.mint, reserve_liquidity_supply: self.supply_vault,
            reserve_collateral_mint: self.col_mint, reserve_source_collateral: self.col_vault,
            obligation_farm_user_state: None, reserve_farm_state: None, kamino_program: KAMINO_PROGRAM_ID, farms_program: FARMS_PROGRAM_ID,
            collateral_token_program: spl_token::ID, liquidity_token_program: self.kb.token_program,
            instruction_sysvar_account: solana_program::sysvar::instructions::ID,
        }.to_account_metas(None);
        let risk = if all { self.w.remaining_sorted(&acct, &[], &[self.kb.bank]) } else { self.w.remaining_for(&acct, &[]) };
        metas.extend(risk);
        Instruction { program_id: marginfi::ID, accounts: metas, data: marginfi::instruction::KaminoWithdraw { amount, withdraw_all: if all { Some(true) } else { None } }.data() }
    }
    fn refresh(&mut self) {
        // Kamino's refresh_reserve / refresh_obligation, run by the client in the same slot
        let mut r = read_reserve(&self.w, &self.reserve);
        r.slot = self.w.slot;
        write_reserve(&mut self.w, &self.reserve, &r);
        let ts = self.w.clock_ts;
        self.w.set_pyth_price(&self.oracle.clone(), 1_0000_0000, 0, 1_0000_0000, 0, -8, ts);
    }
    fn position_shares(&self, u: usize) -> i128 {
        let a = self.w.marginfi_account(&self.users[u].1);
        a.lending_account.balances.iter().find(|b| b.is_active() && b.bank_pk == self.kb.bank).map(|b| bits(b.asset_shares)).unwrap_or(0)
    }
    fn backing_check(&self, rep: &mut Report, after: &str) {
        let b = self.w.bank(&self.kb.bank);
        let o = read_obligation(&self.w, &self.obligation);
        let sum: i128 = (0..self.users.len()).map(|u| self.position_shares(u)).sum();
        let tot = bits(b.total_asset_shares);
        if bits(b.asset_share_value) != ONE {
            rep.fail(format!("C06 the deposit share value of a Kamino bank moved away from 1 ({}) after {}", bits(b.asset_share_value), after));
        }
        if sum != tot {
            rep.fail(format!("C02 Kamino bank: total deposit shares {} differ from the sum of the positions {} after {}", tot, sum, after));
        }
        if (BigInt::from(o.deposits[0].deposited_amount) << 48u32) < BigInt::from(tot) {
            rep.fail(format!("C01 Kamino bank: positions hold {} shares of collateral but the bank's obligation holds only {} collateral tokens after {}: the bank's claims are not backed", tot, o.deposits[0].deposited_amount, after));
        }
        if self.w.token_amount(&self.kb.liquidity_vault) != 0 {
            rep.fail(format!("C01 Kamino bank: the intermediary liquidity vault keeps {} tokens after {}", self.w.token_amount(&self.kb.liquidity_vault), after));
        }
    }
}

pub fn run(rng: &mut Rng, n: usize, rep: &mut Report) {
    run_with(rng, n, rep, &mut None)
}

/// family `venue`: one `vn.kdep` / `vn.kwd` line per real kamino_deposit / kamino_withdraw of this monitor whose outcome the
/// instruction-level model (Mfi/Model/Venue.lean) speaks about: entitled signer, operational bank, fresh reserve, no debt
pub fn gen(rng: &mut Rng, n: usize, out: &mut Vec<String>) {
    let mut guard = 0;
    while out.len() < n && guard < 200 {
        guard += 1;
        let mut scratch = Report::default();
        let mut part: Option<Vec<String>> = Some(vec![]);
        run_with(rng, 400, &mut scratch, &mut part);
        out.extend(part.unwrap());
    }
    out.truncate(n);
}

fn pos_of(w: &World, acct: &Pubkey, bank: &Pubkey) -> Option<marginfi_type_crate::types::Balance> {
    w.marginfi_account(acct).lending_account.balances.iter().find(|b| b.is_active() && b.bank_pk == *bank).cloned()
}
fn pos_line(x: &Option<marginfi_type_crate::types::Balance>) -> String {
    match x {
        Some(bal) => format!("1 {}", crate::fam_bank::Bal::from_balance(bal).line()),
        None => "0 0 0 0 0 0 0".to_string(),
    }
}

pub fn run_with(rng: &mut Rng, n: usize, rep: &mut Report, lines: &mut Option<Vec<String>>) {
    let mut done = 0usize;
    while done < n {
        let Some(mut k) = build(rng, rep) else { rep.bump("world_build_failed"); done += 1; continue };
        let stranger = k.w.add_wallet(1_000_000_000);
        for _ in 0..40 {
            done += 1;
            rep.bump("cases");
            KAMINO_SKEW_COLLATERAL.store(0, Ordering::SeqCst);
            KAMINO_SKEW_LIQUIDITY.store(0, Ordering::SeqCst);
            if rng.chance(1, 4) { k.w.advance(*rng.pick(&[1i64, 30, 3600])); }
            let stale = rng.chance(1, 10);
            if !stale { k.refresh(); }
            let u = rng.below(k.users.len() as u64) as usize;
            let (wallet, acct, tk, td) = k.users[u];
            let r0 = read_reserve(&k.w, &k.reserve);
            let o0 = read_obligation(&k.w, &k.obligation);
            let (liq_sf, col) = supplies(&r0);
            let sh0 = k.position_shares(u);
            let bank0 = k.w.bank(&k.kb.bank);
            let user0 = k.w.token_amount(&tk);
            let before = k.w.accounts.clone();
            match rng.below(12) {
                // ------------------------------------------------------------ deposit
                0..=3 => {
                    let amount: u64 = match rng.below(5) { 0 => 1, 1 => 1 + rng.below(1000), 2 => 10u64.pow(k.dec as u32) * (1 + rng.below(10_000)), 3 => 0, _ => 1 + rng.below(1_000_000_000_000) };
                    let state = k.w.bank(&k.kb.bank).config.operational_state;
                    let skew: i64 = if rng.chance(1, 5) { *rng.pick(&[-3i64, -2, -1, 1, 2, 3]) } else { 0 };
                    KAMINO_SKEW_COLLATERAL.store(skew, Ordering::SeqCst);
                    let who = if rng.chance(1, 8) { stranger } else { wallet };
                    let p0 = pos_of(&k.w, &acct, &k.kb.bank);
                    let r = k.w.exec(&k.deposit_ix(u, who, amount));
                    KAMINO_SKEW_COLLATERAL.store(0, Ordering::SeqCst);
                    if let (Some(l), true) = (lines.as_mut(), who == wallet && !stale && state == BankOperationalState::Operational) {
                        // marginfi's own expectation: the real conversion function on the reserve as it was
                        if let Ok(expected) = r0.liquidity_to_collateral(amount) {
                            let exp_c: BigInt = if col == BigInt::from(0) || liq_sf <= BigInt::from(0) { BigInt::from(amount) } else { (BigInt::from(amount) << 60u32) * &col / &liq_sf };
                            let post = BigInt::from(o0.deposits[0].deposited_amount) + exp_c + BigInt::from(skew);
                            let head = format!("vn.kdep {} {} {} {} {} {} {}", crate::fam_bank::B::from_bank(&bank0).line(), bank0.last_update, pos_line(&p0), k.w.clock_ts, expected, o0.deposits[0].deposited_amount, post);
                            match &r {
                                Ok(()) => {
                                    let b1 = k.w.bank(&k.kb.bank);
                                    let p1 = pos_of(&k.w, &acct, &k.kb.bank);
                                    let got = read_obligation(&k.w, &k.obligation).deposits[0].deposited_amount - o0.deposits[0].deposited_amount;
                                    l.push(format!("{} => ok {} {} {} {}", head, crate::fam_bank::B::from_bank(&b1).line(), b1.last_update, pos_line(&p1), got));
                                }
                                Err(e) => match e.code() {
                                    Some(c) if c >= 6000 => l.push(format!("{} => err {}", head, c)),
                                    _ => {}
                                },
                            }
                        }
                    }
                    let exp_col: BigInt = if col == BigInt::from(0) || liq_sf <= BigInt::from(0) { BigInt::from(amount) } else { (BigInt::from(amount) << 60u32) * &col / &liq_sf };
                    match r {
                        Err(e) => {
                            rep.bump("deposit_refused");
                            rep.bump(&format!("dep_rej_{}", e.code().map(|c| c.to_string()).unwrap_or_else(|| "other".into())));
                            if k.w.accounts != before { rep.fail("C08 a refused kamino_deposit changed the store".to_string()); }
                            if who == wallet && !stale && skew.abs() <= 1 && amount > 0 && state == BankOperationalState::Operational && exp_col > BigInt::from(0) && e.code() != Some(6003) {
                                // (marginfi's own expectation of the collateral is computed with less precision than Kamino's; for very
                                // large amounts the two can differ by more than the tolerated unit and the deposit fails closed: not a
                                // violation of any property, counted only)
                                let _ = &e;
                                rep.bump("plain_deposit_refused");
                            }
                        }
                        Ok(()) => {
                            rep.bump("deposit_ok");
                            let o1 = read_obligation(&k.w, &k.obligation);
                            let got = o1.deposits[0].deposited_amount as i128 - o0.deposits[0].deposited_amount as i128;
                            let sh1 = k.position_shares(u);
                            let bank1 = k.w.bank(&k.kb.bank);
                            if who != wallet { rep.fail("C08 kamino_deposit succeeded for a signer who is not the account's authority".to_string()); }
                            if state != BankOperationalState::Operational { rep.fail(format!("C14 kamino_deposit succeeded on a bank in state {:?}", state as u8)); }
                            if stale { rep.bump("deposit_on_stale_reserve_ok"); }
                            // (judged against marginfi's OWN announcement — its conversion of the deposit on the reserve as it was, which can
                            // differ from the exact quotient by a unit of precision; what it tolerates is one unit around that)
                            if let Ok(announced) = r0.liquidity_to_collateral(amount) {
                                if (got - announced as i128).abs() >= 2 {
                                    rep.fail(format!("C20 kamino_deposit succeeded although the venue credited {} collateral where marginfi's own conversion announces {} (exact {}): the after-the-fact check did not notice", got, announced, exp_col));
                                }
                            }
                            if sh1 - sh0 != got << 48 || bits(bank1.total_asset_shares) - bits(bank0.total_asset_shares) != got << 48 {
                                rep.fail(format!("C02 kamino_deposit of {}: the obligation gained {} collateral but the position gained {} and the bank total {} shares (x 2^-48)", amount, got, sh1 - sh0, bits(bank1.total_asset_shares) - bits(bank0.total_asset_shares)));
                            }
                            if user0 - k.w.token_amount(&tk) != amount {
                                rep.fail(format!("C03 kamino_deposit of {} took {} tokens from the depositor", amount, user0 - k.w.token_amount(&tk)));
                            }
                            // (what is booked is what the obligation really gained — checked above; how far a skewed venue can stray from the
                            // exact conversion and still be accepted is the handler's one-unit tolerance around ITS OWN announcement, judged above)
                            k.backing_check(rep, "kamino_deposit");
                        }
                    }
                }
                // ------------------------------------------------------------ withdraw (partial / all)
                4..=8 => {
                    let all = rng.chance(1, 3);
                    let held = (sh0 >> 48) as u64;
                    let amount: u64 = if all { 0 } else { match rng.below(5) { 0 => 1, 1 => held, 2 => held / 2, 3 => held.saturating_add(1), _ => rng.below(held.max(1)) + 1 } };
                    let state = k.w.bank(&k.kb.bank).config.operational_state;
                    let (sk_c, sk_l): (i64, i64) = match rng.below(10) { 0 => (*rng.pick(&[-2i64, -1, 1, 2]), 0), 1 => (0, *rng.pick(&[-3i64, -2, -1, 1, 2, 3])), _ => (0, 0) };
                    KAMINO_SKEW_COLLATERAL.store(sk_c, Ordering::SeqCst);
                    KAMINO_SKEW_LIQUIDITY.store(sk_l, Ordering::SeqCst);
                    let who = if rng.chance(1, 8) { stranger } else { wallet };
                    let debt_before = {
                        let a = k.w.marginfi_account(&acct);
                        a.lending_account.balances.iter().find(|b| b.is_active() && b.bank_pk == k.debt.bank).map(|b| bits(b.liability_shares)).unwrap_or(0)
                    };
                    let p0 = pos_of(&k.w, &acct, &k.kb.bank);
                    let vault0 = k.w.token_amount(&k.kb.liquidity_vault);
                    let r = k.w.exec(&k.withdraw_ix(u, who, amount, all));
                    KAMINO_SKEW_COLLATERAL.store(0, Ordering::SeqCst);
                    KAMINO_SKEW_LIQUIDITY.store(0, Ordering::SeqCst);
                    if let (Some(l), true) = (lines.as_mut(), who == wallet && !stale && state != BankOperationalState::Paused && debt_before == 0 && p0.is_some()) {
                        // the collateral the handler will ask Kamino for, marginfi's own expectation of the liquidity (the real
                        // conversion function on the reserve as it was), and what the stand-in then does to obligation and vault
                        let c: u64 = if all { held } else { amount };
                        if let Ok(expected) = r0.collateral_to_liquidity(c) {
                            if c as i128 + sk_c as i128 >= 0 && c as i128 + sk_c as i128 <= o0.deposits[0].deposited_amount as i128 && col > BigInt::from(0) {
                                let liq: BigInt = ((BigInt::from(c) * &liq_sf) / &col) >> 60u32;
                                let liq = liq + BigInt::from(sk_l);
                                if liq >= BigInt::from(0) && liq <= BigInt::from(r0.available_amount) {
                                    let head = format!("vn.kwd {} {} {} {} {} {} {} {} {} {} {}", crate::fam_bank::B::from_bank(&bank0).line(), bank0.last_update, pos_line(&p0), k.w.clock_ts,
                                        amount, all as u8, expected, o0.deposits[0].deposited_amount, o0.deposits[0].deposited_amount as i128 - c as i128 - sk_c as i128, vault0, BigInt::from(vault0) + &liq);
                                    match &r {
                                        Ok(()) => {
                                            let b1 = k.w.bank(&k.kb.bank);
                                            let p1 = pos_of(&k.w, &acct, &k.kb.bank);
                                            let p1_line = match &p1 { Some(b) => crate::fam_bank::Bal::from_balance(b).line(), None => "0 0 0 0 0 0".to_string() };
                                            let paid = k.w.token_amount(&tk) as i128 - user0 as i128;
                                            l.push(format!("{} => ok {} {} {} {} {}", head, crate::fam_bank::B::from_bank(&b1).line(), b1.last_update, p1_line, c, paid));
                                        }
                                        Err(e) => match e.code() {
                                            Some(cd) if cd >= 6000 && cd != 6009 => l.push(format!("{} => err {}", head, cd)),
                                            _ => {}
                                        },
                                    }
                                }
                            }
                        }
                    }
                    match r {
                        Err(e) => {
                            rep.bump("withdraw_refused");
                            rep.bump(&format!("wd_rej_{}", e.code().map(|c| c.to_string()).unwrap_or_else(|| "other".into())));
                            if k.w.accounts != before { rep.fail("C08 a refused kamino_withdraw changed the store".to_string()); }
                            if who == wallet && !stale && sk_c == 0 && sk_l.abs() <= 1 && debt_before == 0 && state != BankOperationalState::Paused && held > 0 && (all || (amount > 0 && amount <= held)) {
                                let c = if all { held } else { amount };
                                let liq = ((BigInt::from(c) * &liq_sf) / &col) >> 60u32;
                                if liq <= BigInt::from(r0.available_amount) {
                                    let _ = (c, &e);
                                    rep.bump("plain_withdraw_refused");
                                }
                            }
                        }
                        Ok(()) => {
                            rep.bump("withdraw_ok");
                            let o1 = read_obligation(&k.w, &k.obligation);
                            let gone = o0.deposits[0].deposited_amount as i128 - o1.deposits[0].deposited_amount as i128;
                            let sh1 = k.position_shares(u);
                            let bank1 = k.w.bank(&k.kb.bank);
                            let paid = k.w.token_amount(&tk) as i128 - user0 as i128;
                            let released = k.w.token_amount(&k.supply_vault) as i128;
                            let released = before.get(&k.supply_vault).map(|a| { use solana_program::program_pack::Pack; spl_token::state::Account::unpack_from_slice(&a.data[..165]).map(|t| t.amount as i128).unwrap_or(0) }).unwrap_or(0) - released;
                            if who != wallet { rep.fail("C08 kamino_withdraw succeeded for a signer who is not the account's authority (no receivership)".to_string()); }
                            if state == BankOperationalState::Paused { rep.fail("C14 kamino_withdraw succeeded on a paused bank".to_string()); }
                            if sk_c != 0 { rep.fail(format!("C20 kamino_withdraw succeeded although the venue took {} collateral more / less than asked ({})", sk_c, gone)); }
                            if let Ok(announced) = r0.collateral_to_liquidity(gone.max(0) as u64) {
                                if (released - announced as i128).abs() >= 2 {
                                    rep.fail(format!("C20 kamino_withdraw succeeded although the venue released {} tokens where marginfi's own conversion of {} collateral announces {}", released, gone, announced));
                                }
                            }
                            let exp_c: i128 = if all { sh0 >> 48 } else { amount as i128 };
                            if gone != exp_c {
                                rep.fail(format!("C02 kamino_withdraw (all = {}): the obligation lost {} collateral, the position was asked for {}", all, gone, exp_c));
                            }
                            let dsh = sh0 - sh1;
                            let dtot = bits(bank0.total_asset_shares) - bits(bank1.total_asset_shares);
                            let want = if all { sh0 } else { (amount as i128) << 48 };
                            if dsh != want || (dtot != want && !(all && dtot == (sh0 >> 48) << 48)) {
                                rep.fail(format!("C02 kamino_withdraw of {} collateral (all = {}): position lost {} shares, bank total {} (x 2^-48), expected {}", exp_c, all, dsh, dtot, want));
                            }
                            if paid != released {
                                rep.fail(format!("C03 kamino_withdraw paid the user {} tokens while Kamino released {}", paid, released));
                            }
                            let exact_value = ((BigInt::from(gone) * &liq_sf) / &col) >> 60u32;
                            // (see mon_solend: marginfi's own announcement one unit above the exact value — known finding C20-F2 — plus the
                            // handler's one-unit tolerance lets a venue that overpays by two units through; named as such)
                            let announced_over: Option<i128> = r0.collateral_to_liquidity(gone.max(0) as u64).ok().map(|a| a as i128)
                                .filter(|a| BigInt::from(*a) > exact_value && (paid - *a).abs() <= 1);
                            if BigInt::from(paid) > &exact_value + 1 {
                                match announced_over {
                                    Some(a) => rep.fail(format!("C03 kamino_withdraw accepted a venue paying {} tokens for {} collateral whose exact value is {}: marginfi's own conversion announces {} (conversion-announces-above-exact: denominator truncation) and tolerates one unit more", paid, gone, exact_value, a)),
                                    None => rep.fail(format!("C03 kamino_withdraw paid {} tokens for {} collateral whose exact value is {}", paid, gone, exact_value)),
                                }
                            }
                            // C20: … and at most the exact value of the collateral DEBITED FROM THE POSITION
                            {
                                let debited = BigInt::from(dsh >> 48);
                                let v = ((&debited * &liq_sf) / &col) >> 60u32;
                                if BigInt::from(paid) > &v + 1 {
                                    for tag in ["C20", "C03"] {
                                        match announced_over {
                                            Some(a) if debited == BigInt::from(gone) => rep.fail(format!("{} kamino_withdraw (all = {}) accepted a venue paying {} tokens while the position was debited {} collateral whose exact value is {}: marginfi's own conversion announces {} (conversion-announces-above-exact: denominator truncation) and tolerates one unit more", tag, all, paid, debited, v, a)),
                                            _ => rep.fail(format!("{} kamino_withdraw (all = {}) paid {} tokens while the position was debited {} collateral whose exact value is {}: the conversion overstates what the position is worth", tag, all, paid, debited, v)),
                                        }
                                    }
                                }
                            }
                            // C04: with debt outstanding the account must still pass the initial check (the real engine's own verdict)
                            if debt_before > 0 {
                                let mut c2 = k.w.clone();
                                let metas = c2.remaining_in_slot_order(&acct);
                                if c2.exec(&ix::pulse_health(acct, metas)).is_ok() {
                                    let h = c2.marginfi_account(&acct).health_cache;
                                    if bits(h.asset_value) < bits(h.liability_value) {
                                        rep.fail(format!("C04 kamino_withdraw (all = {}) accepted but the account's weighted assets {} no longer cover its weighted debt {}", all, bits(h.asset_value), bits(h.liability_value)));
                                    }
                                }
                            }
                            k.backing_check(rep, "kamino_withdraw");
                        }
                    }
                }
                // ------------------------------------------------------------ borrow against the Kamino collateral
                9 => {
                    let in_debt_units = ((sh0 >> 48) as u128 * 1_000_000 / 10u128.pow(k.dec as u32)) as u64; // the debt mint has 6 decimals, both tokens are worth about a dollar
                    let amt = 1 + rng.below((in_debt_units / 2).max(1));
                    let risk = k.w.remaining_for(&acct, &[k.debt.bank]);
                    let r = k.w.exec(&ix::borrow(&k.debt, acct, wallet, td, amt, risk));
                    rep.bump(if r.is_ok() { "borrow_ok" } else { "borrow_refused" });
                    if r.is_ok() { k.backing_check(rep, "a borrow from another bank"); }
                }
                // ------------------------------------------------------------ substitutions (entitled signer)
                10 => {
                    let amount = 1000u64;
                    let is_dep = rng.chance(1, 2);
                    let mut ixn = if is_dep { k.deposit_ix(u, wallet, amount) } else { k.withdraw_ix(u, wallet, 1, false) };
                    let fake_res = k.w.new_key();
                    let fake_obl = k.w.new_key();
                    { let r = read_reserve(&k.w, &k.reserve); write_reserve(&mut k.w, &fake_res, &r); }
                    { let mut o = read_obligation(&k.w, &k.obligation); o.deposits[0].deposited_amount = 1_000_000_000; write_obligation(&mut k.w, &fake_obl, &o); }
                    let fake_vault = k.w.add_token_account(k.kb.mint, k.kb.liquidity_vault_authority, 0);
                    let (from, to, what) = match rng.below(4) {
                        0 => (k.reserve, fake_res, "a look-alike reserve"),
                        1 => (k.obligation, fake_obl, "a look-alike obligation (same owner, more collateral)"),
                        2 => (k.kb.liquidity_vault, fake_vault, "a look-alike liquidity vault"),
                        _ => (k.kb.bank, k.debt.bank, "an ordinary (non-Kamino) bank"),
                    };
                    for m in ixn.accounts.iter_mut() { if m.pubkey == from { m.pubkey = to; } }
                    let snap = k.w.accounts.clone();
                    let r = k.w.exec(&ixn);
                    rep.bump("substitution_probes");
                    if r.is_ok() { rep.fail(format!("C08 {} succeeded with {} in place of the bank's own", if is_dep { "kamino_deposit" } else { "kamino_withdraw" }, what)); }
                    else if k.w.accounts != snap { rep.fail("C08 a refused Kamino instruction changed the store".to_string()); }
                    k.w.accounts = before;
                }
                // ------------------------------------------------------------ forced deleverage through the venue under a daily limit
                // (on a copy of the world) the risk admin takes the user's Kamino collateral out - with an explicit amount or with
                // withdraw_all - and repays the user's debt, in one [start_deleverage .. end_deleverage] transaction, while the group
                // has a daily dollar limit: a committed transaction never withdraws more whole dollars than the limit allows
                11 if sh0 >> 48 > 0 => {
                    let mut w2 = k.w.clone();
                    let held = (sh0 >> 48) as u64;
                    // the position's value in dollars: collateral x exchange rate x $1 (confidence 0), exactly
                    let value_cents: BigInt = (BigInt::from(held) * &liq_sf * BigInt::from(100u32) / &col) >> 60u32;
                    let value_cents = value_cents / BigInt::from(10u64).pow(k.dec as u32);
                    let dollars: u64 = (value_cents.clone() / BigInt::from(100u32)).to_string().parse().unwrap_or(u64::MAX);
                    if dollars >= 4 && dollars < u32::MAX as u64 / 4 {
                        // some debt to repay (a tenth of the collateral's value), borrowed by the user beforehand
                        let debt_amt = (dollars / 10).max(1) * 1_000_000;
                        let risk = w2.remaining_for(&acct, &[k.debt.bank]);
                        let has_debt = w2.marginfi_account(&acct).lending_account.balances.iter().any(|b| b.is_active() && b.bank_pk == k.debt.bank && bits(b.liability_shares) > 0)
                            || w2.exec(&ix::borrow(&k.debt, acct, wallet, td, debt_amt, risk)).is_ok();
                        // the collateral then loses most of its weight (admin re-configuration), so that the account is unhealthy at
                        // maintenance level and taking the collateral while repaying the debt does not make its health worse
                        let has_debt = has_debt && w2.exec(&ix::configure_bank(&k.kb, k.admin, marginfi_type_crate::types::BankConfigOpt {
                            asset_weight_init: Some(I80F48::from_num(0.04).into()), asset_weight_maint: Some(I80F48::from_num(0.05).into()),
                            operational_state: Some(BankOperationalState::Operational), ..Default::default() })).is_ok();
                        if has_debt {
                            w2.add_liquidation_record(acct, k.admin);
                            let admin_tok = w2.add_token_account(k.debt.mint, k.admin, u64::MAX / 8);
                            let all = rng.chance(1, 2);
                            let take: u64 = if all { held } else { *rng.pick(&[held, held / 2, held / 4 + 1]) };
                            let take_dollars: u64 = ((BigInt::from(take) * &liq_sf / &col) >> 60u32).to_string().parse::<u128>().map(|v| (v / 10u128.pow(k.dec as u32)) as u64).unwrap_or(u64::MAX);
                            let limit: u32 = match rng.below(4) { 0 => (take_dollars / 2).max(1) as u32, 1 => take_dollars.saturating_sub(2).max(1) as u32, 2 => (take_dollars + 2) as u32, _ => (take_dollars * 3 + 5) as u32 };
                            if w2.exec(&ix::configure_deleverage_withdrawal_limit(k.group, k.admin, limit)).is_ok() {
                                let mut kk = Kw { w: w2, group: k.group, admin: k.admin, kb: k.kb, debt: k.debt, reserve: k.reserve, obligation: k.obligation, market: k.market, market_auth: k.market_auth,
                                    supply_vault: k.supply_vault, col_mint: k.col_mint, col_vault: k.col_vault, oracle: k.oracle, users: k.users.clone(), dec: k.dec };
                                let wd = {
                                    // receivership: the risk admin signs, the health check is deferred to the end: no risk accounts needed for
                                    // the gate, but the price of the bank is read from the remaining accounts for the limit
                                    let mut ixn = kk.withdraw_ix(u, k.admin, if all { 0 } else { take }, all);
                                    // (withdraw_ix appended the sorted risk accounts of the post-state; for the receivership price lookup the
                                    // bank's own accounts must be among them: use the full pre-state list)
                                    let n_named = ixn.accounts.len() - if all { kk.w.remaining_sorted(&acct, &[], &[k.kb.bank]).len() } else { kk.w.remaining_for(&acct, &[]).len() };
                                    ixn.accounts.truncate(n_named);
                                    ixn.accounts.extend(kk.w.remaining_for(&acct, &[]));
                                    ixn
                                };
                                let tx = vec![
                                    ix::start_deleverage(k.group, acct, k.admin, kk.w.remaining_in_slot_order(&acct)),
                                    wd,
                                    ix::repay(&k.debt, acct, k.admin, admin_tok, 0, Some(true)),
                                    ix::end_deleverage(k.group, acct, k.admin, kk.w.remaining_sorted(&acct, &[], &if all { vec![k.kb.bank, k.debt.bank] } else { vec![k.debt.bank] })),
                                ];
                                let r = kk.w.exec_tx(&tx);
                                rep.bump("delev_limit_probes");
                                match r {
                                    Ok(()) => {
                                        rep.bump("delev_committed");
                                        if take_dollars > limit as u64 + 1 {
                                            rep.fail(format!("C12 a forced deleverage took {} collateral tokens worth {} whole dollars out of a Kamino position (withdraw_all = {}) in one committed transaction under a daily limit of {} dollars", take, take_dollars, all, limit));
                                        }
                                    }
                                    Err((i, e)) => {
                                        rep.bump(&format!("delev_refused_at_{}_{}", i, e.code().map(|c| c.to_string()).unwrap_or_else(|| "other".into())));
                                    }
                                }
                            }
                        }
                    }
                }
                // ------------------------------------------------------------ the admin changes the bank's operational state
                _ => {
                    let st = *rng.pick(&[BankOperationalState::Operational, BankOperationalState::Operational, BankOperationalState::Paused, BankOperationalState::ReduceOnly]);
                    let r = k.w.exec(&ix::configure_bank(&k.kb, k.admin, marginfi_type_crate::types::BankConfigOpt { operational_state: Some(st), ..Default::default() }));
                    rep.bump(if r.is_ok() { "state_change_ok" } else { "state_change_refused" });
                }
            }
        }
        rep.sample("kamino world".to_string());
    }
    KAMINO_SKEW_COLLATERAL.store(0, Ordering::SeqCst);
    KAMINO_SKEW_LIQUIDITY.store(0, Ordering::SeqCst);
}
