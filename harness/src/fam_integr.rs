//! family `integr`: type-crate price.rs helpers + Kamino/Solend/Drift mock exchange-rate math.
use crate::rng::Rng;
use drift_mocks::state::MinimalSpotMarket;
use fixed::types::I80F48;
use kamino_mocks::state::{u68f60_to_i80f48, MinimalReserve};
use marginfi_type_crate::types::{
    adjust_i128, adjust_i64, adjust_u64, collateral_to_liquidity_from_scaled, convert_decimals,
    liq_to_col_ratio, liquidity_to_collateral_from_scaled, scale_supplies,
};
use solend_mocks::state::{decimal_to_i80f48, SolendMinimalReserve};

const ONE: i128 = 1 << 48;

fn o<T: std::fmt::Display>(x: Option<T>) -> String {
    match x {
        Some(v) => format!("some {}", v),
        None => "none".into(),
    }
}
fn ofx(x: Option<I80F48>) -> String {
    o(x.map(|v| v.to_bits()))
}

pub fn ratio_bits(rng: &mut Rng) -> i128 {
    match rng.below(8) {
        0 => ONE,
        1 => ONE + rng.below(ONE as u64 / 4) as i128,
        2 => rng.below(ONE as u64 * 4) as i128,
        3 => rng.below(1 << 20) as i128,
        4 => rng.fx_amount(),
        5 => rng.fx_bits(),
        6 => ONE * (1 + rng.below(1000) as i128),
        _ => ONE + rng.below(1 << 30) as i128,
    }
}

pub fn supply_fx(rng: &mut Rng) -> i128 {
    match rng.below(7) {
        0 => 0,
        1 => rng.below(1000) as i128,
        2 => rng.fx_amount(),
        3 => (rng.u64_mixed() as i128) * ONE,
        4 => rng.below(ONE as u64 * 100) as i128,
        5 => ((rng.u128() >> 2) as i128) >> rng.below(80),
        _ => (rng.below(1_000_000_000_000) as i128) * ONE,
    }
}

pub fn spot_market(decimals: u32, cum: u128, last_ts: u64) -> MinimalSpotMarket {
    let mut m = MinimalSpotMarket::default();
    m.decimals = decimals;
    m.cumulative_deposit_interest = cum.to_le_bytes();
    m.last_interest_ts = last_ts;
    m
}

pub fn cum_interest(rng: &mut Rng) -> u128 {
    match rng.below(7) {
        0 => 10_000_000_000,
        1 => 10_000_000_000 + rng.below(10_000_000_000) as u128,
        2 => 0,
        3 => 1,
        4 => rng.u128() >> rng.below(128),
        5 => 10_000_000_000 * (1 + rng.below(100) as u128),
        _ => 10_000_000_000 + rng.below(1_000_000) as u128,
    }
}

fn r<T>(x: anchor_lang::Result<T>) -> Option<T> {
    x.ok()
}

pub fn gen(rng: &mut Rng, n: usize, out: &mut Vec<String>) {
    // a tenth of the family: the staked-collateral re-scaling through the REAL oracle adapter
    crate::mon_venue::staked_lines(rng, n / 10, out);
    // a fifth: the six venue-backed arms' re-scaling, taken from the REAL adapter on real reserve / spot-market accounts
    crate::mon_venue::venue_value_lines(rng, n / 5, out);
    crate::mon_venue::venue_v4_lines(rng, n / 5, out);
    let n = n - out.len().min(n);
    for i in 0..n {
        let line = match i % 21 {
            0 => {
                let raw = match rng.below(4) {
                    0 => rng.u128() as i128 >> rng.below(127),
                    1 => (1i128 << 79) - rng.range(-2, 2) as i128,
                    2 => -(1i128 << 79) + rng.range(-2, 2) as i128,
                    _ => (rng.u64_mixed() as i128) * 1_000_000_000,
                };
                let rb = ratio_bits(rng);
                format!("ig.adj128 {} {} => {}", raw, rb, o(adjust_i128(raw, I80F48::from_bits(rb))))
            }
            1 => {
                let raw = match rng.below(3) {
                    0 => rng.next() as i64,
                    1 => rng.u64_mixed() as i64,
                    _ => rng.range(0, 1 << 50),
                };
                let rb = ratio_bits(rng);
                format!("ig.adj64 {} {} => {}", raw, rb, o(adjust_i64(raw, I80F48::from_bits(rb))))
            }
            2 => {
                let raw = rng.u64_mixed();
                let rb = ratio_bits(rng);
                format!("ig.adju64 {} {} => {}", raw, rb, o(adjust_u64(raw, I80F48::from_bits(rb))))
            }
            3 => {
                let (c, l, k) = (rng.u64_mixed(), supply_fx(rng), supply_fx(rng));
                format!(
                    "ig.c2l {} {} {} => {}",
                    c,
                    l,
                    k,
                    o(collateral_to_liquidity_from_scaled(c, I80F48::from_bits(l), I80F48::from_bits(k)))
                )
            }
            4 => {
                let (x, l, k) = (rng.u64_mixed(), supply_fx(rng), supply_fx(rng));
                format!(
                    "ig.l2c {} {} {} => {}",
                    x,
                    l,
                    k,
                    o(liquidity_to_collateral_from_scaled(x, I80F48::from_bits(l), I80F48::from_bits(k)))
                )
            }
            5 => {
                let (l, k) = (supply_fx(rng), supply_fx(rng));
                format!("ig.ratio {} {} => {}", l, k, ofx(liq_to_col_ratio(I80F48::from_bits(l), I80F48::from_bits(k))))
            }
            6 => {
                let l = supply_fx(rng);
                let c = rng.u64_mixed();
                let d = rng.below(26) as u8;
                let res = scale_supplies(I80F48::from_bits(l), c, d);
                format!(
                    "ig.scale {} {} {} => {}",
                    l,
                    c,
                    d,
                    match res {
                        Some((a, b)) => format!("some {} {}", a.to_bits(), b.to_bits()),
                        None => "none".into(),
                    }
                )
            }
            7 => {
                let nn = rng.fx_bits();
                let (f, t) = (rng.below(30) as u8, rng.below(30) as u8);
                format!("ig.conv {} {} {} => {}", nn, f, t, ofx(convert_decimals(I80F48::from_bits(nn), f, t)))
            }
            8 => {
                let raw = rng.u128() >> rng.below(128);
                format!("ig.u68 {} => {}", raw, u68f60_to_i80f48(raw.to_le_bytes()).to_bits())
            }
            9 => {
                let raw = match rng.below(3) {
                    0 => rng.u128(),
                    1 => rng.u128() >> rng.below(128),
                    _ => (rng.u64_mixed() as u128) * 1_000_000_000_000_000_000 + rng.below(1_000_000_000_000_000_000) as u128,
                };
                format!("ig.dec2fx {} => {}", raw, ofx(r(decimal_to_i80f48(raw.to_le_bytes()))))
            }
            10 => {
                let s = rng.below(1000);
                let c = s + rng.below(3) - 1.min(s);
                let mut res: MinimalReserve = bytemuck::Zeroable::zeroed();
                res.slot = s;
                format!("ig.kstale {} {} => {}", s, c, res.is_stale(c) as u8)
            }
            11 => {
                let s = rng.below(1000) + 1;
                let c = s + rng.below(3) - 1;
                let mut res: SolendMinimalReserve = bytemuck::Zeroable::zeroed();
                res.last_update_slot = s;
                crate::stubs::set_clock(0, c);
                format!("ig.sstale {} {} => {}", s, c, res.is_stale().unwrap() as u8)
            }
            12 => {
                let s = rng.below(1000) + 1;
                let c = s + rng.below(3) - 1;
                let m = spot_market(6, 1, s);
                format!("ig.dstale {} {} => {}", s, c, m.is_stale(c as i64) as u8)
            }
            13 | 14 | 15 => {
                let d = match rng.below(8) {
                    0 => 20 + rng.below(5) as u32,
                    1 => 19,
                    2 => 0,
                    _ => rng.below(20) as u32,
                };
                let cum = cum_interest(rng);
                let x = rng.u64_mixed();
                let m = spot_market(d, cum, 0);
                match i % 21 {
                    13 => format!("ig.dinc {} {} {} => {}", d, cum, x, o(r(m.get_scaled_balance_increment(x)))),
                    14 => format!("ig.ddec {} {} {} => {}", d, cum, x, o(r(m.get_scaled_balance_decrement(x)))),
                    _ => format!("ig.dwd {} {} {} => {}", d, cum, x, o(r(m.get_withdraw_token_amount(x)))),
                }
            }
            16 => {
                let cum = cum_interest(rng);
                let x = if rng.chance(1, 6) { -(rng.below(100) as i64) } else { rng.u64_mixed() as i64 };
                format!("ig.dadj64 {} {} => {}", cum, x, o(r(spot_market(6, cum, 0).adjust_i64(x))))
            }
            17 => {
                let cum = cum_interest(rng);
                let x = rng.u64_mixed();
                format!("ig.dadju64 {} {} => {}", cum, x, o(r(spot_market(6, cum, 0).adjust_u64(x))))
            }
            18 => {
                let cum = cum_interest(rng);
                let x = if rng.chance(1, 6) { -(rng.below(100) as i128) } else { (rng.u128() >> 1) as i128 >> rng.below(127) };
                format!("ig.dadj128 {} {} => {}", cum, x, o(r(spot_market(6, cum, 0).adjust_i128(x))))
            }
            _ => {
                // (the Kamino / Solend / Drift price pipelines are taken from the real adapter: venue_value_lines)
                crate::mon_venue::venue_value_lines(rng, 1, out);
                continue;
            }
        };
        out.push(line);
    }
}

/// (total_liq_raw bits, total_col_raw, decimals, price)
pub fn gen_reserve_price(rng: &mut Rng) -> (i128, u64, u8, i128) {
    let d = if rng.chance(2, 3) { rng.below(13) as u8 } else { rng.below(25) as u8 };
    let c: u64 = match rng.below(5) {
        0 => rng.below(20),
        1 => rng.below(1_000_000),
        2 => rng.u64_mixed(),
        _ => rng.below(1_000_000_000_000_000),
    };
    // liquidity within ±50% .. 3x of collateral, plus extremes
    let l: i128 = match rng.below(5) {
        0 => (c as i128) * ONE,
        1 => (c as i128) * ONE + (c as i128) * rng.below(ONE as u64) as i128,
        2 => (c as i128) * 2 * ONE,
        3 => supply_fx(rng),
        _ => (c as i128) * ONE + rng.below(ONE as u64) as i128,
    };
    let p: i128 = match rng.below(5) {
        0 => rng.below(1_000_000_000_000) as i128,
        1 => (rng.below(1_000_000) as i128) * 1_000_000_000_000_000_000,
        2 => rng.u64_mixed() as i128,
        3 => 10i128.pow(rng.below(22) as u32),
        _ => rng.below(100_000_000) as i128,
    };
    (l, c, d, p)
}
