//! C04 monitor "GATE" (Level B, real dispatch): the risk gate of borrow / withdraw, searched to the exact
//! accept / reject boundary by bisection on the REAL instructions.
//!
//! Worlds come from the `health` family generator (any weights, tiers, operational states, e-mode, init
//! caps, Fixed and Pyth oracles incl. stale / wrong ones); the portfolio is written into the account, the
//! banks get liquidity, and then for a borrow or withdraw of amount x:
//!   * accepted  ⇒ the post-state, valued by the real engine through pulse_health (whose arithmetic is
//!                 diffed against the Lean model by the `health` family), passes the initial check:
//!                 weighted assets ≥ weighted liabilities and the isolated-tier rule;
//!   * rejected for health ⇒ the state the action WOULD have produced (obtained by running the same
//!                 instruction with the health check suspended) does not pass it: the gate never
//!                 rejects a healthy outcome;
//!   * any other rejection leaves the store unchanged.
use crate::fam_health::{build_world, fill_positions, risk_metas, BankSpec};
use crate::mon::Report;
use crate::rng::Rng;
use crate::world::{ix, World};
use anchor_lang::prelude::Pubkey;
use fixed::types::I80F48;
use marginfi_type_crate::types::ACCOUNT_IN_FLASHLOAN;
use solana_program::instruction::{AccountMeta, Instruction};

const ONE: i128 = 1 << 48;

fn bits(v: marginfi_type_crate::types::WrappedI80F48) -> i128 {
    I80F48::from(v).to_bits()
}

struct Pulse {
    a_init: i128,
    l_init: i128,
    mrgn_err: u32,
}

fn pulse(w: &World, acct: &Pubkey, specs: &[BankSpec]) -> Option<Pulse> {
    let mut c = w.clone();
    c.exec(&ix::pulse_health(*acct, risk_metas(w, acct, specs))).ok()?;
    let h = c.marginfi_account(acct).health_cache;
    Some(Pulse { a_init: bits(h.asset_value), l_init: bits(h.liability_value), mrgn_err: h.mrgn_err })
}

/// risk accounts as the handlers expect them: every active balance (after the action) in sorted order
fn risk_for(w: &World, acct: &Pubkey, specs: &[BankSpec], extra: Option<Pubkey>, drop: Option<Pubkey>) -> Vec<AccountMeta> {
    let a = w.marginfi_account(acct);
    let mut keys: Vec<Pubkey> = a.lending_account.balances.iter().filter(|b| b.is_active()).map(|b| b.bank_pk).collect();
    if let Some(e) = extra {
        if !keys.contains(&e) {
            keys.push(e);
        }
    }
    if let Some(d) = drop {
        keys.retain(|k| *k != d);
    }
    keys.sort_by(|x, y| y.cmp(x));
    let mut v = vec![];
    for k in keys {
        let spec = specs.iter().find(|s| s.key == k).unwrap();
        v.push(AccountMeta::new_readonly(k, false));
        if let Some(o) = spec.oracle_meta {
            v.push(AccountMeta::new_readonly(o, false));
        }
    }
    v
}

#[derive(Clone, Copy, Debug)]
enum Kind {
    Borrow,
    Withdraw,
}

pub fn run(rng: &mut Rng, n: usize, rep: &mut Report) {
    let mut done = 0;
    while done < n {
        let (mut w, acct, mut specs, _group) = build_world(rng);
        // liquidity and consistent totals
        let wallet = w.marginfi_account(&acct).authority;
        let mut toks = vec![];
        for s in &specs {
            let h = w.bank_handle(&s.key);
            let mut b = w.bank(&s.key);
            b.config.deposit_limit = u64::MAX;
            b.config.borrow_limit = u64::MAX;
            b.total_asset_shares = I80F48::from_bits(4_000_000_000_000_000i128 * ONE).into();
            b.total_liability_shares = I80F48::from_bits(0).into();
            b.last_update = w.clock_ts;
            w.set_bank(&s.key, &b);
            w.set_token_amount(&h.liquidity_vault, 4_000_000_000_000_000_000);
            toks.push(w.add_token_account(h.mint, wallet, 0));
        }
        for _ in 0..3 {
            let mut a = w.marginfi_account(&acct);
            for b in a.lending_account.balances.iter_mut() {
                *b = bytemuck::Zeroable::zeroed();
            }
            w.set_marginfi_account(&acct, &a);
            fill_positions(&mut w, &acct, &specs, rng);
            // two worlds in three get one solid collateral position, so that the gate is reached with debt
            if rng.chance(2, 3) {
                let mut a = w.marginfi_account(&acct);
                let k0 = a.lending_account.balances[0].bank_pk;
                let si = specs.iter().position(|s| s.key == k0).unwrap();
                let mut b = w.bank(&k0);
                b.config.oracle_setup = marginfi_type_crate::types::OracleSetup::Fixed;
                b.config.fixed_price = I80F48::from_num(10).into();
                b.config.risk_tier = marginfi_type_crate::types::RiskTier::Collateral;
                b.config.operational_state = marginfi_type_crate::types::BankOperationalState::Operational;
                if bits(b.config.asset_weight_init) < ONE / 2 {
                    b.config.asset_weight_init = I80F48::from_bits(ONE / 2).into();
                    if bits(b.config.asset_weight_maint) < ONE / 2 { b.config.asset_weight_maint = I80F48::from_bits(ONE / 2).into(); }
                }
                w.set_bank(&k0, &b);
                specs[si].pyth = None;
                specs[si].swb = None;
                specs[si].oracle_meta = None;
                a.lending_account.balances[0].asset_shares = I80F48::from_bits((1_000_000 + rng.below(1_000_000_000_000) as i128) * ONE).into();
                a.lending_account.balances[0].liability_shares = I80F48::from_bits(0).into();
                w.set_marginfi_account(&acct, &a);
            }
            // the handlers keep positions sorted; start from a sorted account
            {
                use marginfi::state::marginfi_account::LendingAccountImpl;
                let mut a = w.marginfi_account(&acct);
                a.lending_account.sort_balances();
                // cap share magnitudes so that token amounts stay below u64
                for b in a.lending_account.balances.iter_mut() {
                    let cap = 1_000_000_000_000_000i128 * ONE;
                    if bits(b.asset_shares) > cap { b.asset_shares = I80F48::from_bits(cap).into(); }
                    if bits(b.liability_shares) > cap { b.liability_shares = I80F48::from_bits(cap).into(); }
                }
                w.set_marginfi_account(&acct, &a);
            }
            // bank liability totals = this account's debts (utilisation stays far below 100 %)
            for s in &specs {
                let a = w.marginfi_account(&acct);
                let l: i128 = a.lending_account.balances.iter().filter(|b| b.is_active() && b.bank_pk == s.key).map(|b| bits(b.liability_shares)).sum();
                let mut b = w.bank(&s.key);
                b.total_liability_shares = I80F48::from_bits(l).into();
                w.set_bank(&s.key, &b);
            }
            for _ in 0..3 {
                let j = rng.below(specs.len() as u64) as usize;
                let bank = specs[j].key;
                let h = w.bank_handle(&bank);
                let posn = w.marginfi_account(&acct).lending_account.balances.iter().find(|b| b.is_active() && b.bank_pk == bank).cloned();
                let has_assets = posn.as_ref().map(|b| bits(b.asset_shares) >= ONE).unwrap_or(false);
                // withdraw where there is a deposit, borrow elsewhere (the other combinations are refused by the
                // wrapper before the gate is reached)
                let kind = if has_assets { if rng.chance(5, 6) { Kind::Withdraw } else { Kind::Borrow } } else { Kind::Borrow };
                let mk = |w: &World, x: u64| -> Instruction {
                    match kind {
                        Kind::Borrow => ix::borrow(&h, acct, wallet, toks[j], x, risk_for(w, &acct, &specs, Some(bank), None)),
                        Kind::Withdraw => ix::withdraw(&h, acct, wallet, toks[j], x, None, risk_for(w, &acct, &specs, None, None)),
                    }
                };
                let try_x = |w: &World, x: u64| -> (Result<(), crate::world::ExecErr>, World) {
                    let mut c = w.clone();
                    let r = c.exec(&mk(w, x));
                    (r, c)
                };
                // bisection between an accepted and a health-rejected amount
                let mut lo: u64 = 0;
                // exponential search for a health-rejected amount
                let mut hi: u64 = 1;
                let mut hi_code = None;
                for _ in 0..60 {
                    let (r, _) = try_x(&w, hi);
                    match r {
                        Ok(()) => { lo = hi; if hi > u64::MAX / 4 { break; } hi *= 3; }
                        Err(e) => { hi_code = e.code(); break; }
                    }
                }
                let mut probes: Vec<u64> = vec![hi, 1, rng.below(hi) + 1];
                if hi_code == Some(6009) {
                    for _ in 0..52 {
                        if hi - lo <= 1 { break; }
                        let mid = lo + (hi - lo) / 2;
                        let (r, _) = try_x(&w, mid);
                        match r {
                            Ok(()) => lo = mid,
                            Err(e) if e.code() == Some(6009) => hi = mid,
                            Err(_) => break,
                        }
                    }
                    probes.push(lo);
                    probes.push(hi);
                    rep.bump("boundary_found");
                }
                for x in probes {
                    if x == 0 { continue; }
                    rep.bump("cases");
                    done += 1;
                    let before = w.accounts.clone();
                    let (r, post) = try_x(&w, x);
                    match r {
                        Ok(()) => {
                            rep.bump("accepted");
                            match pulse(&post, &acct, &specs) {
                                Some(p) => {
                                    if p.mrgn_err != 0 || p.a_init < p.l_init {
                                        rep.fail(format!(
                                            "C04 {:?} of {} ACCEPTED but the resulting account fails the initial check: weighted assets {} < liabilities {} (engine verdict {}); bank {} of {}",
                                            kind, x, p.a_init, p.l_init, p.mrgn_err, j, specs.len()
                                        ));
                                    }
                                    if p.l_init > 0 { rep.bump("accepted_with_debt"); }
                                }
                                None => rep.bump("pulse_failed"),
                            }
                        }
                        Err(e) => {
                            rep.bump("rejected");
                            rep.bump(&format!("rej_{}", e.code().map(|c| c.to_string()).unwrap_or_else(|| "other".into())));
                            let _ = before;
                            if e.code() == Some(6009) || e.code() == Some(6029) {
                                // what would the action have produced? run it with the health check suspended
                                let mut c = w.clone();
                                let mut a = c.marginfi_account(&acct);
                                a.account_flags |= ACCOUNT_IN_FLASHLOAN;
                                c.set_marginfi_account(&acct, &a);
                                if c.exec(&mk(&w, x)).is_ok() {
                                    let mut a = c.marginfi_account(&acct);
                                    a.account_flags &= !ACCOUNT_IN_FLASHLOAN;
                                    c.set_marginfi_account(&acct, &a);
                                    if let Some(p) = pulse(&c, &acct, &specs) {
                                        rep.bump("rejection_replayed");
                                        if p.mrgn_err == 0 && p.a_init >= p.l_init {
                                            rep.fail(format!(
                                                "C04 {:?} of {} REJECTED ({:?}) although the resulting account passes the initial check: assets {} >= liabilities {}",
                                                kind, x, e.code(), p.a_init, p.l_init
                                            ));
                                        }
                                    }
                                }
                            }
                        }
                    }
                }
            }
        }
        rep.sample(format!("world with {} banks", specs.len()));
    }
}
