//! family `account`: real LendingAccount operations — find_or_create, sort_balances,
//! validate_asset_tags, can_be_closed — on generated 16-slot position arrays.
use crate::rng::Rng;
use anchor_lang::prelude::Pubkey;
use fixed::types::I80F48;
use marginfi::state::marginfi_account::{BankAccountWrapper, LendingAccountImpl, MarginfiAccountImpl};
use marginfi::utils::validate_asset_tags;
use marginfi_type_crate::types::{Balance, Bank, MarginfiAccount, ACCOUNT_DISABLED, ACCOUNT_IN_FLASHLOAN, ACCOUNT_IN_RECEIVERSHIP};
use std::panic::{catch_unwind, AssertUnwindSafe};

const ONE: i128 = 1 << 48;

/// natural → Pubkey whose byte-wise order equals the numeric order
pub fn key(n: u64) -> Pubkey {
    let mut b = [0u8; 32];
    b[24..].copy_from_slice(&n.to_be_bytes());
    Pubkey::new_from_array(b)
}
pub fn unkey(k: &Pubkey) -> u64 {
    let b = k.to_bytes();
    u64::from_be_bytes(b[24..].try_into().unwrap())
}

#[derive(Clone, Debug)]
pub struct Slot {
    pub active: u8,
    pub bank: u64,
    pub tag: u8,
    pub a: i128,
    pub l: i128,
}

pub fn to_account(slots: &[Slot]) -> MarginfiAccount {
    let mut acc: MarginfiAccount = bytemuck::Zeroable::zeroed();
    for (i, s) in slots.iter().enumerate() {
        let mut b = Balance::empty_deactivated();
        b.active = s.active;
        b.bank_pk = key(s.bank);
        b.bank_asset_tag = s.tag;
        b.asset_shares = I80F48::from_bits(s.a).into();
        b.liability_shares = I80F48::from_bits(s.l).into();
        acc.lending_account.balances[i] = b;
    }
    acc
}
pub fn from_account(acc: &MarginfiAccount) -> Vec<Slot> {
    acc.lending_account
        .balances
        .iter()
        .map(|b| Slot { active: b.active, bank: unkey(&b.bank_pk), tag: b.bank_asset_tag, a: I80F48::from(b.asset_shares).to_bits(), l: I80F48::from(b.liability_shares).to_bits() })
        .collect()
}
pub fn line(slots: &[Slot]) -> String {
    slots.iter().map(|s| format!("{} {} {} {} {}", s.active, s.bank, s.tag, s.a, s.l)).collect::<Vec<_>>().join(" ")
}

pub fn gen_slots(rng: &mut Rng) -> Vec<Slot> {
    let n_active = match rng.below(6) {
        0 => 0,
        1 => 16,
        2 => 15,
        _ => rng.below(12) as usize,
    };
    let staked_world = rng.chance(1, 4);
    let mut keys: Vec<u64> = (0..n_active).map(|_| 1 + rng.below(40)).collect();
    if rng.chance(4, 5) {
        keys.sort();
        keys.dedup();
        keys.reverse();
    }
    let mut slots: Vec<Slot> = keys
        .iter()
        .map(|&k| {
            let tag = if staked_world { *rng.pick(&[1u8, 2, 2]) } else { *rng.pick(&[0u8, 0, 1, 3, 4, 5, 3, 4]) };
            let (a, l) = match rng.below(5) {
                0 => (rng.below(ONE as u64) as i128, 0),
                1 => (ONE * (1 + rng.below(100) as i128), rng.below(100) as i128),
                2 => (rng.below(100) as i128, ONE * (1 + rng.below(100) as i128)),
                3 => (0, 0),
                _ => (ONE * (1 + rng.below(10) as i128), ONE * rng.below(2) as i128),
            };
            Slot { active: 1, bank: k, tag: if rng.chance(1, 40) { 9 } else { tag }, a, l }
        })
        .collect();
    while slots.len() < 16 {
        slots.push(Slot { active: 0, bank: 0, tag: 0, a: 0, l: 0 });
    }
    // holes: sometimes move an inactive slot into the middle
    if rng.chance(1, 3) && n_active > 1 && n_active < 16 {
        let i = rng.below(n_active as u64) as usize;
        slots.swap(i, 15);
    }
    slots
}

pub fn gen(rng: &mut Rng, n: usize, out: &mut Vec<String>) {
    crate::stubs::install();
    for i in 0..n {
        let slots = gen_slots(rng);
        match i % 4 {
            0 => {
                // find_or_create
                let bank_key = if rng.chance(1, 2) && slots.iter().any(|s| s.active == 1) { slots[rng.below(16) as usize].bank.max(1) } else { 41 + rng.below(10) };
                let tag = *rng.pick(&[0u8, 1, 2, 3, 4, 5]);
                let now = 1_700_000_000 + rng.range(0, 1000);
                crate::stubs::set_clock(now, 0);
                let mut acc = to_account(&slots);
                let mut bank = Bank::default();
                bank.config.asset_tag = tag;
                let r = catch_unwind(AssertUnwindSafe(|| {
                    let k = key(bank_key);
                    let w = BankAccountWrapper::find_or_create(&k, &mut bank, &mut acc.lending_account)?;
                    Ok::<(u64, u8), anchor_lang::error::Error>((unkey(&w.balance.bank_pk), w.balance.bank_asset_tag))
                }));
                let o = match r {
                    Err(_) => "panic".to_string(),
                    Ok(Err(e)) => format!("err {}", crate::errcode(e)),
                    Ok(Ok((bk, tg))) => format!("ok {} {} {}", line(&from_account(&acc)), bk, tg),
                };
                out.push(format!("acct.foc {} {} {} {} => {}", line(&slots), bank_key, tag, now, o));
            }
            1 => {
                let mut acc = to_account(&slots);
                acc.lending_account.sort_balances();
                out.push(format!("acct.sort {} => {}", line(&slots), line(&from_account(&acc))));
            }
            2 => {
                let acc = to_account(&slots);
                let tag = *rng.pick(&[0u8, 1, 2, 3, 4, 5]);
                let mut bank = Bank::default();
                bank.config.asset_tag = tag;
                let r = catch_unwind(AssertUnwindSafe(|| validate_asset_tags(&bank, &acc)));
                let o = match r {
                    Err(_) => "panic".to_string(),
                    Ok(Err(e)) => format!("err {}", crate::errcode(e)),
                    Ok(Ok(())) => "ok".to_string(),
                };
                out.push(format!("acct.tags {} {} => {}", line(&slots), tag, o));
            }
            _ => {
                let mut acc = to_account(&slots);
                let (d, f, r) = (rng.chance(1, 5), rng.chance(1, 5), rng.chance(1, 5));
                if d {
                    acc.account_flags |= ACCOUNT_DISABLED;
                }
                if f {
                    acc.account_flags |= ACCOUNT_IN_FLASHLOAN;
                }
                if r {
                    acc.account_flags |= ACCOUNT_IN_RECEIVERSHIP;
                }
                let res = catch_unwind(AssertUnwindSafe(|| acc.can_be_closed()));
                out.push(format!(
                    "acct.canclose {} {} {} {} => {}",
                    line(&slots),
                    d as u8,
                    f as u8,
                    r as u8,
                    match res {
                        Ok(b) => format!("ok {}", b as u8),
                        Err(_) => "panic".into(),
                    }
                ));
            }
        }
    }
}
