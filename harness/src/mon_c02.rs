//! C02 monitor: one real Bank, many real Balances, random wrapper operations; after every successful
//! operation the bank totals must equal the sum over positions plus the (counted, non-negative) dust
//! abandoned by closures, and the per-operation deltas must match exactly.
use crate::fam_bank::{gen_bank, run_wrapper_op, Bal, ONE, WOPS};
use crate::mon::Report;
use crate::rng::Rng;

pub fn run(rng: &mut Rng, n: usize, rep: &mut Report) {
    let mut done = 0;
    while done < n {
        let mut now: i64 = 1_700_000_000 + rng.range(0, 1_000_000);
        let mut bank = gen_bank(rng);
        // start from an empty, unlimited, consistent bank
        bank.sa = 0;
        bank.sl = 0;
        bank.deposit_limit = u64::MAX;
        bank.borrow_limit = u64::MAX;
        bank.lend_cnt = 0;
        bank.borrow_cnt = 0;
        if bank.mint_decimals >= 24 {
            bank.mint_decimals = 6;
        }
        let k = 2 + rng.below(5) as usize;
        let mut bals: Vec<Bal> = (0..k).map(|_| Bal { active: 1, tag: bank.asset_tag, a: 0, l: 0, emis: 0, last_update: now as u64 }).collect();
        let (mut dust_a, mut dust_l): (i128, i128) = (0, 0);
        let mut hist: Vec<String> = vec![];
        let len = 5 + rng.below(40);
        for _ in 0..len {
            now += rng.range(0, 100);
            let i = rng.below(k as u64) as usize;
            let op = *rng.pick(&WOPS);
            let x = &bals[i];
            let amount: i128 = match rng.below(6) {
                0 => ((x.a >> 24) * (bank.asv >> 24)) + rng.range(-2, 2) as i128,
                1 => ((x.l >> 24) * (bank.lsv >> 24)) + rng.range(-2, 2) as i128,
                2 => (rng.below(1_000_000) as i128 + 1) * ONE,
                3 => rng.below(ONE as u64 * 3) as i128,
                4 => (rng.below(1_000_000_000_000) as i128) * ONE,
                _ => (rng.below(100) as i128 + 1) * ONE,
            }
            .max(0);
            let (o, post) = run_wrapper_op(op, &bank, x, now, amount);
            done += 1;
            rep.bump("cases");
            hist.push(format!("{}[{}] {} -> {}", op, i, amount, o.split(' ').next().unwrap_or("")));
            let Some((nb, nx)) = post else { continue };
            rep.bump(&format!("ok_{}", op));
            // per-operation delta equality / dust accounting
            let (da, dl) = (nb.sa - bank.sa, nb.sl - bank.sl);
            let (xa, xl) = (nx.a - x.a, nx.l - x.l);
            match op {
                "w.wdall" => {
                    if da != xa || dl != 0 {
                        rep.fail(format!("withdraw_all deltas bank({},{}) position({},{}); hist {:?}", da, dl, xa, xl, hist));
                    }
                    dust_l += x.l;
                }
                "w.repall" => {
                    if dl != xl || da != 0 {
                        rep.fail(format!("repay_all deltas bank({},{}) position({},{}); hist {:?}", da, dl, xa, xl, hist));
                    }
                    dust_a += x.a;
                }
                "w.close" => {
                    if da != 0 || dl != 0 {
                        rep.fail(format!("close_balance changed bank totals; hist {:?}", hist));
                    }
                    // the abandoned remainder must be dust: worth less than ZERO_AMOUNT_THRESHOLD (0.0001 native units)
                    let thr: i128 = fixed::types::I80F48::from_num(0.0001).to_bits();
                    let va = (num_bigint::BigInt::from(x.a) * num_bigint::BigInt::from(bank.asv)) >> 48u32;
                    let vl = (num_bigint::BigInt::from(x.l) * num_bigint::BigInt::from(bank.lsv)) >> 48u32;
                    if va >= num_bigint::BigInt::from(thr) || vl >= num_bigint::BigInt::from(thr) {
                        rep.fail(format!("close_balance abandoned more than dust: asset value bits {} liability value bits {} (threshold {}); shares a={} l={}; hist {:?}", va, vl, thr, x.a, x.l, hist));
                    }
                    dust_a += x.a;
                    dust_l += x.l;
                }
                _ => {
                    if da != xa || dl != xl {
                        rep.fail(format!("{} changed bank totals by ({},{}) but the position by ({},{}); hist {:?}", op, da, dl, xa, xl, hist));
                    }
                }
            }
            bank = nb;
            bals[i] = if nx.active == 0 { Bal { active: 1, tag: bank.asset_tag, a: 0, l: 0, emis: 0, last_update: now as u64 } } else { nx };
            // global sums
            let sum_a: i128 = bals.iter().map(|b| b.a).sum();
            let sum_l: i128 = bals.iter().map(|b| b.l).sum();
            if bank.sa != sum_a + dust_a || bank.sl != sum_l + dust_l || dust_a < 0 || dust_l < 0 {
                rep.fail(format!(
                    "ledger mismatch: bank totals ({},{}) vs positions ({},{}) + dust ({},{}); hist {:?}",
                    bank.sa, bank.sl, sum_a, sum_l, dust_a, dust_l, hist
                ));
            }
            if bals.iter().any(|b| b.a < 0 || b.l < 0) {
                rep.fail(format!("negative shares; hist {:?}", hist));
            }
        }
        // ---- directed: residues right around the 0.0001-unit tolerance (80 % .. 140 % of it) on the side that a closure
        //      abandons: close_balance (either side), withdraw_all (debt residue), repay_all (deposit residue)
        for _ in 0..6 {
            let thr: i128 = fixed::types::I80F48::from_num(0.0001).to_bits();
            let target = thr * (80 + rng.below(61) as i128) / 100;
            let which = rng.below(3);
            let mut x = Bal { active: 1, tag: bank.asset_tag, a: 0, l: 0, emis: 0, last_update: now as u64 };
            let sh = |v: i128, sv: i128| -> i128 { ((num_bigint::BigInt::from(v) << 48u32) / num_bigint::BigInt::from(sv.max(1))).to_string().parse::<i128>().unwrap_or(0) };
            let op = match which {
                0 => {
                    if rng.chance(1, 2) { x.a = sh(target, bank.asv) } else { x.l = sh(target, bank.lsv) }
                    "w.close"
                }
                1 => {
                    x.a = (1 + rng.below(1000) as i128) * ONE;
                    x.l = sh(target, bank.lsv);
                    "w.wdall"
                }
                _ => {
                    x.l = (1 + rng.below(1000) as i128) * ONE;
                    x.a = sh(target, bank.asv);
                    "w.repall"
                }
            };
            let mut b2 = bank.clone();
            b2.sa += x.a;
            b2.sl += x.l;
            let (_, post) = run_wrapper_op(op, &b2, &x, now, 0);
            rep.bump("threshold_window_cases");
            if post.is_some() {
                rep.bump("threshold_window_closed");
                let va = (num_bigint::BigInt::from(x.a) * num_bigint::BigInt::from(b2.asv)) >> 48u32;
                let vl = (num_bigint::BigInt::from(x.l) * num_bigint::BigInt::from(b2.lsv)) >> 48u32;
                let (ra, rl) = match op { "w.close" => (va, vl), "w.wdall" => (num_bigint::BigInt::from(0), vl), _ => (va, num_bigint::BigInt::from(0)) };
                if ra >= num_bigint::BigInt::from(thr) || rl >= num_bigint::BigInt::from(thr) {
                    rep.fail(format!("{} abandoned more than dust: residue worth {} / {} bits (0.0001 unit = {} bits); bank [{}] position [{}]", op, ra, rl, thr, b2.line(), x.line()));
                }
            }
        }
        rep.sample(format!("{:?}", hist));
        rep.bump("histories");
    }
}
