//! family `signer`: the real is_signer_authorized / account_not_frozen_for_authority.
use crate::rng::Rng;
use anchor_lang::prelude::Pubkey;
use marginfi::state::marginfi_account::{account_not_frozen_for_authority, is_signer_authorized};
use marginfi_type_crate::types::{MarginfiAccount, ACCOUNT_FROZEN, ACCOUNT_IN_RECEIVERSHIP};

fn key(n: u64) -> Pubkey {
    let mut b = [0u8; 32];
    b[..8].copy_from_slice(&n.to_le_bytes());
    Pubkey::new_from_array(b)
}

pub fn gen(rng: &mut Rng, n: usize, out: &mut Vec<String>) {
    for _ in 0..n {
        let authority = 1 + rng.below(3);
        let admin = 1 + rng.below(3);
        let signer = 1 + rng.below(3);
        let frozen = rng.chance(1, 2);
        let recv = rng.chance(1, 2);
        let allow = rng.chance(1, 2);
        let mut a: MarginfiAccount = bytemuck::Zeroable::zeroed();
        a.authority = key(authority);
        if frozen {
            a.account_flags |= ACCOUNT_FROZEN;
        }
        if recv {
            a.account_flags |= ACCOUNT_IN_RECEIVERSHIP;
        }
        let r1 = is_signer_authorized(&a, key(admin), key(signer), allow);
        let r2 = account_not_frozen_for_authority(&a, key(signer));
        out.push(format!(
            "auth.signer {} {} {} {} {} {} => {} {}",
            authority, frozen as u8, recv as u8, admin, signer, allow as u8, r1 as u8, r2 as u8
        ));
    }
}
