//! family `liq`: the amounts block of `lending_account_liquidate`, replayed with the REAL `calc_value` /
//! `calc_amount` and the real fee constants in the handler's order (the handler itself runs through real
//! dispatch in the LIQ monitor), plus the two functions on their own across their ranges.
use crate::rng::Rng;
use fixed::types::I80F48;
use marginfi::state::marginfi_account::{calc_amount, calc_value};
use marginfi_type_crate::constants::{LIQUIDATION_INSURANCE_FEE, LIQUIDATION_LIQUIDATOR_FEE};
use std::panic::{catch_unwind, AssertUnwindSafe};

const ONE: i128 = 1 << 48;

fn code(e: anchor_lang::error::Error) -> String {
    match e {
        anchor_lang::error::Error::AnchorError(a) => format!("err {}", a.error_code_number),
        anchor_lang::error::Error::ProgramError(_) => "err 1".to_string(),
    }
}

pub fn gen_price_bits(rng: &mut Rng) -> i128 {
    match rng.below(8) {
        0 => 1,
        1 => rng.below(ONE as u64) as i128,
        2 => ONE,
        3 => (1 + rng.below(1000) as i128) * ONE + rng.below(ONE as u64) as i128,
        4 => (1 + rng.below(200_000) as i128) * ONE,
        5 => rng.below(1u64 << 60) as i128,
        6 => 0,
        _ => (rng.below(1_000_000) as i128) * ONE / 1000 + 1,
    }
}

pub fn gen(rng: &mut Rng, n: usize, out: &mut Vec<String>) {
    for i in 0..n {
        if std::env::var("LIQ_DBG").is_ok() { eprintln!("i={}", i); }
        match i % 4 {
            0 | 1 => {
                let amt: u64 = match rng.below(6) { 0 => 1, 1 => rng.below(1000) + 1, 2 => rng.u64_mixed(), 3 => 1_000_000 * (1 + rng.below(1_000_000)), 4 => u64::MAX, _ => rng.below(1u64 << 50) };
                let (ap, lp) = (gen_price_bits(rng), gen_price_bits(rng));
                let (da, dl) = (rng.dec_wide(&[0u8, 2, 5, 6, 8, 9, 12, 23, 24], 1), rng.dec_wide(&[0u8, 2, 5, 6, 8, 9, 12, 23], 0));
                let r = catch_unwind(AssertUnwindSafe(|| -> Result<(i128, i128, u64, i128), anchor_lang::error::Error> {
                    let asset_amount = I80F48::from_num(amt);
                    let (asset_price, liab_price) = (I80F48::from_bits(ap), I80F48::from_bits(lp));
                    let final_discount: I80F48 = I80F48::ONE - (LIQUIDATION_INSURANCE_FEE + LIQUIDATION_LIQUIDATOR_FEE);
                    let liquidator_discount: I80F48 = I80F48::ONE - LIQUIDATION_LIQUIDATOR_FEE;
                    let liab_amount_liquidator = calc_amount(calc_value(asset_amount, asset_price, da, Some(liquidator_discount))?, liab_price, dl)?;
                    let liab_amount_final = calc_amount(calc_value(asset_amount, asset_price, da, Some(final_discount))?, liab_price, dl)?;
                    let insurance_fund_fee: I80F48 = liab_amount_liquidator - liab_amount_final;
                    assert!(insurance_fund_fee >= I80F48::ZERO, "Insurance fund fee cannot be negative");
                    let w = insurance_fund_fee.checked_to_num::<u64>().ok_or(marginfi::errors::MarginfiError::MathError)?;
                    Ok((liab_amount_liquidator.to_bits(), liab_amount_final.to_bits(), w, insurance_fund_fee.frac().to_bits()))
                }));
                let o = match r {
                    Err(_) => "panic".to_string(),
                    Ok(Ok((a, b, c, d))) => format!("ok {} {} {} {}", a, b, c, d),
                    Ok(Err(e)) => code(e),
                };
                out.push(format!("liq.amounts {} {} {} {} {} => {}", amt, ap, lp, da, dl, o));
            }
            2 => {
                let amount = match rng.below(4) { 0 => 0, 1 => rng.fx_bits().checked_abs().unwrap_or(i128::MAX), 2 => (rng.u64_mixed() as i128) * ONE, _ => rng.below(1u64 << 62) as i128 };
                let price = gen_price_bits(rng);
                let d = rng.dec_wide(&[0u8, 6, 9, 18, 23, 24, 30], 2);
                let w: i128 = match rng.below(4) { 0 => -1, 1 => ONE, 2 => rng.below(2 * ONE as u64) as i128, _ => rng.fx_bits().checked_abs().unwrap_or(i128::MAX) };
                let r = catch_unwind(AssertUnwindSafe(|| calc_value(I80F48::from_bits(amount), I80F48::from_bits(price), d, if w < 0 { None } else { Some(I80F48::from_bits(w)) })));
                let o = match r { Err(_) => "panic".to_string(), Ok(Ok(v)) => format!("ok {}", v.to_bits()), Ok(Err(e)) => code(e) };
                out.push(format!("liq.value {} {} {} {} => {}", amount, price, d, w, o));
            }
            _ => {
                let value = match rng.below(3) { 0 => 0, 1 => rng.fx_bits().checked_abs().unwrap_or(i128::MAX), _ => (rng.u64_mixed() as i128) * ONE };
                let price = gen_price_bits(rng);
                let d = rng.dec_wide(&[0u8, 6, 9, 18, 23, 24], 2);
                let r = catch_unwind(AssertUnwindSafe(|| calc_amount(I80F48::from_bits(value), I80F48::from_bits(price), d)));
                let o = match r { Err(_) => "panic".to_string(), Ok(Ok(v)) => format!("ok {}", v.to_bits()), Ok(Err(e)) => code(e) };
                out.push(format!("liq.amount {} {} {} => {}", value, price, d, o));
            }
        }
    }
}
