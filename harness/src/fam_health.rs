//! family `health`: the REAL risk engine through the real `lending_account_pulse_health` instruction on
//! generated portfolios (1..8 positions; banks with any weights / tier / operational state / e-mode / init
//! cap / share values; Fixed and Pyth-push oracles with confidence, EMA, exponent, staleness around the
//! boundary, wrong owner, wrong key, wrong discriminator, partial verification). The line carries every
//! input the valuation reads; the output is what the health cache recorded for the three requirement
//! types and the three verdicts (initial check, liquidation pre-condition, bankruptcy).
use crate::rng::Rng;
use crate::world::fixtures::bank_config_fixed;
use crate::world::{ix, TokenKind, World};
use anchor_lang::prelude::Pubkey;
use fixed::types::I80F48;
use marginfi_type_crate::types::{BankOperationalState, EmodeEntry, OracleSetup, RiskTier};

pub const ONE: i128 = 1 << 48;

fn bits(v: marginfi_type_crate::types::WrappedI80F48) -> i128 {
    I80F48::from(v).to_bits()
}

fn weight(rng: &mut Rng, lo: i128, hi: i128) -> i128 {
    match rng.below(6) {
        0 => lo,
        1 => hi,
        _ => lo + (rng.below(1_000_000) as i128) * (hi - lo) / 1_000_000,
    }
}

#[derive(Clone)]
pub struct PythSpec {
    pub key_ok: bool,
    pub owner_ok: bool,
    pub disc_ok: bool,
    pub full: bool,
    pub publish: i64,
    pub price: i64,
    pub conf: u64,
    pub ema: i64,
    pub ema_conf: u64,
    pub expo: i32,
}

pub struct SwbSpec {
    pub key_ok: bool,
    pub owner_ok: bool,
    pub last: i64,
    pub value: i128,
    pub std_dev: i128,
}

pub struct BankSpec {
    pub key: Pubkey,
    pub pyth: Option<PythSpec>,
    pub swb: Option<SwbSpec>,
    pub oracle_meta: Option<Pubkey>, // the account actually passed
}

pub fn gen_price(rng: &mut Rng) -> (i64, i32) {
    let expo = if rng.chance(3, 4) { *rng.pick(&[-8i32, -8, -6, -5, -9, -12, -2, 0, 1, -10]) } else { -(rng.below(24) as i32) + if rng.chance(1, 8) { 24 } else { 0 } };
    let p: i64 = match rng.below(8) {
        0 => 0,
        1 => 1,
        2 => rng.below(1000) as i64,
        3 => -(rng.below(1000) as i64) - 1,
        4 => (rng.below(1u64 << 40)) as i64,
        5 => 100_000_000 + rng.below(100_000_000_000) as i64,
        6 => (rng.next() >> 1) as i64,
        _ => 1_000_000 * (1 + rng.below(100_000) as i64),
    };
    (p, expo)
}

pub fn build_world(rng: &mut Rng) -> (World, Pubkey, Vec<BankSpec>, Pubkey) {
    crate::world::install_stubs();
    let mut w = World::new();
        // fresh keys are hashes of a counter: a random starting point makes the relative ORDER of the keys created below (banks,
        // accounts, vaults) differ from world to world — positions are kept sorted by bank key, and order-dependent code paths
        // would otherwise see the same order in every world
        w.key_counter = rng.below(1 << 40);
    let now = 1_700_000_000 + rng.range(0, 100_000_000);
    w.set_clock(now, 1000);
    let fee_admin = w.add_wallet(10_000_000_000);
    let fee_wallet = w.add_wallet(0);
    w.add_fee_state(fee_admin, fee_wallet, Default::default());
    let admin = w.add_wallet(10_000_000_000);
    let group = w.add_group(admin);
    let nb = 1 + rng.below(6) as usize;
    let mut specs = vec![];
    let spare_oracle = w.add_pyth_oracle(123_000_000, 1000, 123_000_000, 1000, -8, now);
    for _ in 0..nb {
        let dec = if rng.chance(2, 3) { *rng.pick(&[6u8, 9, 0, 2, 8, 5]) } else { rng.below(24) as u8 };
        let mint = w.add_mint(TokenKind::Spl, dec);
        let mut cfg = bank_config_fixed(I80F48::from_bits(match rng.below(6) {
            0 => 0,
            1 => 1,
            2 => ONE,
            3 => (rng.below(1_000_000) as i128) * ONE / 1000,
            4 => (rng.below(100_000) as i128 + 1) * ONE,
            _ => rng.below(ONE as u64 * 4) as i128,
        }));
        let a_init = weight(rng, 0, ONE);
        let a_maint = weight(rng, a_init, (2 * ONE).min(a_init + ONE / 2));
        let l_maint = weight(rng, ONE, 2 * ONE);
        let l_init = weight(rng, l_maint, l_maint + ONE);
        cfg.asset_weight_init = I80F48::from_bits(a_init).into();
        cfg.asset_weight_maint = I80F48::from_bits(a_maint).into();
        cfg.liability_weight_init = I80F48::from_bits(l_init).into();
        cfg.liability_weight_maint = I80F48::from_bits(l_maint).into();
        cfg.risk_tier = if rng.chance(1, 5) { RiskTier::Isolated } else { RiskTier::Collateral };
        // a sixth of the banks are Drift-backed: their balances are Drift's scaled balances, which always carry 9 decimals
        // whatever the mint's decimals are (valuation AND the collateral-value cap must use 9)
        let want_drift = rng.chance(1, 4);
        cfg.operational_state = if rng.chance(1, 6) { BankOperationalState::ReduceOnly } else { BankOperationalState::Operational };
        cfg.total_asset_value_init_limit = match rng.below(4) {
            0 => 1 + rng.below(1000),
            1 => 1_000_000 + rng.below(1_000_000_000),
            _ => 0,
        };
        cfg.oracle_max_confidence = match rng.below(4) {
            0 => 0,
            1 => u32::MAX,
            2 => rng.below(u32::MAX as u64 / 20) as u32,
            _ => (u32::MAX as u64 / 10 + rng.below(u32::MAX as u64 / 2)) as u32,
        };
        cfg.oracle_max_age = *rng.pick(&[0u16, 10, 30, 60, 600]);
        let mut pyth = None;
        let mut oracle_meta = None;
        if rng.chance(3, 5) {
            let (price, expo) = gen_price(rng);
            let ema = if rng.chance(1, 3) { price } else { ((price as i128) * (90 + rng.below(21) as i128) / 100) as i64 };
            let conf_of = |rng: &mut Rng, p: i64| -> u64 {
                let p = p.unsigned_abs();
                match rng.below(6) {
                    0 => 0,
                    1 => p / 1000,
                    2 => p / 50,
                    3 => p / 21 + rng.below(3),
                    4 => p / 9,
                    _ => rng.below(p.max(1)),
                }
            };
            let mut conf = conf_of(rng, price);
            let mut ema_conf = if rng.chance(1, 2) { conf } else { conf_of(rng, ema) };
            // strict banks (maximum confidence below the hard 5 % clamp): aim the 95 % band between the bank's maximum and 5 %
            let mc = cfg.oracle_max_confidence as u64;
            if mc > 0 && mc < u32::MAX as u64 / 20 && rng.chance(1, 2) {
                let lo = mc as f64 / u32::MAX as f64;
                let target = lo + (0.05 - lo) * (0.05 + 0.9 * (rng.below(1000) as f64) / 1000.0);
                conf = ((price.unsigned_abs() as f64) * target / 2.12) as u64;
                ema_conf = ((ema.unsigned_abs() as f64) * target / 2.12) as u64;
            }
            let age_cfg = if cfg.oracle_max_age == 0 { 60 } else { cfg.oracle_max_age as i64 };
            let publish = match rng.below(8) {
                0 => now - age_cfg,
                1 => now - age_cfg - 1,
                2 => now - age_cfg + 1,
                3 if rng.chance(1, 2) => now - (*rng.pick(&[1i64 << 16, 1 << 17, 1 << 32])) - rng.below(age_cfg as u64 + 2) as i64,
                3 => now - 10 * age_cfg,
                4 => now + 5,
                _ => now - rng.below(age_cfg as u64 + 1) as i64,
            };
            let oracle = w.add_pyth_oracle(price, conf, ema, ema_conf, expo, publish);
            let mut spec = PythSpec { key_ok: true, owner_ok: true, disc_ok: true, full: true, publish, price, conf, ema, ema_conf, expo };
            match rng.below(14) {
                0 => {
                    // owned by some other program
                    let mut a = w.get(&oracle).unwrap().clone();
                    a.owner = solana_program::system_program::ID;
                    w.accounts.insert(oracle, a);
                    spec.owner_ok = false;
                }
                1 => {
                    let mut a = w.get(&oracle).unwrap().clone();
                    a.data[0] ^= 0xff;
                    w.accounts.insert(oracle, a);
                    spec.disc_ok = false;
                }
                2 => {
                    // Partial verification: byte 8+32 is the enum tag (0 = Partial{num_signatures}, 1 = Full)
                    let mut a = w.get(&oracle).unwrap().clone();
                    let upd = w.pyth_price(&oracle);
                    let partial = pyth_solana_receiver_sdk::price_update::PriceUpdateV2 {
                        verification_level: pyth_solana_receiver_sdk::price_update::VerificationLevel::Partial { num_signatures: 5 },
                        ..upd
                    };
                    let mut data = Vec::new();
                    data.extend_from_slice(&a.data[..8]);
                    anchor_lang::AnchorSerialize::serialize(&partial, &mut data).unwrap();
                    a.data = data;
                    w.accounts.insert(oracle, a);
                    spec.full = false;
                }
                3 => {
                    spec.key_ok = false;
                }
                _ => {}
            }
            cfg.oracle_setup = OracleSetup::PythPushOracle;
            cfg.oracle_keys[0] = oracle;
            oracle_meta = Some(if spec.key_ok { oracle } else { spare_oracle });
            pyth = Some(spec);
        }
        // a fifth of the remaining banks are priced by a Switchboard pull feed (fresh, exactly at the bank's maximum age, one
        // second beyond it, long stale, from the future; now and then the wrong account or the wrong owner)
        let mut swb = None;
        if pyth.is_none() && rng.chance(1, 2) {
            let value: i128 = match rng.below(6) {
                0 => 0,
                1 => (rng.below(1_000_000) as i128) * 1_000_000_000_000,
                2 | 3 => (rng.below(100_000) as i128 + 1) * 1_000_000_000_000_000_000,
                4 => (rng.below(2_000_000) as i128 + 1) * 1_000_000_000_000_000_000,
                _ => (rng.below(1_000_000_000) as i128) * 1_000_000_000,
            };
            let a = value.unsigned_abs();
            let std_dev: i128 = match rng.below(6) {
                0 => 0,
                1 => (a / 1000) as i128,
                2 => (a / 50) as i128,
                3 => (a / 42) as i128 + rng.range(-2, 2) as i128,
                4 => (a / 9) as i128,
                _ => (rng.u128() >> 64) as i128 % (a.max(1) as i128),
            };
            let age_cfg = cfg.oracle_max_age as i64;
            let last = match rng.below(8) {
                0 | 1 => now - age_cfg,
                2 => now - age_cfg - 1,
                3 if rng.chance(1, 2) => now - (*rng.pick(&[1i64 << 16, 1 << 17, 1 << 32])) - rng.below(age_cfg as u64 + 2) as i64,
                3 => now - 100 * age_cfg.max(1),
                4 => now + 3,
                _ => now - rng.below(age_cfg as u64 + 1) as i64,
            };
            let key_ok = !rng.chance(1, 14);
            let owner_ok = !rng.chance(1, 14);
            let mut feed: switchboard_on_demand::PullFeedAccountData = bytemuck::Zeroable::zeroed();
            feed.result.value = value;
            feed.result.std_dev = std_dev;
            feed.last_update_timestamp = last;
            let mut data = Vec::new();
            data.extend_from_slice(&<switchboard_on_demand::PullFeedAccountData as switchboard_on_demand::Discriminator>::DISCRIMINATOR);
            data.extend_from_slice(bytemuck::bytes_of(&feed));
            let oracle = w.new_key();
            w.put(oracle, if owner_ok { marginfi::constants::SWITCHBOARD_PULL_ID } else { solana_program::system_program::ID }, data);
            cfg.oracle_setup = OracleSetup::SwitchboardPull;
            cfg.oracle_keys[0] = oracle;
            oracle_meta = Some(if key_ok { oracle } else { spare_oracle });
            swb = Some(SwbSpec { key_ok, owner_ok, last, value, std_dev });
        }
        // (only fixed-price banks: a Drift bank with a live oracle also needs its spot-market account in the risk accounts)
        if want_drift && pyth.is_none() && swb.is_none() {
            cfg.asset_tag = marginfi_type_crate::constants::ASSET_TAG_DRIFT;
        }
        let h = w.add_bank(group, mint, cfg);
        let mut b = w.bank(&h.bank);
        b.asset_share_value = I80F48::from_bits(ONE + match rng.below(3) { 0 => 0, 1 => rng.below(ONE as u64) as i128, _ => rng.below(1000) as i128 }).into();
        b.liability_share_value = I80F48::from_bits(ONE + match rng.below(3) { 0 => 0, 1 => rng.below(ONE as u64) as i128, _ => rng.below(1000) as i128 }).into();
        b.total_asset_shares = I80F48::from_bits((rng.below(1_000_000_000_000) as i128) * ONE).into();
        // e-mode
        b.emode.emode_tag = *rng.pick(&[0u16, 0, 1, 2, 3]);
        if rng.chance(1, 2) {
            let n = 1 + rng.below(3) as usize;
            let mut tags: Vec<u16> = vec![1, 2, 3];
            for i in 0..n {
                let t = tags.remove(rng.below(tags.len() as u64) as usize);
                let wi = weight(rng, 0, ONE);
                let wm = weight(rng, wi, ONE + ONE / 2);
                b.emode.emode_config.entries[i] = EmodeEntry {
                    collateral_bank_emode_tag: t,
                    flags: rng.below(2) as u8,
                    pad0: [0; 5],
                    asset_weight_init: I80F48::from_bits(wi).into(),
                    asset_weight_maint: I80F48::from_bits(wm).into(),
                };
            }
        }
        // EMODE_ON is maintained by the program: set exactly when at least one entry is configured
        if b.emode.emode_config.entries.iter().any(|e| e.collateral_bank_emode_tag != 0) {
            b.emode.flags |= marginfi_type_crate::types::EMODE_ON;
        } else {
            b.emode.flags &= !marginfi_type_crate::types::EMODE_ON;
        }
        w.set_bank(&h.bank, &b);
        specs.push(BankSpec { key: h.bank, pyth, swb, oracle_meta });
    }
    let wallet = w.add_wallet(1_000_000_000);
    let acct = w.add_marginfi_account(group, wallet);
    (w, acct, specs, group)
}

pub fn gen_shares(rng: &mut Rng) -> i128 {
    match rng.below(8) {
        0 => 0,
        1 => rng.below(ONE as u64) as i128,              // below one native unit: counts as empty
        2 => ONE,
        3 => ONE - 1,
        4 => (1 + rng.below(1_000_000) as i128) * ONE,
        5 => (1 + rng.below(1_000_000_000_000) as i128) * ONE + rng.below(ONE as u64) as i128,
        6 => (rng.below(1u64 << 50) as i128) * ONE,
        _ => (1_000_000 + rng.below(1_000_000_000) as i128) * ONE,
    }
}

pub fn describe(w: &World, acct: &Pubkey, specs: &[BankSpec]) -> String {
    let a = w.marginfi_account(acct);
    let mut parts: Vec<String> = vec![w.clock_ts.to_string()];
    let active: Vec<_> = a.lending_account.balances.iter().filter(|b| b.is_active()).collect();
    parts.push(active.len().to_string());
    for bal in active {
        let spec = specs.iter().find(|s| s.key == bal.bank_pk).unwrap();
        let b = w.bank(&bal.bank_pk);
        let entries: Vec<_> = b.emode.emode_config.entries.iter().filter(|e| e.collateral_bank_emode_tag != 0).collect();
        parts.push(format!(
            "{} {} {} {} {} {} {} {} {} {} {} {} {} {} {}",
            bits(b.asset_share_value),
            bits(b.liability_share_value),
            bits(b.total_asset_shares),
            if b.config.asset_tag == marginfi_type_crate::constants::ASSET_TAG_DRIFT { 9 } else { b.mint_decimals },
            bits(b.config.asset_weight_init),
            bits(b.config.asset_weight_maint),
            bits(b.config.liability_weight_init),
            bits(b.config.liability_weight_maint),
            if b.config.risk_tier == RiskTier::Isolated { 1 } else { 0 },
            if b.config.operational_state == BankOperationalState::ReduceOnly { 1 } else { 0 },
            b.emode.emode_tag,
            b.config.total_asset_value_init_limit,
            b.config.oracle_max_confidence,
            b.config.oracle_max_age,
            entries.len()
        ));
        for e in entries {
            parts.push(format!("{} {} {} {}", e.collateral_bank_emode_tag, e.flags, bits(e.asset_weight_init), bits(e.asset_weight_maint)));
        }
        parts.push(format!("{} {}", bits(bal.asset_shares), bits(bal.liability_shares)));
        match (&spec.pyth, &spec.swb) {
            (None, Some(sw)) => parts.push(format!("2 {} {} {} {} {}", sw.key_ok as u8, sw.owner_ok as u8, sw.last, sw.value, sw.std_dev)),
            (None, None) => parts.push(format!("0 {}", bits(b.config.fixed_price))),
            (Some(p), _) => parts.push(format!(
                "1 {} {} {} {} {} {} {} {} {} {}",
                p.key_ok as u8, p.owner_ok as u8, p.disc_ok as u8, p.full as u8, p.publish, p.price, p.conf, p.ema, p.ema_conf, p.expo
            )),
        }
    }
    parts.join(" ")
}

pub fn risk_metas(w: &World, acct: &Pubkey, specs: &[BankSpec]) -> Vec<solana_program::instruction::AccountMeta> {
    use solana_program::instruction::AccountMeta;
    let a = w.marginfi_account(acct);
    let mut v = vec![];
    for bal in a.lending_account.balances.iter().filter(|b| b.is_active()) {
        let spec = specs.iter().find(|s| s.key == bal.bank_pk).unwrap();
        v.push(AccountMeta::new_readonly(bal.bank_pk, false));
        if let Some(o) = spec.oracle_meta {
            v.push(AccountMeta::new_readonly(o, false));
        }
    }
    v
}

pub fn pulse_line(w: &World, acct: &Pubkey, specs: &[BankSpec]) -> String {
    let mut c = w.clone();
    let r = c.exec(&ix::pulse_health(*acct, risk_metas(w, acct, specs)));
    match r {
        Err(_) => "abort".to_string(),
        Ok(()) => {
            let h = c.marginfi_account(acct).health_cache;
            format!(
                "ok {} {} {} {} {} {} {} {} {} {} {} {}",
                bits(h.asset_value), bits(h.liability_value), bits(h.asset_value_maint), bits(h.liability_value_maint),
                bits(h.asset_value_equity), bits(h.liability_value_equity), h.mrgn_err, h.internal_liq_err, h.internal_bankruptcy_err,
                h.internal_err, h.err_index, h.flags
            )
        }
    }
}

pub fn fill_positions(w: &mut World, acct: &Pubkey, specs: &[BankSpec], rng: &mut Rng) {
    let mut a = w.marginfi_account(acct);
    let mut order: Vec<usize> = (0..specs.len()).collect();
    // random subset in random order
    for i in (1..order.len()).rev() {
        let j = rng.below(i as u64 + 1) as usize;
        order.swap(i, j);
    }
    let k = 1 + rng.below(order.len() as u64) as usize;
    for (slot, bi) in order.iter().take(k).enumerate() {
        let bal = &mut a.lending_account.balances[slot];
        bal.active = 1;
        bal.bank_pk = specs[*bi].key;
        let (sa, sl) = match rng.below(10) {
            0..=4 => (gen_shares(rng), 0),
            5..=7 => (0, gen_shares(rng)),
            8 => (gen_shares(rng), rng.below(ONE as u64) as i128),
            _ => (rng.below(ONE as u64) as i128, gen_shares(rng)),
        };
        bal.asset_shares = I80F48::from_bits(sa).into();
        bal.liability_shares = I80F48::from_bits(sl).into();
    }
    w.set_marginfi_account(acct, &a);
}

pub fn gen(rng: &mut Rng, n: usize, out: &mut Vec<String>) {
    let mut produced = 0;
    while produced < n {
        let (mut w, acct, mut specs, group) = build_world(rng);
        // a quarter of the worlds: one bank's e-mode settings are cloned onto another through the REAL lending_pool_clone_emode
        // (what the engine then makes of the destination's entries is compared with the exact evaluation like everything else)
        if specs.len() >= 2 && rng.chance(1, 4) {
            use anchor_lang::{InstructionData, ToAccountMetas};
            let admin = w.group(&group).admin;
            let from = specs[rng.below(specs.len() as u64) as usize].key;
            let to = specs[rng.below(specs.len() as u64) as usize].key;
            if from != to {
                let ixn = solana_program::instruction::Instruction {
                    program_id: marginfi::ID,
                    accounts: marginfi::accounts::LendingPoolCloneEmode { group, signer: admin, copy_from_bank: from, copy_to_bank: to }.to_account_metas(None),
                    data: marginfi::instruction::LendingPoolCloneEmode {}.data(),
                };
                let r = w.exec(&ixn);
                if std::env::var_os("MFI_DBG").is_some() { eprintln!("clone_emode -> {:?}", r.as_ref().map_err(|e| e.to_string())); }
                // directed portfolio on the cloned settings: collateral in a bank that carries the tag of one of the copied
                // entries, debt ONLY in the destination bank — the one portfolio whose value depends on the destination's entries
                let dst = w.bank(&to);
                if let (Ok(()), Some(e)) = (&r, dst.emode.emode_config.entries.iter().find(|e| e.collateral_bank_emode_tag != 0).cloned()) {
                    if let Some(coll) = specs.iter().map(|s| s.key).find(|k| *k != to) {
                        let mut cb = w.bank(&coll);
                        cb.emode.emode_tag = e.collateral_bank_emode_tag;
                        w.set_bank(&coll, &cb);
                        let mut a = w.marginfi_account(&acct);
                        for b in a.lending_account.balances.iter_mut() { *b = bytemuck::Zeroable::zeroed(); }
                        let mut keys = [coll, to];
                        keys.sort_by(|x, y| y.cmp(x));
                        for (slot, k) in keys.iter().enumerate() {
                            let bal = &mut a.lending_account.balances[slot];
                            bal.active = 1;
                            bal.bank_pk = *k;
                            if *k == coll { bal.asset_shares = I80F48::from_bits(gen_shares(rng).max(ONE)).into(); } else { bal.liability_shares = I80F48::from_bits(gen_shares(rng).max(ONE)).into(); }
                        }
                        w.set_marginfi_account(&acct, &a);
                        let line = describe(&w, &acct, &specs);
                        let o = pulse_line(&w, &acct, &specs);
                        out.push(format!("risk.pulse {} => {}", line, o));
                        produced += 1;
                    }
                }
            }
        }
        // directed e-mode portfolio (a third of the worlds with three banks or more): collateral in a bank carrying tag t, one debt in
        // a bank whose e-mode configuration boosts t, a SECOND debt in a bank that has no entry at all / no entry for t / a lower
        // entry for t — the portfolios on which the reconciliation of several borrowing banks' configurations decides the value
        if specs.len() >= 3 && rng.chance(1, 3) {
            let mut idx: Vec<usize> = (0..specs.len()).collect();
            for i in (1..idx.len()).rev() { let j = rng.below(i as u64 + 1) as usize; idx.swap(i, j); }
            let (c, d1, d2) = (specs[idx[0]].key, specs[idx[1]].key, specs[idx[2]].key);
            // (two times out of three the three banks get plain fixed prices, so that the valuation is not cut short by one of
            // the many broken oracles of these worlds)
            if rng.chance(2, 3) {
                for j in 0..3 {
                    let k = specs[idx[j]].key;
                    let mut b = w.bank(&k);
                    b.config.oracle_setup = OracleSetup::Fixed;
                    b.config.fixed_price = I80F48::from_bits(ONE / 100 + rng.below(ONE as u64 * 50) as i128).into();
                    if b.config.asset_tag == marginfi_type_crate::constants::ASSET_TAG_DRIFT { b.config.asset_tag = marginfi_type_crate::constants::ASSET_TAG_DEFAULT; }
                    w.set_bank(&k, &b);
                    specs[idx[j]].pyth = None;
                    specs[idx[j]].swb = None;
                    specs[idx[j]].oracle_meta = None;
                }
            }
            let full = rng.chance(1, 4);
            let t: u16 = if full { 10 + rng.below(20) as u16 } else { 1 + rng.below(3) as u16 };
            let mut cb = w.bank(&c);
            cb.emode.emode_tag = t;
            cb.config.risk_tier = RiskTier::Collateral;
            cb.config.operational_state = BankOperationalState::Operational;
            let (bi, bm) = (bits(cb.config.asset_weight_init), bits(cb.config.asset_weight_maint));
            w.set_bank(&c, &cb);
            let entry = |wi: i128, wm: i128| EmodeEntry { collateral_bank_emode_tag: t, flags: 0, pad0: [0; 5], asset_weight_init: I80F48::from_bits(wi).into(), asset_weight_maint: I80F48::from_bits(wm).into() };
            let hi_i = (bi + (ONE - bi) / 2).min(ONE);
            let hi_m = hi_i.max(bm) + (ONE / 20);
            // one directed world in four: FULL tables — both debt banks carry all ten entries with the same ten tags (t among them,
            // often the largest or the smallest): the reconciled configuration then needs every one of its ten slots
            let base: u16 = if full { match rng.below(3) { 0 => t.saturating_sub(9).max(1), 1 => t, _ => t.saturating_sub(rng.below(10) as u16).max(1) } } else { 0 };
            for (k, which) in [(d1, 0u64), (d2, if full { 0 } else { 1 + rng.below(3) })] {
                let mut b = w.bank(&k);
                b.config.risk_tier = RiskTier::Collateral;
                for e in b.emode.emode_config.entries.iter_mut() { *e = bytemuck::Zeroable::zeroed(); }
                if full {
                    for j in 0..10u16 {
                        let tag = base + j;
                        b.emode.emode_config.entries[j as usize] = if tag == t { entry(hi_i, hi_m) } else { EmodeEntry { collateral_bank_emode_tag: tag, ..entry(ONE / 2, ONE * 6 / 10) } };
                    }
                    b.emode.flags |= marginfi_type_crate::types::EMODE_ON;
                    w.set_bank(&k, &b);
                    continue;
                }
                match which {
                    0 => b.emode.emode_config.entries[9] = entry(hi_i, hi_m),                       // boosts t
                    1 => {}                                                                           // no entry at all
                    2 => b.emode.emode_config.entries[9] = EmodeEntry { collateral_bank_emode_tag: t % 3 + 1, ..entry(hi_i, hi_m) }, // another tag only
                    _ => b.emode.emode_config.entries[9] = entry((bi + hi_i) / 2, (bm + hi_m) / 2),  // a lower boost for t
                }
                if b.emode.emode_config.entries.iter().any(|e| e.collateral_bank_emode_tag != 0) { b.emode.flags |= marginfi_type_crate::types::EMODE_ON; } else { b.emode.flags &= !marginfi_type_crate::types::EMODE_ON; }
                w.set_bank(&k, &b);
            }
            let mut a = w.marginfi_account(&acct);
            for b in a.lending_account.balances.iter_mut() { *b = bytemuck::Zeroable::zeroed(); }
            let mut keys = [c, d1, d2];
            keys.sort_by(|x, y| y.cmp(x));
            for (slot, k) in keys.iter().enumerate() {
                let bal = &mut a.lending_account.balances[slot];
                bal.active = 1;
                bal.bank_pk = *k;
                if *k == c { bal.asset_shares = I80F48::from_bits(gen_shares(rng).max(ONE * 1000)).into(); } else { bal.liability_shares = I80F48::from_bits(gen_shares(rng).max(ONE)).into(); }
            }
            w.set_marginfi_account(&acct, &a);
            let line = describe(&w, &acct, &specs);
            let o = pulse_line(&w, &acct, &specs);
            if std::env::var_os("MFI_DBG").is_some() { eprintln!("directed emode: d2<d1 {} entries d1 {} d2 {} flags {} {} => {}", d2 < d1, w.bank(&d1).emode.emode_config.entries.iter().filter(|e| e.collateral_bank_emode_tag != 0).count(), w.bank(&d2).emode.emode_config.entries.iter().filter(|e| e.collateral_bank_emode_tag != 0).count(), w.bank(&d1).emode.flags, w.bank(&d2).emode.flags, &o[..o.len().min(60)]); }
            out.push(format!("risk.pulse {} => {}", line, o));
            produced += 1;
            // ... and the same at a critical debt level
            let nums: Vec<i128> = o.split(' ').skip(1).filter_map(|t| t.parse().ok()).collect();
            for (ai, li) in [(0usize, 1usize), (2, 3)] {
              if o.starts_with("ok") && nums.len() >= 12 && nums[ai] > 0 && nums[li] > 0 {
                for (fnum, fden) in [(98i128, 100i128), (102, 100)] {
                    let mut w2 = w.clone();
                    let mut a2 = w2.marginfi_account(&acct);
                    for bal in a2.lending_account.balances.iter_mut().filter(|b| b.is_active()) {
                        let l0 = bits(bal.liability_shares);
                        if l0 > 0 {
                            let scaled = num_bigint::BigInt::from(l0) * num_bigint::BigInt::from(nums[ai]) * num_bigint::BigInt::from(fnum) / (num_bigint::BigInt::from(nums[li]) * num_bigint::BigInt::from(fden));
                            if let Ok(v) = i128::try_from(scaled) { if v > 0 && v < (1i128 << 100) { bal.liability_shares = I80F48::from_bits(v).into(); } }
                        }
                    }
                    w2.set_marginfi_account(&acct, &a2);
                    let line2 = describe(&w2, &acct, &specs);
                    let o2 = pulse_line(&w2, &acct, &specs);
                    out.push(format!("risk.pulse {} => {}", line2, o2));
                    produced += 1;
                    // the liquidation conditions on the same critical portfolio (pre-health placed around the current one)
                    if o2.starts_with("ok") {
                        let n0 = out.len();
                        cond_lines(&w2, &acct, &specs, &line2, &o2, rng, out);
                        produced += out.len() - n0;
                    }
                }
              }
            }
        }
        // directed: an account that is EXACTLY solvent in equity terms (a quarter of the worlds with two banks or more): a deposit and
        // a debt worth five cents each, to the bit, in two banks priced at a fixed $1 with share values of one — and one bit to either
        // side of it. The bankruptcy assessment must refuse the equal case (assets < liabilities is strict).
        if specs.len() >= 2 && rng.chance(1, 4) {
            let mut idx: Vec<usize> = (0..specs.len()).collect();
            for i in (1..idx.len()).rev() { let j = rng.below(i as u64 + 1) as usize; idx.swap(i, j); }
            let (c, d) = (specs[idx[0]].key, specs[idx[1]].key);
            let mut ok = true;
            for j in 0..2 {
                let k = specs[idx[j]].key;
                let mut b = w.bank(&k);
                if b.mint_decimals < 2 || b.mint_decimals > 18 { ok = false; }
                b.config.oracle_setup = OracleSetup::Fixed;
                b.config.fixed_price = I80F48::from_bits(ONE).into();
                b.config.risk_tier = RiskTier::Collateral;
                b.config.operational_state = BankOperationalState::Operational;
                b.asset_share_value = I80F48::from_bits(ONE).into();
                b.liability_share_value = I80F48::from_bits(ONE).into();
                if b.config.asset_tag == marginfi_type_crate::constants::ASSET_TAG_DRIFT { b.config.asset_tag = marginfi_type_crate::constants::ASSET_TAG_DEFAULT; }
                w.set_bank(&k, &b);
                specs[idx[j]].pyth = None;
                specs[idx[j]].swb = None;
                specs[idx[j]].oracle_meta = None;
            }
            if ok {
                let five_cents = |dec: u8| -> i128 { (5i128 * 10i128.pow(dec as u32 - 2)) << 48 };
                let (sa, sl) = (five_cents(w.bank(&c).mint_decimals), five_cents(w.bank(&d).mint_decimals));
                for (da, dl) in [(0i128, 0i128), (-1, 0), (1, 0), (0, 1)] {
                    let mut a = w.marginfi_account(&acct);
                    for b in a.lending_account.balances.iter_mut() { *b = bytemuck::Zeroable::zeroed(); }
                    let mut keys = [c, d];
                    keys.sort_by(|x, y| y.cmp(x));
                    for (slot, k) in keys.iter().enumerate() {
                        let bal = &mut a.lending_account.balances[slot];
                        bal.active = 1;
                        bal.bank_pk = *k;
                        if *k == c { bal.asset_shares = I80F48::from_bits(sa + da).into(); } else { bal.liability_shares = I80F48::from_bits(sl + dl).into(); }
                    }
                    w.set_marginfi_account(&acct, &a);
                    let line = describe(&w, &acct, &specs);
                    let o = pulse_line(&w, &acct, &specs);
                    out.push(format!("risk.pulse {} => {}", line, o));
                    produced += 1;
                }
            }
        }
        for _ in 0..4 {
            // fresh positions on the same banks
            let mut a = w.marginfi_account(&acct);
            for b in a.lending_account.balances.iter_mut() {
                *b = bytemuck::Zeroable::zeroed();
            }
            w.set_marginfi_account(&acct, &a);
            fill_positions(&mut w, &acct, &specs, rng);
            let line = describe(&w, &acct, &specs);
            let o = pulse_line(&w, &acct, &specs);
            out.push(format!("risk.pulse {} => {}", line, o));
            produced += 1;
            // critical debt level: the same collateral with the debts re-scaled so that the weighted debt lands a little below /
            // above the weighted assets the ENGINE reports (initial or maintenance): the portfolios on which a valuation that
            // is off by a few per cent flips the gate's or the liquidation test's verdict. The verdict itself is judged by the
            // model as for every other line.
            if o.starts_with("ok") && rng.chance(1, 2) {
                let nums: Vec<i128> = o.split(' ').skip(1).filter_map(|t| t.parse().ok()).collect();
                if nums.len() >= 12 {
                    let maint = rng.chance(1, 3);
                    let (av, lv) = if maint { (nums[2], nums[3]) } else { (nums[0], nums[1]) };
                    if av > 0 && lv > 0 {
                        let (fnum, fden): (i128, i128) = *rng.pick(&[(97, 100), (995, 1000), (1005, 1000), (103, 100), (90, 100), (110, 100)]);
                        let mut w2 = w.clone();
                        let mut a2 = w2.marginfi_account(&acct);
                        for bal in a2.lending_account.balances.iter_mut().filter(|b| b.is_active()) {
                            let l0 = bits(bal.liability_shares);
                            if l0 > 0 {
                                let scaled = num_bigint::BigInt::from(l0) * num_bigint::BigInt::from(av) * num_bigint::BigInt::from(fnum) / (num_bigint::BigInt::from(lv) * num_bigint::BigInt::from(fden));
                                if let Ok(v) = i128::try_from(scaled) {
                                    if v > 0 && v < (1i128 << 100) { bal.liability_shares = I80F48::from_bits(v).into(); }
                                }
                            }
                        }
                        w2.set_marginfi_account(&acct, &a2);
                        let line2 = describe(&w2, &acct, &specs);
                        let o2 = pulse_line(&w2, &acct, &specs);
                        out.push(format!("risk.pulse {} => {}", line2, o2));
                        produced += 1;
                    }
                }
            }
            if o.starts_with("ok") && rng.chance(1, 3) {
                if let Some(l) = start_line(&w, &acct, &specs, group, &line, rng) {
                    out.push(l);
                    produced += 1;
                }
            }
            if o.starts_with("ok") && rng.chance(1, 2) {
                let n0 = out.len();
                cond_lines(&w, &acct, &specs, &line, &o, rng, out);
                produced += out.len() - n0;
            }
            if o.starts_with("ok") && rng.chance(1, 2) {
                if let Some(l) = end_line(&w, &acct, &specs, group, &line, &o, rng) {
                    out.push(l);
                    produced += 1;
                }
            }
        }
    }
}


/// `risk.endliq <pre maint assets> <pre maint liabs> <pre equity assets> <pre equity liabs> <fee-state max fee> <portfolio>` and
/// `risk.enddelev <pre x4> <portfolio>`: the REAL end_liquidation / end_deleverage through real dispatch on an account that is
/// put into receivership by state edit, with a start-of-bracket snapshot chosen AROUND the current valuation (health equal,
/// one bit better / worse, premium around 1 + max(fee, 5 %), assets around five dollars). Output: the verdict.
fn end_line(w0: &World, acct: &Pubkey, specs: &[BankSpec], group: Pubkey, portfolio: &str, pulse: &str, rng: &mut Rng) -> Option<String> {
    use marginfi_type_crate::types::{ACCOUNT_IN_DELEVERAGE, ACCOUNT_IN_RECEIVERSHIP};
    let cur: Vec<i128> = pulse.split_whitespace().skip(1).take(6).map(|x| x.parse().unwrap()).collect();
    let (am, lm, ae, le) = (cur[2], cur[3], cur[4], cur[5]);
    let mut w = w0.clone();
    let delev = rng.chance(1, 4);
    let receiver = w.add_wallet(1_000_000_000);
    let rec_key = w.add_liquidation_record(*acct, receiver);
    // fee state: maximum liquidator fee and flat fee
    let fee_bits: i128 = *rng.pick(&[0i128, ONE / 100 * 3, ONE / 20, ONE / 20 + 1, ONE / 10, ONE / 5, ONE]);
    let (fs_key, _) = crate::world::fixtures::fee_state_pda();
    let mut fs = w.fee_state(&fs_key);
    fs.liquidation_max_fee = I80F48::from_bits(fee_bits).into();
    fs.liquidation_flat_sol_fee = *rng.pick(&[0u32, 0, 5000]);
    let fee_wallet = fs.global_fee_wallet;
    w.set_fee_state(&fs_key, &fs);
    // the snapshot
    let jitter = |rng: &mut Rng, v: i128| -> i128 {
        match rng.below(6) {
            0 => 0,
            1 => 1,
            2 => -1,
            3 => (v / 10).max(1) * (rng.below(3) as i128 - 1),
            4 => rng.below(ONE as u64) as i128,
            _ => -(rng.below(ONE as u64) as i128),
        }
    };
    let pre_am = am.saturating_add(jitter(rng, am)).max(0);
    let pre_lm = lm.saturating_add(jitter(rng, lm)).max(0);
    let prem = (ONE + fee_bits.max(ONE / 20)) as i128;
    let repaid: i128 = match rng.below(5) { 0 => 0, 1 => rng.below(1000) as i128, 2 => (rng.below(1_000_000) as i128) * ONE / 1000, 3 => le / 2 + 1, _ => (1 + rng.below(100_000) as i128) * ONE };
    let at_cap: i128 = ((num_bigint::BigInt::from(repaid) * num_bigint::BigInt::from(prem)) >> 48u32).try_into().unwrap_or(i128::MAX / 4);
    let seized: i128 = match rng.below(8) { 0 => 0, 1 => at_cap, 2 => at_cap + 1, 3 => at_cap - 1, 4 => repaid, 5 => at_cap.saturating_mul(2), 6 => 5 * ONE - ae + (rng.below(3) as i128 - 1), _ => rng.below(1u64 << 60) as i128 };
    let pre_ae = ae.saturating_add(seized).max(0);
    let pre_le = le.saturating_add(repaid).max(0);
    let mut rec = w.liquidation_record(&rec_key);
    let risk_admin = w.add_wallet(1_000_000_000);
    rec.liquidation_receiver = if delev { risk_admin } else { receiver };
    rec.cache.asset_value_maint = I80F48::from_bits(pre_am).into();
    rec.cache.liability_value_maint = I80F48::from_bits(pre_lm).into();
    rec.cache.asset_value_equity = I80F48::from_bits(pre_ae).into();
    rec.cache.liability_value_equity = I80F48::from_bits(pre_le).into();
    w.set_liquidation_record(&rec_key, &rec);
    let mut a = w.marginfi_account(acct);
    a.liquidation_record = rec_key;
    a.account_flags |= ACCOUNT_IN_RECEIVERSHIP | if delev { ACCOUNT_IN_DELEVERAGE } else { 0 };
    w.set_marginfi_account(acct, &a);
    let r = if delev {
        let gr = w.group(&group);
        w.set_group_admins(&group, gr.emode_admin, gr.delegate_curve_admin, gr.delegate_limit_admin, gr.delegate_emissions_admin, risk_admin, gr.metadata_admin);
        w.exec(&ix::end_deleverage(group, *acct, risk_admin, risk_metas(&w, acct, specs)))
    } else {
        w.exec(&ix::end_liquidation(*acct, receiver, fee_wallet, risk_metas(&w, acct, specs)))
    };
    let verdict = match r {
        Ok(()) => {
            // the bracket is closed: flag cleared, receiver forgotten
            let a1 = w.marginfi_account(acct);
            if a1.account_flags & ACCOUNT_IN_RECEIVERSHIP != 0 || w.liquidation_record(&rec_key).liquidation_receiver != Pubkey::default() {
                "ok-but-still-in-receivership".to_string()
            } else {
                "ok".to_string()
            }
        }
        Err(crate::world::ExecErr::Custom(c)) => format!("err {}", c),
        Err(crate::world::ExecErr::Panic) => "panic".to_string(),
        Err(_) => return None,
    };
    Some(if delev {
        format!("risk.enddelev {} {} {} {} {} => {}", pre_am, pre_lm, pre_ae, pre_le, portfolio, verdict)
    } else {
        format!("risk.endliq {} {} {} {} {} {} => {}", pre_am, pre_lm, pre_ae, pre_le, fee_bits, portfolio, verdict)
    })
}


/// `risk.preliq <k> <portfolio>` and `risk.postliq <k> <pre health> <portfolio>`: the REAL
/// `RiskEngine::check_pre_liquidation_condition_and_get_account_health(Some(bank k), ..)` and
/// `check_post_liquidation_condition_and_get_account_health(bank k, pre)` called directly on the store's bytes, `k` = index of
/// one of the account's active positions, `pre` chosen AT, one bit above and one bit below the current maintenance health
/// (the strictness of "health must improve") and elsewhere.
fn cond_lines(w: &World, acct: &Pubkey, specs: &[BankSpec], portfolio: &str, pulse: &str, rng: &mut Rng, out: &mut Vec<String>) {
    use marginfi::state::marginfi_account::RiskEngine;
    let cur: Vec<i128> = pulse.split_whitespace().skip(1).take(6).map(|x| x.parse().unwrap()).collect();
    let health = cur[2].saturating_sub(cur[3]);
    let a = w.marginfi_account(acct);
    let active: Vec<Pubkey> = a.lending_account.balances.iter().filter(|b| b.is_active()).map(|b| b.bank_pk).collect();
    if active.is_empty() { return; }
    // mostly a position that IS a debt (the only kind a liquidation can name), sometimes any
    let debts: Vec<usize> = a.lending_account.balances.iter().filter(|b| b.is_active()).enumerate()
        .filter(|(_, b)| bits(b.liability_shares) >= ONE && bits(b.asset_shares) < ONE).map(|(i, _)| i).collect();
    let k = if !debts.is_empty() && rng.chance(5, 6) { *rng.pick(&debts) } else { rng.below(active.len() as u64) as usize };
    let bank_pk = active[k];
    let keys: Vec<Pubkey> = risk_metas(w, acct, specs).iter().map(|m| m.pubkey).collect();
    let show = |r: Option<anchor_lang::Result<I80F48>>| -> Option<String> {
        match r {
            None => Some("panic".to_string()),
            Some(Ok(v)) => Some(format!("ok {}", v.to_bits())),
            Some(Err(anchor_lang::error::Error::AnchorError(e))) => Some(format!("err {}", e.error_code_number)),
            Some(Err(_)) => None,
        }
    };
    let r = w.with_infos(&keys, |ais| -> anchor_lang::Result<I80F48> {
        let e = RiskEngine::new(&a, ais)?;
        e.check_pre_liquidation_condition_and_get_account_health(Some(&bank_pk), &mut None, false).map(|x| x.0)
    });
    if let Some(sr) = show(r) {
        out.push(format!("risk.preliq {} {} => {}", k, portfolio, sr));
    }
    let pre: i128 = match rng.below(6) {
        0 => health,
        1 => health.saturating_sub(1),
        2 => health.saturating_add(1),
        3 => health.saturating_sub(rng.below(1u64 << 50) as i128),
        4 => health.saturating_add(rng.below(1u64 << 50) as i128),
        _ => -(rng.below(1u64 << 60) as i128),
    };
    let r = w.with_infos(&keys, |ais| -> anchor_lang::Result<I80F48> {
        let e = RiskEngine::new(&a, ais)?;
        e.check_post_liquidation_condition_and_get_account_health(&bank_pk, I80F48::from_bits(pre))
    });
    if let Some(sr) = show(r) {
        out.push(format!("risk.postliq {} {} {} => {}", k, pre, portfolio, sr));
    }
}


/// `risk.start <ignore healthy> <portfolio>  =>  ok <snapshot x4> | err`: the REAL start_liquidation / start_deleverage in a
/// real two-instruction transaction [start, matching end] (the start's own transaction-shape check demands the end; an end
/// right after the start re-evaluates the same portfolio and cannot refuse what the start accepted); the snapshot is read
/// from the liquidation record afterwards.
fn start_line(w0: &World, acct: &Pubkey, specs: &[BankSpec], group: Pubkey, portfolio: &str, rng: &mut Rng) -> Option<String> {
    let mut w = w0.clone();
    let delev = rng.chance(1, 3);
    let receiver = w.add_wallet(1_000_000_000);
    let rec_key = w.add_liquidation_record(*acct, receiver);
    let mut a = w.marginfi_account(acct);
    a.liquidation_record = rec_key;
    w.set_marginfi_account(acct, &a);
    let (fs_key, _) = crate::world::fixtures::fee_state_pda();
    let mut fs = w.fee_state(&fs_key);
    fs.liquidation_flat_sol_fee = 0;
    let fee_wallet = fs.global_fee_wallet;
    w.set_fee_state(&fs_key, &fs);
    let metas = risk_metas(&w, acct, specs);
    let ixs = if delev {
        let risk_admin = w.add_wallet(1_000_000_000);
        let gr = w.group(&group);
        w.set_group_admins(&group, gr.emode_admin, gr.delegate_curve_admin, gr.delegate_limit_admin, gr.delegate_emissions_admin, risk_admin, gr.metadata_admin);
        vec![ix::start_deleverage(group, *acct, risk_admin, metas.clone()), ix::end_deleverage(group, *acct, risk_admin, metas)]
    } else {
        vec![ix::start_liquidation(*acct, receiver, metas.clone()), ix::end_liquidation(*acct, receiver, fee_wallet, metas)]
    };
    let verdict = match w.exec_tx(&ixs) {
        Ok(()) => {
            let c = w.liquidation_record(&rec_key).cache;
            format!("ok {} {} {} {}", bits(c.asset_value_maint), bits(c.liability_value_maint), bits(c.asset_value_equity), bits(c.liability_value_equity))
        }
        Err((0, crate::world::ExecErr::Custom(c))) => format!("err {}", c),
        Err((0, crate::world::ExecErr::Panic)) => "panic".to_string(),
        // the end refused what the start accepted: reported as its own outcome (the model says "ok")
        Err((1, e)) => format!("end-refused {}", e),
        Err(_) => return None,
    };
    Some(format!("risk.start {} {} => {}", delev as u8, portfolio, verdict))
}
