//! family `bkr` and monitor "BKR": the REAL `lending_pool_handle_bankruptcy` through real dispatch.
//!
//! World: one group, a collateral bank and a debt bank (SPL / Token-2022 / Token-2022 with transfer fee),
//! a borrower whose collateral was wiped, several depositors of the debt bank, an insurance vault holding
//! nothing / less than / exactly / more than the bad debt, signers (admin, risk admin, stranger) with and
//! without the bank's permissionless-settlement flag.
//!   family line : `bk.handle <accrued bank> <position> <available> <now>  =>  <bank'> <position'> coveredUp kill`
//!                 (banks without transfer fee: `available` = insurance vault amount)
//!   monitor     : predicates from the property text in exact arithmetic (all token programs).
use crate::fam_bank::{Bal, B};
use crate::mon::Report;
use crate::rng::Rng;
use crate::world::fixtures::{bank_config_fixed, BankHandle};
use crate::world::{ix, TokenKind, World};
use anchor_lang::prelude::Pubkey;
use fixed::types::I80F48;
use marginfi_type_crate::constants::PERMISSIONLESS_BAD_DEBT_SETTLEMENT_FLAG;
use marginfi_type_crate::types::{BankOperationalState, ACCOUNT_DISABLED};
use num_bigint::BigInt;

const ONE: i128 = 1 << 48;

fn bits(v: marginfi_type_crate::types::WrappedI80F48) -> i128 {
    I80F48::from(v).to_bits()
}
fn big(x: i128) -> BigInt {
    BigInt::from(x)
}

pub struct Bw {
    pub w: World,
    pub admin: Pubkey,
    pub risk_admin: Pubkey,
    pub stranger: Pubkey,
    pub cb: BankHandle,
    pub lb: BankHandle,
    pub victim: Pubkey,
    pub depositors: Vec<Pubkey>,
    pub fee_mint: bool,
}

pub fn build(rng: &mut Rng, allow_fee_mint: bool) -> Option<Bw> {
    crate::world::install_stubs();
    let mut w = World::new();
        // fresh keys are hashes of a counter: a random starting point makes the relative ORDER of the keys created below (banks,
        // accounts, vaults) differ from world to world — positions are kept sorted by bank key, and order-dependent code paths
        // would otherwise see the same order in every world
        w.key_counter = rng.below(1 << 40);
    w.set_clock(1_700_000_000 + rng.range(0, 1_000_000), 1000);
    let fee_admin = w.add_wallet(10_000_000_000);
    let fee_wallet = w.add_wallet(0);
    w.add_fee_state(fee_admin, fee_wallet, Default::default());
    let admin = w.add_wallet(10_000_000_000);
    let group = w.add_group(admin);
    let risk_admin = w.add_wallet(1_000_000_000);
    let g = w.group(&group);
    w.set_group_admins(&group, g.emode_admin, g.delegate_curve_admin, g.delegate_limit_admin, g.delegate_emissions_admin, risk_admin, g.metadata_admin);
    let stranger = w.add_wallet(1_000_000_000);
    let cmint = w.add_mint(TokenKind::Spl, 6);
    let (kind, fee_mint) = match rng.below(if allow_fee_mint { 4 } else { 2 }) {
        0 => (TokenKind::Spl, false),
        1 => (TokenKind::T22, false),
        _ => (TokenKind::T22Fee { bps: *rng.pick(&[1u16, 50, 100, 999]), max_fee: *rng.pick(&[5_000u64, 1_000_000_000, u64::MAX]) }, true),
    };
    let ldec = *rng.pick(&[6u8, 9, 0, 2]);
    let lmint = w.add_mint(kind, ldec);
    let cb = w.add_bank(group, cmint, bank_config_fixed(I80F48::from_num(10)));
    let lb = w.add_bank(group, lmint, bank_config_fixed(I80F48::from_num(*rng.pick(&[1.0f64, 10.0, 0.01, 250.0]))));
    for h in [cb, lb] {
        let mut b = w.bank(&h.bank);
        b.config.deposit_limit = u64::MAX;
        b.config.borrow_limit = u64::MAX;
        w.set_bank(&h.bank, &b);
    }
    // depositors of the debt bank
    let nd = 1 + rng.below(3) as usize;
    let mut depositors = vec![];
    let unit = 10u64.pow(ldec as u32);
    for _ in 0..nd {
        let wallet = w.add_wallet(1_000_000_000);
        let acct = w.add_marginfi_account(group, wallet);
        let tok = w.add_token_account(lmint, wallet, u64::MAX / 8);
        let amt = unit * (1 + rng.below(1000)) + rng.below(unit);
        if w.exec(&ix::deposit(&lb, acct, wallet, tok, amt, None)).is_err() {
            return None;
        }
        depositors.push(acct);
    }
    // the borrower
    let vw = w.add_wallet(1_000_000_000);
    let victim = w.add_marginfi_account(group, vw);
    let vtok_c = w.add_token_account(cmint, vw, u64::MAX / 8);
    let vtok_l = w.add_token_account(lmint, vw, 0);
    if w.exec(&ix::deposit(&cb, victim, vw, vtok_c, 1_000_000_000_000_000, None)).is_err() {
        return None;
    }
    let total: u64 = w.token_amount(&lb.liquidity_vault);
    let bor = match rng.below(5) {
        0 => 1.max(unit / 1000),
        1 => total / 2,
        2 => total,                 // everything the depositors put in: the loss can wipe the bank
        3 => total.saturating_sub(1).max(1),
        _ => 1 + rng.below(total.max(2) - 1),
    };
    let risk = w.remaining_for(&victim, &[lb.bank]);
    if w.exec(&ix::borrow(&lb, victim, vw, vtok_l, bor, risk)).is_err() {
        return None;
    }
    // wipe the collateral (the price went to nothing and it was liquidated away): dust or nothing is left
    {
        let mut a = w.marginfi_account(&victim);
        let mut cbk = w.bank(&cb.bank);
        for bal in a.lending_account.balances.iter_mut() {
            if bal.is_active() && bal.bank_pk == cb.bank {
                let left: i128 = *rng.pick(&[0i128, 0, 1, ONE / 2, 5000 * ONE]);
                let old = bits(bal.asset_shares);
                bal.asset_shares = I80F48::from_bits(left).into();
                cbk.total_asset_shares = I80F48::from_bits(bits(cbk.total_asset_shares) - old + left).into();
            }
        }
        w.set_marginfi_account(&victim, &a);
        w.set_bank(&cb.bank, &cbk);
    }
    w.advance(*rng.pick(&[0i64, 3600, 86400, 31_536_000]));
    Some(Bw { w, admin, risk_admin, stranger, cb, lb, victim, depositors, fee_mint })
}

fn claims(w: &World, accts: &[Pubkey], bank: &Pubkey) -> Vec<(i128, BigInt)> {
    let b = w.bank(bank);
    accts
        .iter()
        .map(|a| {
            let acc = w.marginfi_account(a);
            let sh = acc.lending_account.balances.iter().find(|x| x.is_active() && x.bank_pk == *bank).map(|x| bits(x.asset_shares)).unwrap_or(0);
            (sh, big(sh) * big(bits(b.asset_share_value)))
        })
        .collect()
}

/// one bankruptcy attempt; returns the family line (when the bank has no transfer fee) and reports predicates
pub fn attempt(bw: &mut Bw, rng: &mut Rng, rep: &mut Report, lines: Option<&mut Vec<String>>) {
    let lb = bw.lb;
    // half of the attempts bring the bank up to date first (the handler's accrual is then a no-op and the `bk.handle` line
    // carries the accrued bank); the other half leave the interest since the last update to the HANDLER: everything below is
    // judged against an accrual done on a copy of the world, and the `ix.bkr` line carries the un-accrued bank + its curve
    let pre_accrue = rng.chance(1, 2);
    if pre_accrue {
        let _ = bw.w.exec(&ix::accrue(&lb));
    }
    let accrued_copy = |w: &World| -> World { let mut w2 = w.clone(); let _ = w2.exec(&ix::accrue(&lb)); w2 };
    let bank0 = accrued_copy(&bw.w).bank(&lb.bank);
    let acc0 = bw.w.marginfi_account(&bw.victim);
    let Some(bal0) = acc0.lending_account.balances.iter().find(|x| x.is_active() && x.bank_pk == lb.bank).cloned() else { return };
    let bad_debt: BigInt = (big(bits(bal0.liability_shares)) * big(bits(bank0.liability_share_value))) >> 48u32;
    let bad_tokens_up: u64 = ((&bad_debt + big(ONE - 1)) >> 48u32).try_into().unwrap_or(u64::MAX);
    let ins: u64 = match rng.below(6) {
        0 => 0,
        1 => bad_tokens_up / 2,
        2 => bad_tokens_up,
        3 => bad_tokens_up.saturating_sub(1),
        4 => bad_tokens_up.saturating_mul(3).saturating_add(7),
        _ => rng.below(bad_tokens_up.saturating_mul(2).max(1)),
    };
    bw.w.set_token_amount(&lb.insurance_vault, ins);
    let permissionless = rng.chance(1, 3);
    {
        let mut b = bw.w.bank(&lb.bank);
        if permissionless { b.flags |= PERMISSIONLESS_BAD_DEBT_SETTLEMENT_FLAG } else { b.flags &= !PERMISSIONLESS_BAD_DEBT_SETTLEMENT_FLAG }
        bw.w.set_bank(&lb.bank, &b);
    }
    let bank_raw = bw.w.bank(&lb.bank);
    let w_acc = accrued_copy(&bw.w);
    let bank0 = w_acc.bank(&lb.bank);
    let (who, signer) = match rng.below(4) { 0 => ("admin", bw.admin), 1 => ("risk-admin", bw.risk_admin), _ => ("stranger", bw.stranger) };
    let pre_h = crate::mon_c10::health(&bw.w, &bw.victim);
    let c0 = claims(&w_acc, &bw.depositors, &lb.bank);
    let (lv0, iv0) = (bw.w.token_amount(&lb.liquidity_vault), bw.w.token_amount(&lb.insurance_vault));
    let sl0 = bits(bank0.total_liability_shares);
    let slack0 = crate::scen::slack_of(&w_acc, &lb);
    if !pre_accrue && bank_raw.last_update != bank0.last_update { rep.bump("accrual_left_to_the_handler"); }
    // ---- the insurance that pays is the BANK's insurance: a look-alike token account (right mint, right
    // authority, any balance) or a crossed vault in the insurance or liquidity seat must be refused outright
    if rng.chance(1, 4) {
        let snap = bw.w.accounts.clone();
        let auth_signer = if permissionless { signer } else { bw.admin };
        let mut sub = lb.clone();
        let which = rng.below(4);
        let what = match which {
            0 => { sub.insurance_vault = bw.w.add_token_account(lb.mint, lb.insurance_vault_authority, ins); "a look-alike insurance vault (same mint, same authority)" }
            1 => { sub.insurance_vault = bw.w.add_token_account(lb.mint, lb.insurance_vault_authority, 0); "an EMPTY look-alike insurance vault (same mint, same authority)" }
            2 => { sub.liquidity_vault = bw.w.add_token_account(lb.mint, lb.liquidity_vault_authority, 0); "a look-alike liquidity vault (same mint, same authority)" }
            _ => { sub.insurance_vault = lb.fee_vault; "the bank's fee vault in the insurance seat" }
        };
        let snap2 = bw.w.accounts.clone();
        let risk = bw.w.remaining_in_slot_order(&bw.victim);
        let r = bw.w.exec(&ix::handle_bankruptcy(&sub, auth_signer, bw.victim, risk));
        rep.bump("substitution_probes");
        if r.is_ok() {
            let b1 = bw.w.bank(&lb.bank);
            rep.fail(format!("C07 bankruptcy settled with {} in place of the bank's own vault: bad debt {} bits, real insurance {} tokens left untouched = {}, deposit share value {} -> {}",
                what, bad_debt, ins, bw.w.token_amount(&lb.insurance_vault) == ins, bits(bank0.asset_share_value), bits(b1.asset_share_value)));
        } else if bw.w.accounts != snap2 {
            rep.fail("C08 a rejected bankruptcy changed the account store".to_string());
        }
        bw.w.accounts = snap;
    }
    // ---- only real bad debt, also when the collateral cannot be priced: the account still HOLDS sizeable collateral in a bank
    // priced by a Pyth feed that is fresh, exactly at its maximum age, or too old / not fully verified. A feed that prices says
    // "not bankrupt"; a feed that does not price must abort the settlement — it never counts the collateral as worth nothing
    if rng.chance(1, 4) {
        let snap = bw.w.accounts.clone();
        let now = bw.w.clock_ts;
        let cbk0 = bw.w.bank(&bw.cb.bank);
        let max_age = cbk0.config.oracle_max_age as i64;
        let (age, what) = match rng.below(5) {
            0 => (0, "fresh"),
            1 => (max_age, "exactly at its maximum age"),
            2 => (max_age + 1, "one second too old"),
            3 => (3600, "an hour old"),
            _ => (86_400 * 30, "a month old"),
        };
        let oracle = bw.w.add_pyth_oracle(10_0000_0000, 100_000, 10_0000_0000, 100_000, -8, now - age);
        let mut cbk = cbk0;
        cbk.config.oracle_setup = marginfi_type_crate::types::OracleSetup::PythPushOracle;
        cbk.config.oracle_keys[0] = oracle;
        let held: i128 = *rng.pick(&[ONE * 1_000_000, ONE * 250_000_000, ONE * 5_000]); // $10, $2500, 5 cents at $10 and 6 decimals
        let mut a = bw.w.marginfi_account(&bw.victim);
        for bal in a.lending_account.balances.iter_mut() {
            if bal.is_active() && bal.bank_pk == bw.cb.bank {
                let old = bits(bal.asset_shares);
                bal.asset_shares = I80F48::from_bits(held).into();
                cbk.total_asset_shares = I80F48::from_bits(bits(cbk.total_asset_shares) - old + held).into();
            }
        }
        let holds = a.lending_account.balances.iter().any(|b| b.is_active() && b.bank_pk == bw.cb.bank);
        bw.w.set_marginfi_account(&bw.victim, &a);
        bw.w.set_bank(&bw.cb.bank, &cbk);
        if holds {
            let auth_signer = if permissionless { signer } else { bw.admin };
            let risk = bw.w.remaining_in_slot_order(&bw.victim);
            let r = bw.w.exec(&ix::handle_bankruptcy(&lb, auth_signer, bw.victim, risk));
            rep.bump("unpriced_collateral_probes");
            rep.bump(&format!("unpriced_{}", match &r { Ok(()) => "settled".to_string(), Err(e) => e.code().map(|c| c.to_string()).unwrap_or_else(|| "other".into()) }));
            let worth_cents = held / ONE / 1000; // native units (6 decimals) * $10, in cents
            if r.is_ok() && worth_cents >= 10 {
                rep.fail(format!("C07 bankruptcy settled {} bits of debt while the account holds {} shares of collateral (about {} cents at the feed's price 10) in a bank whose Pyth feed is {} (age {} s, maximum {} s): collateral that cannot be priced was counted as nothing",
                    bad_debt, held, worth_cents, what, age, max_age));
            }
        }
        bw.w.accounts = snap;
    }
    let before = bw.w.accounts.clone();
    let risk = bw.w.remaining_in_slot_order(&bw.victim);
    let r = bw.w.exec(&ix::handle_bankruptcy(&lb, signer, bw.victim, risk));
    rep.bump("cases");
    let now = bw.w.clock_ts;
    let line_head = if pre_accrue {
        format!("bk.handle {} {} {} {}", B::from_bank(&bank0).line(), Bal::from_balance(&bal0).line(), ins, now)
    } else {
        let group = bw.w.group(&lb.group);
        let ir = crate::fam_curve::Ir::from_real(&bank_raw.config.interest_rate_config, &group);
        format!("ix.bkr {} {} {} {} {} {}", B::from_bank(&bank_raw).line(), bank_raw.last_update, ir.line(), Bal::from_balance(&bal0).line(), ins, now)
    };
    match r {
        Err(e) => {
            rep.bump("rejected");
            rep.bump(&format!("rej_{}", e.code().map(|c| c.to_string()).unwrap_or_else(|| "other".into())));
            if bw.w.accounts != before {
                rep.fail("C08 a rejected bankruptcy changed the account store".to_string());
            }
            if e.code() == Some(6042) && (permissionless || who != "stranger") {
                rep.fail(format!("C07 bankruptcy by {} refused as Unauthorized (permissionless flag {})", who, permissionless));
            }
            // structural rejections are part of the model too (BalanceNotBadDebt, math): only those
            if let (Some(l), false) = (lines, bw.fee_mint) {
                if matches!(e.code(), Some(6014)) {
                    l.push(format!("{} => err {}", line_head, e.code().unwrap()));
                }
            }
        }
        Ok(()) => {
            rep.bump("settled");
            let bank1 = bw.w.bank(&lb.bank);
            let acc1 = bw.w.marginfi_account(&bw.victim);
            let bal1 = acc1.lending_account.balances.iter().find(|x| x.bank_pk == lb.bank).cloned();
            let tag = format!("bad debt {} bits, insurance {} tokens, signer {}, permissionless {}", bad_debt, ins, who, permissionless);
            // ---- who
            if who == "stranger" && !permissionless {
                rep.fail(format!("C07 a stranger settled bad debt on a bank without the permissionless flag: {}", tag));
            }
            // ---- only real bad debt
            if let Some(h) = &pre_h {
                if !(h.eq_assets < h.eq_liabs) || !(h.eq_assets < (ONE / 10) + 1) {
                    rep.fail(format!("C07 bankruptcy accepted for an account with unweighted assets {} and liabilities {} (must be below liabilities and below $0.10): {}", h.eq_assets, h.eq_liabs, tag));
                }
            }
            if bad_debt <= big(28147497671) {
                rep.fail(format!("C07 bankruptcy accepted on a bank where the account owes at most dust: {}", tag));
            }
            // ---- insurance first
            let (lv1, iv1) = (bw.w.token_amount(&lb.liquidity_vault), bw.w.token_amount(&lb.insurance_vault));
            let got = lv1 - lv0; // what the liquidity vault received
            let paid = iv0 - iv1;
            let avail_max = big(ins as i128) << 48u32; // (with a transfer fee the deliverable amount is smaller)
            let covered_expected = if bad_debt < avail_max { bad_debt.clone() } else { avail_max.clone() };
            if !bw.fee_mint {
                let up: BigInt = (&covered_expected + big(ONE - 1)) >> 48u32;
                if big(got as i128) != up || paid != got {
                    rep.fail(format!("C07 insurance moved {} out / {} in, expected ceil(min(bad debt, available)) = {}: {}", paid, got, up, tag));
                }
            } else {
                if paid > ins || got > paid {
                    rep.fail(format!("C07 insurance moved {} out / {} in with only {} available: {}", paid, got, ins, tag));
                }
            }
            let covered = {
                let g = big(got as i128) << 48u32;
                if g < bad_debt { g } else { bad_debt.clone() }
            };
            let socialized = &bad_debt - &covered;
            // ---- the rest pro rata, exactly
            let c1 = claims(&bw.w, &bw.depositors, &lb.bank);
            let (asv0, asv1) = (bits(bank0.asset_share_value), bits(bank1.asset_share_value));
            if asv1 < 0 || asv1 > asv0 {
                rep.fail(format!("C07 deposit share value went from {} to {}: {}", asv0, asv1, tag));
            }
            for (i, ((s0, _), (s1, _))) in c0.iter().zip(c1.iter()).enumerate() {
                if s0 != s1 {
                    rep.fail(format!("C07 depositor {} shares changed {} -> {} in a bankruptcy: {}", i, s0, s1, tag));
                }
            }
            let sa = bits(bank0.total_asset_shares);
            let total0: BigInt = big(sa) * big(asv0);
            let total1: BigInt = big(sa) * big(asv1);
            let loss_bits2: BigInt = &total0 - &total1; // scale 2^96
            let soc2: BigInt = &socialized << 48u32;
            let wiped = &soc2 >= &total0;
            if wiped {
                rep.bump("bank_wiped");
                if asv1 != 0 || bank1.config.operational_state != BankOperationalState::KilledByBankruptcy {
                    rep.fail(format!("C07 bad debt consumed all deposits but share value is {} and state {:?}: {}", asv1, bank1.config.operational_state as u8, tag));
                }
            } else {
                // total claims fall by the uncovered amount, short of at most (total shares) ulps of rounding in the new share value
                let slack = big(sa) + (big(1) << 49u32);
                if loss_bits2 < soc2 || &loss_bits2 - &soc2 > slack {
                    rep.fail(format!("C07 depositors' claims fell by {} (x2^-96) but the uncovered bad debt is {}: {}", loss_bits2, soc2, tag));
                }
                if asv1 == 0 || bank1.config.operational_state == BankOperationalState::KilledByBankruptcy {
                    if asv1 != 0 { rep.fail(format!("C07 bank killed although deposits were not consumed: {}", tag)); }
                }
                if socialized == big(0) && asv1 != asv0 {
                    rep.fail(format!("C07 fully insured bad debt still changed the deposit share value {} -> {}: {}", asv0, asv1, tag));
                }
            }
            // ---- C01: unless the bank is wiped out, the solvency margin does not fall (theorem bankruptcy_step)
            if !wiped && asv1 != 0 {
                let slack1 = crate::scen::slack_of(&bw.w, &lb);
                if slack1 < slack0 {
                    rep.fail(format!("C01 solvency margin fell by {} in a bankruptcy that did not wipe the bank: {}", &slack0 - &slack1, tag));
                }
            }
            // ---- debt cleared, account disabled, ledger follows
            if acc1.account_flags & ACCOUNT_DISABLED == 0 {
                rep.fail(format!("C07 bankrupt account not disabled: {}", tag));
            }
            let l1 = bal1.as_ref().map(|b| bits(b.liability_shares)).unwrap_or(0);
            if big(l1) * big(bits(bank1.liability_share_value)) >= (big(ONE) << 48u32) {
                rep.fail(format!("C07 bankrupt account still owes {} shares: {}", l1, tag));
                if !pre_accrue && bank_raw.last_update != bank1.last_update {
                    rep.fail(format!("C06 a bankruptcy settled against STALE share values: the bank had not been accrued since {} (now {}), the debt was sized at the old liability share value {} instead of the accrued {}, and the disabled account keeps {} debt shares: {}",
                        bank_raw.last_update, bank1.last_update, bits(bank_raw.liability_share_value), bits(bank0.liability_share_value), l1, tag));
                }
            }
            if !pre_accrue && bank1.last_update != now as i64 {
                rep.fail(format!("C06 bankruptcy settled without bringing the bank's interest up to the current time (last_update {} != now {}): {}", bank1.last_update, now, tag));
            }
            let sl1 = bits(bank1.total_liability_shares);
            if sl0 - sl1 != bits(bal0.liability_shares) - l1 {
                rep.fail(format!("C02 bank liability total fell by {} but the position by {}: {}", sl0 - sl1, bits(bal0.liability_shares) - l1, tag));
            }
            if let (Some(l), false, Some(b1)) = (lines, bw.fee_mint, bal1) {
                l.push(format!(
                    "{} => ok {}{} {} {} {}",
                    line_head,
                    B::from_bank(&bank1).line(),
                    if pre_accrue { String::new() } else { format!(" {}", bank1.last_update) },
                    Bal::from_balance(&b1).line(),
                    got,
                    (bank1.config.operational_state == BankOperationalState::KilledByBankruptcy) as u8
                ));
            }
        }
    }
}

pub fn gen(rng: &mut Rng, n: usize, out: &mut Vec<String>) {
    let mut scratch = Report::default();
    let mut tries = 0;
    while out.len() < n && tries < n * 20 {
        tries += 1;
        let Some(mut bw) = build(rng, false) else { continue };
        attempt(&mut bw, rng, &mut scratch, Some(out));
    }
}

pub fn monitor(rng: &mut Rng, n: usize, rep: &mut Report) {
    let mut done = 0;
    while done < n {
        done += 1;
        let Some(mut bw) = build(rng, true) else { rep.bump("prepare_failed"); continue };
        // sometimes the account is NOT bankrupt (collateral restored): must be refused
        if rng.chance(1, 6) {
            let mut a = bw.w.marginfi_account(&bw.victim);
            for bal in a.lending_account.balances.iter_mut() {
                if bal.is_active() && bal.bank_pk == bw.cb.bank {
                    bal.asset_shares = I80F48::from_bits(1_000_000_000_000_000i128 * ONE).into();
                }
            }
            bw.w.set_marginfi_account(&bw.victim, &a);
            let risk = bw.w.remaining_in_slot_order(&bw.victim);
            if bw.w.exec(&ix::handle_bankruptcy(&bw.lb, bw.admin, bw.victim, risk)).is_ok() {
                rep.fail("C07 bankruptcy accepted for an account with ample collateral".to_string());
            } else {
                rep.bump("solvent_refused");
            }
            continue;
        }
        attempt(&mut bw, rng, rep, None);
    }
}
