//! C14 monitor (Level B, real dispatch): every financial instruction × {bank operational state} and
//! × {protocol pause timing around the exact expiry second, cache propagated or stale}.
use crate::mon::Report;
use crate::rng::Rng;
use crate::scen::{Act, Scen};
use crate::world::{ix, ExecErr};
use anchor_lang::{InstructionData, ToAccountMetas};
use marginfi_type_crate::types::BankOperationalState;
use solana_program::instruction::Instruction;

const PROTOCOL_PAUSED: u32 = 6080;
const BANK_PAUSED: u32 = 6016;
const BANK_REDUCE_ONLY: u32 = 6017;
const BANK_KILLED: u32 = 6084;

fn purge_ix(s: &Scen, b: usize, u: usize, risk_admin: anchor_lang::prelude::Pubkey) -> Instruction {
    let h = &s.banks[b];
    Instruction {
        program_id: marginfi::ID,
        accounts: marginfi::accounts::LendingAccountPurgeDelevBalance {
            group: h.group,
            marginfi_account: s.users[u].acct,
            risk_admin,
            bank: h.bank,
        }
        .to_account_metas(None),
        data: marginfi::instruction::PurgeDeleverageBalance {}.data(),
    }
}

/// the financial / position-changing actions tried in every cell; user 0 holds a deposit in bank 0
/// and a debt in bank 1 (set up by `prepare`)
fn actions() -> Vec<(&'static str, Act)> {
    vec![
        ("deposit", Act::Deposit { u: 0, b: 0, amt: 1_000_000, upto: false }),
        ("withdraw", Act::Withdraw { u: 0, b: 0, amt: 1_000, all: false }),
        ("borrow", Act::Borrow { u: 0, b: 1, amt: 5 }),
        ("repay", Act::Repay { u: 0, b: 1, amt: 5, all: false }),
        ("collect_fees", Act::CollectFees { b: 1 }),
        ("close_balance", Act::CloseBalance { u: 1, b: 0 }),
    ]
}

fn prepare(rng: &mut Rng) -> Option<Scen> {
    let mut s = Scen::build(rng);
    let mut rep = Report::default();
    for i in 0..2 {
        let key = s.banks[i].bank;
        let mut bk = s.w.bank(&key);
        bk.config.deposit_limit = u64::MAX;
        bk.config.borrow_limit = u64::MAX;
        s.w.set_bank(&key, &bk);
    }
    // user 0: big deposit in bank 0, borrows from bank 1; user 1: lender in bank 1, dust-free empty position in bank 0
    let ok = [
        Act::Deposit { u: 0, b: 0, amt: 5_000_000_000_000, upto: false },
        Act::Deposit { u: 1, b: 1, amt: 5_000_000_000_000, upto: false },
        Act::Borrow { u: 0, b: 1, amt: 10 },
        Act::Deposit { u: 1, b: 0, amt: 10, upto: false },
    ]
    .iter()
    .all(|a| {
        let r = s.step(a, &mut rep);
        if !matches!(r, Some(Ok(()))) && std::env::var("C14_DEBUG").is_ok() {
            eprintln!("prepare: {:?} -> {:?}", a, r.as_ref().map(|x| x.as_ref().map_err(|e| e.to_string())));
        }
        matches!(r, Some(Ok(())))
    });
    if !ok || !rep.fails.is_empty() {
        return None;
    }
    // turn user 1's position in bank 0 into pure dust (1000 bits ≈ 3.5e-12 shares), keeping the ledger consistent
    {
        use fixed::types::I80F48;
        let bkey = s.banks[0].bank;
        let akey = s.users[1].acct;
        let mut acct = s.w.marginfi_account(&akey);
        let mut bank = s.w.bank(&bkey);
        for bal in acct.lending_account.balances.iter_mut() {
            if bal.is_active() && bal.bank_pk == bkey {
                let old: I80F48 = bal.asset_shares.into();
                let new = I80F48::from_bits(1000);
                bal.asset_shares = new.into();
                let tot: I80F48 = bank.total_asset_shares.into();
                bank.total_asset_shares = (tot - old + new).into();
                bank.lending_position_count -= 1;
            }
        }
        s.w.set_marginfi_account(&akey, &acct);
        s.w.set_bank(&bkey, &bank);
    }
    Some(s)
}

/// C15's share of the pause matrix: a pause that has RUN OUT must stop blocking every gated user instruction at once, with the
/// group's cached copy still saying "paused" (nobody unpaused, nobody propagated again): a plain pause at +1800 / +1801 / a day
/// later, an extended one at its extended end, a re-propagated extension, a fresh pause after a lapsed one.
pub fn run_lapsed(rng: &mut Rng, n: usize, rep: &mut Report) {
    let mut cells = 0usize;
    while cells < n {
        let Some(base) = prepare(rng) else { rep.bump("prepare_failed"); cells += 1; continue };
        for (timing, variant, off) in [
            ("plain+1800", 0u8, 1800i64), ("plain+1801", 0, 1801), ("plain+86400", 0, 86_400),
            ("extended+3600", 1, 3000), ("re-propagated-extension+3000", 2, 3000), ("fresh-pause-after-lapse+1800", 3, 1800),
        ] {
            for (name, act) in actions() {
                if name == "collect_fees" {
                    continue;
                }
                let mut s = clone_scen(&base);
                let mut scratch = Report::default();
                let mut ok = s.w.exec(&ix::panic_pause(s.fee_admin)).is_ok();
                match variant {
                    0 => { ok &= s.w.exec(&ix::propagate_fee_state(s.group)).is_ok(); }
                    1 => {
                        s.w.advance(600);
                        ok &= s.w.exec(&ix::panic_pause(s.fee_admin)).is_ok();
                        ok &= s.w.exec(&ix::propagate_fee_state(s.group)).is_ok();
                    }
                    _ => {
                        ok &= s.w.exec(&ix::propagate_fee_state(s.group)).is_ok();
                        s.w.advance(if variant == 2 { 600 } else { 90_000 });
                        ok &= s.w.exec(&ix::panic_pause(s.fee_admin)).is_ok();
                        ok &= s.w.exec(&ix::propagate_fee_state(s.group)).is_ok();
                    }
                }
                if !ok {
                    rep.fail(format!("setup of the lapsed pause failed ({})", timing));
                    continue;
                }
                s.w.advance(off);
                let r = s.step(&act, &mut scratch);
                cells += 1;
                rep.bump("cases");
                rep.bump(&format!("lapsed_{}", timing));
                let code = match &r { Some(Err(e)) => e.code(), _ => None };
                if code == Some(PROTOCOL_PAUSED) {
                    rep.fail(format!("{} is still refused with ProtocolPaused although the pause has run out ({}; nobody unpaused or propagated again)", name, timing));
                }
            }
        }
    }
}

pub fn run(rng: &mut Rng, n: usize, rep: &mut Report) {
    let mut cells = 0usize;
    while cells < n {
        let Some(base) = prepare(rng) else { rep.bump("prepare_failed"); cells += 1; continue };
        // ------------------------------------------------------------ protocol pause matrix
        // an EXTENDED pause (second pause 600 s into the first one shifts the start into the future):
        // the gate must stay closed from the propagation until start + 1800 = t0 + 3600
        for (timing, off, expect_paused) in [("extended+601", 1i64, true), ("extended+1799", 1199, true), ("extended+1800", 1200, true), ("extended+3599", 2999, true), ("extended+3600", 3000, false)] {
            for (name, act) in actions() {
                if name == "collect_fees" {
                    continue;
                }
                let mut s = clone_scen(&base);
                let mut scratch = Report::default();
                let ok1 = s.w.exec(&ix::panic_pause(s.fee_admin)).is_ok();
                s.w.advance(600);
                let ok2 = s.w.exec(&ix::panic_pause(s.fee_admin)).is_ok();
                let ok3 = s.w.exec(&ix::propagate_fee_state(s.group)).is_ok();
                if !(ok1 && ok2 && ok3) {
                    rep.fail(format!("setup of the extended pause failed ({} {} {})", ok1, ok2, ok3));
                    continue;
                }
                s.w.advance(off);
                let r = s.step(&act, &mut scratch);
                cells += 1;
                rep.bump("cases");
                rep.bump(&format!("pause_{}", timing));
                let code = match &r { Some(Err(e)) => e.code(), _ => None };
                if expect_paused != (code == Some(PROTOCOL_PAUSED)) {
                    rep.fail(format!("{} during an extended protocol pause ({}): expected paused={}, got {:?}", name, timing, expect_paused, r.as_ref().map(|x| x.as_ref().map_err(|e| e.to_string()))));
                }
            }
        }
        // the cache is re-propagated after the global pause state moved while the flag stayed set:
        //  (a) pause, propagate, extend the pause 600 s later, propagate again — closed until t0 + 600 + 1800... i.e. the
        //      extended start (t0 + 1800) + 1800 = t0 + 3600;
        //  (b) pause, propagate, let it lapse without unpausing, pause afresh a day later, propagate — closed for 1800 s
        //      from the second pause.
        for (timing, variant, off, expect_paused) in [
            ("re-propagated-extension+1201", 0u8, 1201i64, true),
            ("re-propagated-extension+2999", 0, 2999, true),
            ("re-propagated-extension+3000", 0, 3000, false),
            ("fresh-pause-after-lapse+5", 1, 5, true),
            ("fresh-pause-after-lapse+1799", 1, 1799, true),
            ("fresh-pause-after-lapse+1800", 1, 1800, false),
        ] {
            for (name, act) in actions() {
                if name == "collect_fees" {
                    continue;
                }
                let mut s = clone_scen(&base);
                let mut scratch = Report::default();
                let mut ok = s.w.exec(&ix::panic_pause(s.fee_admin)).is_ok();
                ok &= s.w.exec(&ix::propagate_fee_state(s.group)).is_ok();
                if variant == 0 {
                    s.w.advance(600);
                } else {
                    s.w.advance(90_000);
                }
                ok &= s.w.exec(&ix::panic_pause(s.fee_admin)).is_ok();
                ok &= s.w.exec(&ix::propagate_fee_state(s.group)).is_ok();
                if !ok {
                    rep.fail(format!("setup of the re-propagated pause failed ({})", timing));
                    continue;
                }
                s.w.advance(off);
                let r = s.step(&act, &mut scratch);
                cells += 1;
                rep.bump("cases");
                rep.bump(&format!("pause_{}", timing));
                let code = match &r { Some(Err(e)) => e.code(), _ => None };
                if expect_paused != (code == Some(PROTOCOL_PAUSED)) {
                    rep.fail(format!("{} after the pause state was re-propagated ({}): expected paused={}, got {:?}", name, timing, expect_paused, r.as_ref().map(|x| x.as_ref().map_err(|e| e.to_string()))));
                }
            }
        }
        for (timing, offset, propagate_after_pause, expect_paused) in [
            ("not-paused", None, false, false),
            ("paused+0", Some(0i64), true, true),
            ("paused+1799", Some(1799), true, true),
            ("paused+1800", Some(1800), true, false),
            ("paused+1801", Some(1801), true, false),
            ("paused-not-propagated", Some(10), false, false),
        ] {
            for (name, act) in actions() {
                let mut s = clone_scen(&base);
                let mut scratch = Report::default();
                if let Some(off) = offset {
                    let r1 = s.w.exec(&ix::panic_pause(s.fee_admin));
                    if r1.is_err() {
                        rep.fail(format!("setup: panic_pause failed {:?}", r1));
                        continue;
                    }
                    if propagate_after_pause {
                        let _ = s.w.exec(&ix::propagate_fee_state(s.group));
                    }
                    s.w.advance(off);
                }
                let r = s.step(&act, &mut scratch);
                cells += 1;
                rep.bump("cases");
                rep.bump(&format!("pause_{}", timing));
                let code = match &r {
                    Some(Err(e)) => e.code(),
                    _ => None,
                };
                let is_pause_err = code == Some(PROTOCOL_PAUSED);
                if expect_paused && !is_pause_err {
                    if name == "close_balance" {
                        rep.fail(format!("close_balance-not-pause-gated: {} executed while the protocol pause is in force ({}), result {:?}", name, timing, r.as_ref().map(|x| x.as_ref().map_err(|e| e.to_string()))));
                    } else {
                        rep.fail(format!("{} was not refused with ProtocolPaused while the protocol pause is in force ({}): {:?}", name, timing, r.as_ref().map(|x| x.as_ref().map_err(|e| e.to_string()))));
                    }
                }
                if !expect_paused && is_pause_err {
                    rep.fail(format!("{} refused with ProtocolPaused although no pause is in force ({})", name, timing));
                }
                if !expect_paused && !matches!(r, Some(Ok(()))) && name != "collect_fees" {
                    // after expiry everything that worked before must work again
                    rep.fail(format!("{} still failing after the pause expired ({}): {:?}", name, timing, r.as_ref().map(|x| x.as_ref().map_err(|e| e.to_string()))));
                }
            }
            // purge under pause (risk admin = group admin in this world); needs TOKENLESS_REPAYMENTS_COMPLETE
            {
                let mut s = clone_scen(&base);
                let mut b0 = s.w.bank(&s.banks[0].bank);
                b0.flags |= marginfi_type_crate::constants::TOKENLESS_REPAYMENTS_COMPLETE;
                let key = s.banks[0].bank;
                s.w.set_bank(&key, &b0);
                if let Some(off) = offset {
                    let _ = s.w.exec(&ix::panic_pause(s.fee_admin));
                    if propagate_after_pause {
                        let _ = s.w.exec(&ix::propagate_fee_state(s.group));
                    }
                    s.w.advance(off);
                }
                let r = s.w.exec(&purge_ix(&s, 0, 0, s.admin));
                cells += 1;
                rep.bump("cases");
                if expect_paused && r.as_ref().err().and_then(|e| e.code()) != Some(PROTOCOL_PAUSED) {
                    rep.fail(format!("purge-not-pause-gated: purge_deleverage_balance executed while the protocol pause is in force ({}), result {:?}", timing, r.map_err(|e| e.to_string())));
                }
            }
        }
        // ------------------------------------------------------------ bank operational-state matrix
        for state in [BankOperationalState::Operational, BankOperationalState::Paused, BankOperationalState::ReduceOnly, BankOperationalState::KilledByBankruptcy] {
            for (name, act) in actions() {
                if name == "collect_fees" {
                    continue;
                }
                let mut s = clone_scen(&base);
                // reduce-only collateral counts 0 for initial health, so a BORROWER's withdrawal may be
                // rejected by the risk engine; the bank-state gate is exercised with the pure lender
                let act = if name == "withdraw" && state == BankOperationalState::ReduceOnly { Act::Withdraw { u: 1, b: 1, amt: 1_000, all: false } } else { act };
                let bi = match act {
                    Act::Deposit { b, .. } | Act::Withdraw { b, .. } | Act::Borrow { b, .. } | Act::Repay { b, .. } | Act::CloseBalance { b, .. } => b,
                    _ => 0,
                };
                let key = s.banks[bi].bank;
                let mut bk = s.w.bank(&key);
                bk.config.operational_state = state;
                s.w.set_bank(&key, &bk);
                let mut scratch = Report::default();
                let r = s.step(&act, &mut scratch);
                cells += 1;
                rep.bump("cases");
                rep.bump(&format!("state_{:?}", state));
                let code = match &r {
                    Some(Err(e)) => e.code(),
                    _ => None,
                };
                let ok = matches!(r, Some(Ok(())));
                let expect: Option<u32> = match (state, name) {
                    (BankOperationalState::Operational, _) => None,
                    (BankOperationalState::KilledByBankruptcy, "close_balance") => None, // closing dust is not one of the gated actions
                    (BankOperationalState::KilledByBankruptcy, _) => Some(BANK_KILLED),
                    (BankOperationalState::Paused, "close_balance") => None,
                    (BankOperationalState::Paused, _) => Some(BANK_PAUSED),
                    (BankOperationalState::ReduceOnly, "deposit") | (BankOperationalState::ReduceOnly, "borrow") => Some(BANK_REDUCE_ONLY),
                    (BankOperationalState::ReduceOnly, _) => None,
                    _ => None,
                };
                match expect {
                    Some(c) => {
                        if code != Some(c) {
                            rep.fail(format!("{} on a bank in state {:?}: expected error {}, got {:?}", name, state, c, r.as_ref().map(|x| x.as_ref().map_err(|e| e.to_string()))));
                        }
                    }
                    None => {
                        if !ok {
                            rep.fail(format!("{} on a bank in state {:?} should still work, got {:?}", name, state, r.as_ref().map(|x| x.as_ref().map_err(|e| e.to_string()))));
                        }
                    }
                }
            }
        }
        // ------------------------------------------------------------ reduce-only collateral counts for NOTHING toward new
        // borrowing — with plain weights and under e-mode (the debt bank grants the collateral's e-mode tag a high weight) —
        // but still counts at maintenance level (user 0's only collateral is bank 0, its debt is in bank 1)
        for emode in [false, true] {
            let mut s = clone_scen(&base);
            let (k0, k1) = (s.banks[0].bank, s.banks[1].bank);
            let mut b0 = s.w.bank(&k0);
            b0.config.operational_state = BankOperationalState::ReduceOnly;
            if emode {
                b0.emode.emode_tag = 7;
            }
            s.w.set_bank(&k0, &b0);
            if emode {
                let mut b1 = s.w.bank(&k1);
                b1.emode.emode_config.entries[0] = marginfi_type_crate::types::EmodeEntry {
                    collateral_bank_emode_tag: 7,
                    flags: 0,
                    pad0: [0; 5],
                    asset_weight_init: fixed::types::I80F48::from_num(0.9).into(),
                    asset_weight_maint: fixed::types::I80F48::from_num(0.95).into(),
                };
                b1.emode.flags |= 1;
                s.w.set_bank(&k1, &b1);
            }
            let mut scratch = Report::default();
            for amt in [1u64, 1_000, 1_000_000] {
                let mut s2 = clone_scen(&s);
                let r = s2.step(&Act::Borrow { u: 0, b: 1, amt }, &mut scratch);
                cells += 1;
                rep.bump("cases");
                rep.bump(if emode { "reduce_only_emode_borrow" } else { "reduce_only_borrow" });
                if matches!(r, Some(Ok(()))) {
                    rep.fail(format!(
                        "reduce-only-collateral-counts: a borrow of {} backed ONLY by deposits in a reduce-only bank was accepted ({})",
                        amt, if emode { "the debt bank has an e-mode entry for the collateral's tag" } else { "no e-mode" }
                    ));
                }
            }
            // … while at maintenance level the deposit still counts: the account is not liquidatable
            if let Some(h) = crate::mon_c10::health(&s.w, &s.users[0].acct) {
                if h.maint <= 0 {
                    rep.fail(format!("reduce-only collateral no longer counts at maintenance level (health {})", h.maint));
                }
            }
        }
        // ------------------------------------------------------------ a bank killed by bankruptcy stays dead - permanently, whatever
        // the admin configures afterwards, on frozen and unfrozen banks alike (the two branches of lending_pool_configure_bank)
        for frozen in [false, true] {
            for want in [BankOperationalState::Operational, BankOperationalState::ReduceOnly, BankOperationalState::Paused] {
                let mut s = clone_scen(&base);
                let h0 = s.banks[0];
                let mut b0 = s.w.bank(&h0.bank);
                b0.config.operational_state = BankOperationalState::KilledByBankruptcy;
                if frozen { b0.flags |= marginfi_type_crate::constants::FREEZE_SETTINGS; } else { b0.flags &= !marginfi_type_crate::constants::FREEZE_SETTINGS; }
                s.w.set_bank(&h0.bank, &b0);
                let r = s.w.exec(&ix::configure_bank(&h0, s.admin, marginfi_type_crate::types::BankConfigOpt { operational_state: Some(want), deposit_limit: Some(u64::MAX), ..Default::default() }));
                cells += 1;
                rep.bump("cases");
                rep.bump(if r.is_ok() { "killed_configure_accepted" } else { "killed_configure_refused" });
                let after = s.w.bank(&h0.bank).config.operational_state;
                if after != BankOperationalState::KilledByBankruptcy {
                    rep.fail(format!("killed-bank-revived: lending_pool_configure_bank (settings frozen: {}) moved a bank KILLED BY BANKRUPTCY to state {} ({})", frozen, after as u8, if r.is_ok() { "instruction accepted" } else { "instruction refused" }));
                }
                let mut scratch = Report::default();
                // (the last user of the world: worlds have two to four users)
                let lu = s.users.len() - 1;
                for (name, act) in [("deposit", Act::Deposit { u: lu, b: 0, amt: 1_000, upto: false }), ("withdraw", Act::Withdraw { u: lu, b: 0, amt: 1, all: false })] {
                    if matches!(s.step(&act, &mut scratch), Some(Ok(()))) {
                        rep.fail(format!("killed-bank-accepts: {} succeeded on a bank killed by bankruptcy after an admin re-configuration (settings frozen: {}, requested state {})", name, frozen, want as u8));
                    }
                }
            }
        }
        rep.sample(format!("matrix on world with {} banks, {} users", base.banks.len(), base.users.len()));
    }
    let _ = ExecErr::Panic;
}

fn clone_scen(s: &Scen) -> Scen {
    Scen {
        w: s.w.clone(),
        group: s.group,
        admin: s.admin,
        fee_admin: s.fee_admin,
        fee_wallet: s.fee_wallet,
        banks: s.banks.clone(),
        users: s.users.iter().map(|u| crate::scen::User { wallet: u.wallet, acct: u.acct, toks: u.toks.clone() }).collect(),
        dust_a: s.dust_a.clone(),
        dust_l: s.dust_l.clone(),
        hist: vec![],
        opened_tag: s.opened_tag.clone(),
    }
}
