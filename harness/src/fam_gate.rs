//! family `bankstate`: the real validate_bank_state over the whole (state × kind) table.
use crate::rng::Rng;
use marginfi::utils::{validate_bank_state, InstructionKind};
use marginfi_type_crate::types::{Bank, BankOperationalState};

pub fn gen(_rng: &mut Rng, n: usize, out: &mut Vec<String>) {
    let states = [
        (0, BankOperationalState::Paused),
        (1, BankOperationalState::Operational),
        (2, BankOperationalState::ReduceOnly),
        (3, BankOperationalState::KilledByBankruptcy),
    ];
    let mut i = 0;
    while i < n.max(16) {
        for (si, st) in states.iter() {
            for ki in 0..4 {
                let kind = match ki {
                    0 => InstructionKind::Unrestricted,
                    1 => InstructionKind::FailsInReduceState,
                    2 => InstructionKind::FailsInPausedState,
                    _ => InstructionKind::FailsIfPausedOrReduceState,
                };
                let mut b = Bank::default();
                b.config.operational_state = *st;
                let r = validate_bank_state(&b, kind);
                out.push(format!(
                    "gate.bankstate {} {} => {}",
                    si,
                    ki,
                    match r {
                        Ok(()) => "ok".to_string(),
                        Err(e) => format!("err {}", crate::errcode(e)),
                    }
                ));
                i += 1;
            }
        }
    }
}
