//! Bracket monitor (Level B, real dispatch, REAL multi-instruction transactions): receivership
//! liquidation (C10), flash loans (C11) and the receivership clause of the signer rule (C08).
//!
//! Transactions are generated over the alphabet of real instructions (compute budget, registered
//! foreign programs, start/end liquidation, start/end deleverage, init record, withdraw, repay,
//! deposit, borrow, start/end flash loan) as mostly-valid brackets plus mutations, executed
//! atomically with the Instructions sysvar of the whole transaction, and judged by predicates
//! written from the property text.
use crate::mon::Report;
use crate::rng::Rng;
use crate::scen::{Act, Scen, ONE};
use crate::world::{ix, World};
use anchor_lang::prelude::Pubkey;
use fixed::types::I80F48;
use marginfi::constants::{COMPUTE_PROGRAM_KEY, JUP_KEY};
use marginfi_type_crate::types::{ACCOUNT_IN_FLASHLOAN, ACCOUNT_IN_RECEIVERSHIP};
use solana_program::instruction::Instruction;

fn bits(v: marginfi_type_crate::types::WrappedI80F48) -> i128 {
    I80F48::from(v).to_bits()
}

#[derive(Clone, Copy, Debug, PartialEq, Eq)]
pub enum K {
    Cb,
    Foreign,
    Unlisted,
    StartLiq(usize),
    EndLiq(usize),
    StartDelev(usize),
    EndDelev(usize),
    InitRec(usize),
    Withdraw(usize, u64),  // from account idx, by the receiver
    WithdrawAll(usize),    // the whole collateral position, by the receiver (withdraw_all = Some(true))
    Repay(usize, u64),
    RepayAll(usize),       // the whole debt, by the receiver (repay_all = Some(true))
    Deposit(usize, u64),
    Borrow(usize, u64),
    OwnWithdraw(usize, u64), // by the account's own authority
    OwnBorrow(usize, u64),
    OwnRepay(usize, u64),
    StartFlash(usize, u64),
    EndFlash(usize),
}

pub struct Health {
    pub init: i128,
    pub maint: i128,
    pub eq_assets: i128,
    pub eq_liabs: i128,
}

/// the program's own risk engine through the REAL pulse_health instruction on a clone of the world
pub fn health(w: &World, acct: &Pubkey) -> Option<Health> {
    let mut c = w.clone();
    let risk = c.remaining_for(acct, &[]);
    c.exec(&ix::pulse_health(*acct, risk)).ok()?;
    let a = c.marginfi_account(acct);
    let h = a.health_cache;
    if h.mrgn_err != 0 && h.mrgn_err != 6009 {
        return None;
    }
    Some(Health {
        init: bits(h.asset_value) - bits(h.liability_value),
        maint: bits(h.asset_value_maint) - bits(h.liability_value_maint),
        eq_assets: bits(h.asset_value_equity),
        eq_liabs: bits(h.liability_value_equity),
    })
}

/// unweighted value of all deposits / all debts of an account, computed here from the raw shares, share values, fixed
/// prices and mint decimals (the worlds of this monitor use fixed-price banks) — independent of the program's risk engine
pub fn indep_equity(w: &World, acct: &Pubkey) -> (num_bigint::BigInt, num_bigint::BigInt) {
    use num_bigint::BigInt;
    let a = w.marginfi_account(acct);
    let (mut av, mut lv) = (BigInt::from(0), BigInt::from(0));
    for bal in a.lending_account.balances.iter().filter(|b| b.is_active()) {
        let bk = w.bank(&bal.bank_pk);
        let price = BigInt::from(bits(bk.config.fixed_price));
        let scale = BigInt::from(10u8).pow(bk.mint_decimals as u32);
        let amt_a = (BigInt::from(bits(bal.asset_shares)) * BigInt::from(bits(bk.asset_share_value))) >> 48u32;
        let amt_l = (BigInt::from(bits(bal.liability_shares)) * BigInt::from(bits(bk.liability_share_value))) >> 48u32;
        av += ((amt_a * &price) >> 48u32) / &scale;
        lv += ((amt_l * &price) >> 48u32) / &scale;
    }
    (av, lv)
}

struct Ctx {
    receiver: Pubkey,
    receiver_toks: Vec<Pubkey>,
    risk_admin: Pubkey,
    unlisted: Pubkey,
}

fn build_ix(s: &Scen, cx: &Ctx, k: &K) -> Instruction {
    let (cb, cl) = (0usize, 1usize); // collateral bank, liability bank
    match *k {
        K::Cb => Instruction { program_id: COMPUTE_PROGRAM_KEY, accounts: vec![], data: vec![2, 0, 0, 0, 0] },
        K::Foreign => Instruction { program_id: JUP_KEY, accounts: vec![], data: vec![9; 12] },
        K::Unlisted => Instruction { program_id: cx.unlisted, accounts: vec![], data: vec![9; 12] },
        K::StartLiq(u) => ix::start_liquidation(s.users[u].acct, cx.receiver, s.w.remaining_in_slot_order(&s.users[u].acct)),
        K::EndLiq(u) => ix::end_liquidation(s.users[u].acct, cx.receiver, s.fee_wallet, s.w.remaining_in_slot_order(&s.users[u].acct)),
        K::StartDelev(u) => ix::start_deleverage(s.group, s.users[u].acct, cx.risk_admin, s.w.remaining_in_slot_order(&s.users[u].acct)),
        K::EndDelev(u) => ix::end_deleverage(s.group, s.users[u].acct, cx.risk_admin, s.w.remaining_in_slot_order(&s.users[u].acct)),
        K::InitRec(u) => ix::init_liq_record(s.users[u].acct, cx.receiver),
        K::Withdraw(u, amt) => ix::withdraw(&s.banks[cb], s.users[u].acct, cx.receiver, cx.receiver_toks[cb], amt, None, s.w.remaining_for(&s.users[u].acct, &[])),
        K::WithdrawAll(u) => ix::withdraw(&s.banks[cb], s.users[u].acct, cx.receiver, cx.receiver_toks[cb], 0, Some(true), s.w.remaining_for(&s.users[u].acct, &[])),
        K::Repay(u, amt) => ix::repay(&s.banks[cl], s.users[u].acct, cx.receiver, cx.receiver_toks[cl], amt, None),
        K::RepayAll(u) => ix::repay(&s.banks[cl], s.users[u].acct, cx.receiver, cx.receiver_toks[cl], 0, Some(true)),
        K::Deposit(u, amt) => ix::deposit(&s.banks[cb], s.users[u].acct, cx.receiver, cx.receiver_toks[cb], amt, None),
        K::Borrow(u, amt) => ix::borrow(&s.banks[cl], s.users[u].acct, cx.receiver, cx.receiver_toks[cl], amt, s.w.remaining_for(&s.users[u].acct, &[s.banks[cl].bank])),
        K::OwnWithdraw(u, amt) => ix::withdraw(&s.banks[cb], s.users[u].acct, s.users[u].wallet, s.users[u].toks[cb], amt, None, s.w.remaining_for(&s.users[u].acct, &[])),
        K::OwnBorrow(u, amt) => ix::borrow(&s.banks[cl], s.users[u].acct, s.users[u].wallet, s.users[u].toks[cl], amt, s.w.remaining_for(&s.users[u].acct, &[s.banks[cl].bank])),
        K::OwnRepay(u, amt) => ix::repay(&s.banks[cl], s.users[u].acct, s.users[u].wallet, s.users[u].toks[cl], amt, None),
        K::StartFlash(u, idx) => ix::start_flashloan(s.users[u].acct, s.users[u].wallet, idx),
        K::EndFlash(u) => ix::end_flashloan(s.users[u].acct, s.users[u].wallet, s.w.remaining_for(&s.users[u].acct, &[s.banks[cl].bank])),
    }
}

/// the shape the property text demands of a transaction in which a receivership start for `u` executes
fn shape_ok(tx: &[K], liq: bool) -> Result<(), String> {
    let is_start = |k: &K| if liq { matches!(k, K::StartLiq(_)) } else { matches!(k, K::StartDelev(_)) };
    let pos = tx.iter().position(|k| is_start(k)).ok_or("no start")?;
    let who = match tx[pos] { K::StartLiq(u) | K::StartDelev(u) => u, _ => unreachable!() };
    for k in &tx[..pos] {
        if !matches!(k, K::Cb | K::InitRec(_)) {
            return Err(format!("{:?} precedes the start", k));
        }
    }
    if tx.iter().filter(|k| matches!(k, K::StartLiq(_) | K::StartDelev(_))).count() != 1 {
        return Err("more than one start".into());
    }
    match tx.last() {
        Some(K::EndLiq(u)) if liq && *u == who => {}
        Some(K::EndDelev(u)) if !liq && *u == who => {}
        other => return Err(format!("last instruction is {:?}, not the matching end for account {}", other, who)),
    }
    for k in &tx[pos + 1..tx.len() - 1] {
        match k {
            K::Cb | K::Foreign | K::InitRec(_) | K::Withdraw(..) | K::WithdrawAll(..) | K::Repay(..) | K::RepayAll(..) | K::OwnWithdraw(..) | K::OwnRepay(..) => {}
            other => return Err(format!("{:?} inside the bracket", other)),
        }
    }
    if tx.iter().any(|k| matches!(k, K::Unlisted)) {
        return Err("a program outside the allowed list".into());
    }
    Ok(())
}

pub fn run(rng: &mut Rng, n: usize, rep: &mut Report) {
    let mut done = 0;
    while done < n {
        // ---------------------------------------------------------------- world: victim = user 0, healthy bystander = user 1
        let mut s = Scen::build(rng);
        let mut scratch = Report::default();
        for b in 0..2 {
            let key = s.banks[b].bank;
            let mut bk = s.w.bank(&key);
            bk.config.deposit_limit = u64::MAX;
            bk.config.borrow_limit = u64::MAX;
            bk.config.fixed_price = I80F48::from_num(10).into();
            s.w.set_bank(&key, &bk);
        }
        let dep = 1_000_000_000 * (1 + rng.below(50));
        let setup = [
            Act::Deposit { u: 0, b: 0, amt: dep, upto: false },
            Act::Deposit { u: 1, b: 1, amt: 5_000_000_000_000, upto: false },
            Act::Deposit { u: 1, b: 0, amt: 7_000_000_000, upto: false },
        ];
        if !setup.iter().all(|a| matches!(s.step(a, &mut scratch), Some(Ok(())))) {
            rep.bump("prepare_failed");
            done += 1;
            continue;
        }
        // borrow close to the limit: value(dep)*0.8 / 1.2 in bank1 units (decimals differ)
        let (d0, d1) = (s.w.mint_decimals(&s.banks[0].mint) as i32, s.w.mint_decimals(&s.banks[1].mint) as i32);
        let max_b = (dep as f64) * 10f64.powi(d1 - d0) * 0.8 / 1.2;
        let bor = ((max_b * (0.7 + 0.28 * (rng.below(100) as f64) / 100.0)) as u64).max(1);
        if !matches!(s.step(&Act::Borrow { u: 0, b: 1, amt: bor }, &mut scratch), Some(Ok(()))) {
            rep.bump("prepare_failed");
            done += 1;
            continue;
        }
        let _ = s.step(&Act::Borrow { u: 1, b: 1, amt: 1000 }, &mut scratch);
        s.w.add_program(COMPUTE_PROGRAM_KEY);
        s.w.add_program(JUP_KEY);
        let receiver = s.w.add_wallet(10_000_000_000);
        let receiver_toks: Vec<Pubkey> = s.banks.clone().iter().map(|b| s.w.add_token_account(b.mint, receiver, 100_000_000_000_000)).collect();
        let risk_admin = s.w.add_wallet(1_000_000_000);
        let g = s.group;
        let gr = s.w.group(&g);
        s.w.set_group_admins(&g, gr.emode_admin, gr.delegate_curve_admin, gr.delegate_limit_admin, gr.delegate_emissions_admin, risk_admin, gr.metadata_admin);
        let unlisted = s.w.new_key();
        s.w.add_program(unlisted);
        let cx = Ctx { receiver, receiver_toks, risk_admin, unlisted };
        // user 2: an account with no positions at all (health 0 — "not healthy" for the liquidation pre-condition)
        while s.users.len() < 3 {
            let wallet = s.w.add_wallet(1_000_000_000);
            let acct = s.w.add_marginfi_account(s.group, wallet);
            let toks = s.banks.clone().iter().map(|b| s.w.add_token_account(b.mint, wallet, 100_000_000_000_000)).collect();
            s.users.push(crate::scen::User { wallet, acct, toks });
        }
        for u in 0..3 {
            if rng.chance(4, 5) {
                let (a, r) = (s.users[u].acct, receiver);
                s.w.add_liquidation_record(a, r);
            }
        }
        // price shock on the collateral: sometimes enough to make the victim unhealthy, sometimes not
        // (one world in twelve: the collateral's price collapses to exactly ZERO — a legal fixed price; such collateral can be
        // neither seized in a liquidation nor taken in a deleverage: C09)
        let f = if rng.chance(1, 12) { rep.bump("zero_price_world"); 0.0f64 } else { *rng.pick(&[1.0f64, 0.9, 0.75, 0.7, 0.6, 0.5, 0.4, 0.3, 0.2, 0.01]) };
        {
            let key = s.banks[0].bank;
            let mut bk = s.w.bank(&key);
            bk.config.fixed_price = I80F48::from_num(10.0 * f).into();
            s.w.set_bank(&key, &bk);
        }
        // a quarter of the worlds put the collateral bank into reduce-only (e.g. being sunset): its deposits still count in
        // full for maintenance AND for the unweighted (equity) valuation that bounds the premium
        if rng.chance(1, 4) {
            let key = s.banks[0].bank;
            let mut bk = s.w.bank(&key);
            bk.config.operational_state = marginfi_type_crate::types::BankOperationalState::ReduceOnly;
            s.w.set_bank(&key, &bk);
            rep.bump("reduce_only_collateral_world");
        }
        // a third of the worlds cap the collateral bank's value for INITIAL-margin purposes far below its deposits
        // (total_asset_value_init_limit): unweighted (equity) valuation must not be affected by it
        if rng.chance(1, 3) {
            let key = s.banks[0].bank;
            let mut bk = s.w.bank(&key);
            bk.config.total_asset_value_init_limit = 1 + rng.below(50);
            s.w.set_bank(&key, &bk);
            rep.bump("init_limit_world");
        }
        let stranger = s.w.add_wallet(1_000_000_000);
        let stranger_toks: Vec<Pubkey> = s.banks.clone().iter().map(|b| s.w.add_token_account(b.mint, stranger, 1_000_000_000_000)).collect();

        // ---- half of the worlds have a daily dollar limit for forced deleverages, set through the real instruction to a
        //      fraction of the collateral's dollar value; the monitor keeps its OWN ledger of what left the collateral vault
        //      in deleverage transactions (independent valuation: tokens x fixed price / 10^decimals)
        let dollars_total = (dep as f64) * 10.0 * f / 10f64.powi(d0);
        let mut daily_limit: Option<u32> = None;
        let mut delev_sum_lower: i128 = 0;
        if dollars_total >= 4.0 && rng.chance(1, 2) {
            let lim = ((dollars_total / (2.0 + rng.below(5) as f64)) as u64).clamp(1, u32::MAX as u64 / 2) as u32;
            if s.w.exec(&ix::configure_deleverage_withdrawal_limit(s.group, s.admin, lim)).is_ok() {
                daily_limit = Some(lim);
                rep.bump("daily_limit_world");
            }
        }
        // worlds that start WITHOUT a limit may get one later in the day: what was withdrawn before still counts
        let late_limit_at: Option<usize> = if daily_limit.is_none() && dollars_total >= 4.0 && rng.chance(1, 2) { Some(2 + rng.below(8) as usize) } else { None };
        for it in 0..14 {
            if Some(it) == late_limit_at {
                // a limit at or below what may already have left, or a fraction of the collateral's value
                let lim = if delev_sum_lower > 1 && rng.chance(1, 2) { (delev_sum_lower as u64).clamp(1, u32::MAX as u64 / 2) as u32 }
                          else { ((dollars_total / (2.0 + rng.below(5) as f64)) as u64).clamp(1, u32::MAX as u64 / 2) as u32 };
                if s.w.exec(&ix::configure_deleverage_withdrawal_limit(s.group, s.admin, lim)).is_ok() {
                    daily_limit = Some(lim);
                    rep.bump("daily_limit_configured_late");
                }
            }
            if it >= 12 && (daily_limit.is_none() || f < 0.05) { break; }
            // the admin may re-issue the daily-limit configuration at any time (same value, or another non-zero one): what
            // was already withdrawn today still counts against whatever limit is in force
            if let Some(lim) = daily_limit {
                if rng.chance(1, 5) || it == 13 {
                    let new_lim = if rng.chance(2, 3) || it == 13 { lim } else { ((lim as u64 * (50 + rng.below(150)) / 100).clamp(1, u32::MAX as u64 / 2)) as u32 };
                    if s.w.exec(&ix::configure_deleverage_withdrawal_limit(s.group, s.admin, new_lim)).is_ok() {
                        daily_limit = Some(new_lim);
                        rep.bump("daily_limit_reconfigured");
                    }
                }
            }
            // ------------------------------------------------------------ generate a transaction
            let u = if rng.chance(5, 6) { 0 } else { 1 };
            let seize = match rng.below(6) { 0 => 1, 1 => dep / 1000, 2 => dep / 100, 3 => dep / 10, 4 => dep / 2, _ => rng.below(dep) + 1 };
            let seize_val = (seize as f64) * 10f64.powi(d1 - d0) * f; // in liability-token units (both base prices are 10)
            let repay = ((seize_val * *rng.pick(&[0.0f64, 0.5, 0.8, 0.9, 0.953, 0.96, 1.0, 1.0, 1.1, 1.3])) as u64).max(1);
            let mut tx: Vec<K> = vec![];
            let kind = if it >= 12 { 99 } else { rng.below(12) };
            if kind == 99 {
                // directed pair at the end of a daily-limit world: two forced deleverages of ~60 % of the daily limit each, with
                // the limit re-issued (unchanged) in between: the second must be refused, whatever was metered before
                let lim = daily_limit.unwrap() as f64;
                let dollars = lim * 0.6 + 2.0;
                let toks = (dollars * 10f64.powi(d0) / (10.0 * f)) as u64;
                let toks = toks.clamp(1, dep);
                let rp = ((toks as f64) * 10f64.powi(d1 - d0) * f * 1.02) as u64 + 1;
                tx.push(K::StartDelev(0));
                tx.push(K::Repay(0, rp));
                tx.push(K::Withdraw(0, toks));
                tx.push(K::EndDelev(0));
                rep.bump("daily_limit_directed_tx");
            } else if kind == 11 {
                // a forced deleverage that closes the position out: repay everything, take everything (or a part)
                if rng.chance(1, 3) { tx.push(K::Cb) }
                tx.push(K::StartDelev(u));
                tx.push(if rng.chance(2, 3) { K::RepayAll(u) } else { K::Repay(u, repay) });
                tx.push(if rng.chance(2, 3) { K::WithdrawAll(u) } else { K::Withdraw(u, seize) });
                tx.push(K::EndDelev(u));
            } else if kind == 10 {
                // two starts on DIFFERENT accounts in one transaction (the empty account 2 and the victim), one end
                let (first, second) = if rng.chance(1, 2) { (2usize, u) } else { (u, 2usize) };
                for _ in 0..rng.below(3) { tx.push(K::Cb) }
                tx.push(K::StartLiq(first));
                if rng.chance(1, 4) { tx.push(K::Cb) }
                tx.push(K::StartLiq(second));
                for _ in 0..rng.below(3) {
                    tx.push(if rng.chance(1, 2) { K::Withdraw(u, seize) } else { K::Repay(u, repay) });
                }
                tx.push(K::EndLiq(if rng.chance(3, 4) { first } else { second }));
            } else if kind < 6 {
                // receivership bracket (liq or deleverage)
                let liq = rng.chance(3, 4);
                if rng.chance(1, 3) { tx.push(K::Cb) }
                if rng.chance(1, 6) { tx.push(K::InitRec(u)) }
                tx.push(if liq { K::StartLiq(u) } else { K::StartDelev(u) });
                for _ in 0..rng.below(4) {
                    tx.push(match rng.below(12) {
                        0..=2 => K::Withdraw(u, seize),
                        3 => if rng.chance(1, 2) { K::WithdrawAll(u) } else { K::Withdraw(u, seize) },
                        4..=7 => K::Repay(u, repay),
                        8 => K::Foreign,
                        9 => K::Cb,
                        10 => K::OwnRepay(1 - u, 10),
                        _ => *rng.pick(&[K::Deposit(u, 1000), K::Borrow(u, 10), K::StartFlash(u, 9), K::EndFlash(u), K::Unlisted, K::OwnBorrow(1 - u, 5), K::StartLiq(1 - u), K::StartDelev(u)]),
                    });
                }
                match rng.below(10) {
                    0 => {}
                    1 => tx.push(if liq { K::EndDelev(u) } else { K::EndLiq(u) }),
                    2 => tx.push(if liq { K::EndLiq(1 - u) } else { K::EndDelev(1 - u) }),
                    3 => { tx.push(if liq { K::EndLiq(u) } else { K::EndDelev(u) }); tx.push(*rng.pick(&[K::Cb, K::Withdraw(u, 1), K::OwnRepay(1 - u, 1)])); }
                    _ => tx.push(if liq { K::EndLiq(u) } else { K::EndDelev(u) }),
                }
            } else if kind < 9 {
                // flash loan
                let big = 4_000_000_000_000u64;
                let body: Vec<K> = (0..rng.below(3)).map(|_| match rng.below(6) {
                    0 | 1 => K::OwnBorrow(u, *rng.pick(&[big, 1000, bor / 2 + 1])),
                    2 => K::OwnRepay(u, *rng.pick(&[big, 1000])),
                    3 => K::OwnWithdraw(u, *rng.pick(&[dep, dep / 2, 1])),
                    4 => K::Cb,
                    _ => *rng.pick(&[K::StartFlash(u, 3), K::StartLiq(u), K::EndFlash(1 - u)]),
                }).collect();
                if rng.chance(1, 4) { tx.push(K::Cb) }
                if rng.chance(1, 6) { tx.push(K::EndFlash(u)) } // a stray end BEFORE the start (a no-op on a healthy account)
                let start_pos = tx.len();
                let end_pos = start_pos + 1 + body.len();
                let idx = match rng.below(10) {
                    0 => start_pos as u64,
                    1 => end_pos as u64 + 1,
                    2 => rng.below(6),
                    // a u64 argument that only agrees with an instruction index modulo 2^16 (the sysvar's index width)
                    3 => 65536 * (1 + rng.below(3)) + rng.below(end_pos as u64 + 2),
                    _ => end_pos as u64,
                };
                tx.push(K::StartFlash(u, idx));
                tx.extend(body);
                match rng.below(8) {
                    0 => {}
                    1 => tx.push(K::EndFlash(1 - u)),
                    _ => tx.push(K::EndFlash(u)),
                }
                if rng.chance(1, 4) { tx.push(*rng.pick(&[K::OwnBorrow(u, 1000), K::OwnWithdraw(u, dep / 2), K::Cb])) }
            } else {
                // loose instructions without any bracket
                for _ in 0..(1 + rng.below(3)) {
                    tx.push(*rng.pick(&[K::EndLiq(u), K::EndFlash(u), K::Withdraw(u, seize), K::Repay(u, repay), K::EndDelev(u), K::OwnRepay(u, 1000), K::Cb]));
                }
            }
            let ixs: Vec<Instruction> = tx.iter().map(|k| build_ix(&s, &cx, k)).collect();
            let pre_store = s.w.accounts.clone();
            let pre_h: Vec<Option<Health>> = (0..3).map(|i| health(&s.w, &s.users[i].acct)).collect();
            let pre_eq: Vec<(num_bigint::BigInt, num_bigint::BigInt)> = (0..3).map(|i| indep_equity(&s.w, &s.users[i].acct)).collect();
            let vault_cb0 = s.w.token_amount(&s.banks[0].liquidity_vault);
            let r = s.w.exec_tx(&ixs);
            if r.is_ok() {
                if tx.iter().any(|k| matches!(k, K::StartDelev(_))) {
                    let out = vault_cb0.saturating_sub(s.w.token_amount(&s.banks[0].liquidity_vault));
                    let price_bits = bits(s.w.bank(&s.banks[0].bank).config.fixed_price);
                    let dollars = ((num_bigint::BigInt::from(out) * num_bigint::BigInt::from(price_bits)) / num_bigint::BigInt::from(10u8).pow(d0 as u32)) >> 48u32;
                    let cnt = tx.iter().filter(|k| matches!(k, K::Withdraw(..) | K::WithdrawAll(..))).count() as i128;
                    let d: i128 = dollars.to_string().parse().unwrap_or(i128::MAX);
                    // every withdrawal is metered in whole dollars rounded DOWN: allow one dollar per withdrawal
                    delev_sum_lower += (d - cnt).max(0);
                    rep.bump("delev_metered_tx");
                    if let Some(lim) = daily_limit {
                      // (judged on transactions that took something out: a bracket without a withdrawal is not metered, even
                      // when a limit configured late in the day already lies below what left before it existed)
                      if out > 0 && delev_sum_lower > lim as i128 {
                        rep.fail(format!(
                            "C12 forced deleverages withdrew at least {} whole dollars within one day under a daily limit of {} (this transaction alone moved {} tokens worth {} dollars out of the collateral vault): {:?}",
                            delev_sum_lower, lim, out, d, tx
                        ));
                      }
                    }
                }
            }
            if r.is_ok() && f == 0.0 && tx.iter().any(|k| matches!(k, K::StartLiq(_) | K::StartDelev(_))) {
                let out = vault_cb0.saturating_sub(s.w.token_amount(&s.banks[0].liquidity_vault));
                if out > 0 {
                    rep.fail(format!("C09 collateral priced at exactly zero was seized inside a receivership: {} tokens left the collateral vault in the committed transaction {:?}", out, tx));
                } else {
                    rep.bump("zero_price_bracket_without_seizure");
                }
            }
            rep.bump("cases");
            done += 1;
            if tx.iter().any(|k| matches!(k, K::WithdrawAll(_))) {
                rep.bump(&format!("withdraw_all_tx_{}", match &r { Ok(()) => "ok".to_string(), Err((i, e)) => format!("rej_at_{}_{}", i, e.code().map(|c| c.to_string()).unwrap_or_else(|| "other".into())) }));
            }
            match &r {
                Err((i, e)) => {
                    rep.bump("tx_rejected");
                    rep.bump(&format!("rej_{}", e.code().map(|c| c.to_string()).unwrap_or_else(|| "other".into())));
                    let _ = i;
                    if s.w.accounts != pre_store {
                        rep.fail(format!("C08 a rejected transaction changed the account store: {:?}", tx));
                    }
                }
                Ok(()) => {
                    rep.bump("tx_ok");
                    // ---- flags never survive a committed transaction
                    for i in 0..3 {
                        let a = s.w.marginfi_account(&s.users[i].acct);
                        if a.account_flags & ACCOUNT_IN_RECEIVERSHIP != 0 {
                            rep.fail(format!("C10 receivership-survives-transaction: account {} still flagged ACCOUNT_IN_RECEIVERSHIP after committed tx {:?}", i, tx));
                        }
                        if a.account_flags & ACCOUNT_IN_FLASHLOAN != 0 {
                            rep.fail(format!("C11 flashloan-survives-transaction: account {} still flagged ACCOUNT_IN_FLASHLOAN after committed tx {:?}", i, tx));
                        }
                        if a.liquidation_record != Pubkey::default() {
                            let rec = s.w.liquidation_record(&a.liquidation_record);
                            if rec.liquidation_receiver != Pubkey::default() {
                                rep.fail(format!("C10 liquidation receiver still recorded after committed tx {:?}", tx));
                            }
                        }
                    }
                    // ---- receivership: shape, precondition, health no worse and not positive, premium
                    for (liq, started) in [(true, tx.iter().find_map(|k| if let K::StartLiq(u) = k { Some(*u) } else { None })),
                                           (false, tx.iter().find_map(|k| if let K::StartDelev(u) = k { Some(*u) } else { None }))] {
                        let Some(v) = started else { continue };
                        rep.bump(if liq { "bracket_liq_ok" } else { "bracket_delev_ok" });
                        if let Err(why) = shape_ok(&tx, liq) {
                            rep.fail(format!("C10 committed receivership transaction violates the bracket shape ({}): {:?}", why, tx));
                        }
                        let post_h = health(&s.w, &s.users[v].acct);
                        if let (Some(pre), Some(post)) = (&pre_h[v], &post_h) {
                            let tiny = pre.eq_assets < 5 * ONE;
                            if liq && pre.maint > 0 && !tiny {
                                rep.fail(format!("C10 liquidation started on an account that was healthy at maintenance level (health bits {}): {:?}", pre.maint, tx));
                            }
                            if post.maint < pre.maint {
                                rep.fail(format!("C10 maintenance health fell across the bracket: {} -> {}: {:?}", pre.maint, post.maint, tx));
                            }
                            if liq && post.maint > 0 && !tiny {
                                rep.fail(format!("C10 account positive at maintenance level after liquidation ({}): {:?}", post.maint, tx));
                            }
                            // independent valuation of what was seized and repaid (raw shares x share value x fixed price)
                            {
                                let (a1, l1) = indep_equity(&s.w, &s.users[v].acct);
                                let (a0, l0) = (&pre_eq[v].0, &pre_eq[v].1);
                                let seized_i = a0 - &a1;
                                let repaid_i = l0 - &l1;
                                let five = num_bigint::BigInt::from(5 * ONE);
                                let big_enough = a0 >= &(&five + (&five >> 10u32));
                                if liq && big_enough {
                                    let lim = (&repaid_i * num_bigint::BigInt::from(ONE + ONE / 20 + 1)) >> 48u32;
                                    let slack = (&seized_i >> 30u32) + num_bigint::BigInt::from(1 << 16);
                                    if seized_i > &lim + &slack {
                                        rep.fail(format!("C10 independently valued seizure {} bits exceeds the repaid value {} by more than the 5% premium (assets were worth {} bits before): {:?}", seized_i, repaid_i, a0, tx));
                                    }
                                }
                            }
                            let seized = pre.eq_assets - post.eq_assets;
                            let repaid = pre.eq_liabs - post.eq_liabs;
                            if seized > 0 { rep.bump("bracket_seized"); }
                            if liq && !tiny {
                                // seized <= repaid * (1 + max(fee_state max fee, 5%)); fee_state max fee is 0 in these worlds
                                let lim = (num_bigint::BigInt::from(repaid) * num_bigint::BigInt::from(ONE + ONE / 20 + 1)) >> 48u32;
                                if num_bigint::BigInt::from(seized) > lim + 1 {
                                    rep.fail(format!("C10 seized value bits {} exceeds repaid {} by more than the 5% premium: {:?}", seized, repaid, tx));
                                }
                            }
                        }
                    }
                    // ---- flash loans: the named end exists later for the same account
                    for (p, k) in tx.iter().enumerate() {
                        if let K::StartFlash(u, idx) = k {
                            rep.bump("flash_ok");
                            let idx = *idx as usize;
                            if !(idx > p && idx < tx.len() && tx[idx] == K::EndFlash(*u)) {
                                rep.fail(format!("C11 flash loan started at {} naming index {} which is not a later end_flashloan of the same account: {:?}", p, idx, tx));
                            }
                        }
                    }
                    // ---- after any committed transaction every account with debt is initially healthy unless
                    //      it already was unhealthy before and the transaction did not make it worse
                    for i in 0..2 {
                        if let (Some(pre), Some(post)) = (&pre_h[i], health(&s.w, &s.users[i].acct)) {
                            let acted = tx.iter().any(|k| matches!(k, K::OwnBorrow(u, _) | K::OwnWithdraw(u, _) | K::StartFlash(u, _) if *u == i));
                            if acted && post.init < 0 && post.init < pre.init {
                                rep.fail(format!("C11 account {} ended a committed transaction with negative initial health {} (was {}) after its own borrow/withdraw/flash loan: {:?}", i, post.init, pre.init, tx));
                            }
                        }
                    }
                }
            }
            // ---- C08: outside a receivership nobody but the authority moves the victim's funds
            {
                let acct = s.users[0].acct;
                let mut w2 = s.w.clone();
                let r1 = w2.exec(&ix::withdraw(&s.banks[0], acct, stranger, stranger_toks[0], 1, None, s.w.remaining_for(&acct, &[])));
                let mut w3 = s.w.clone();
                let r2 = w3.exec(&ix::repay(&s.banks[1], acct, stranger, stranger_toks[1], 1, None));
                for (name, r) in [("withdraw", r1), ("repay", r2)] {
                    match r {
                        Ok(()) => rep.fail(format!("C08 stranger-acts-outside-receivership: {} on the account by a stranger ACCEPTED after tx {:?} ({})", name, tx, if matches!(r_ok(&s.w, &acct), true) { "flag set" } else { "flag clear" })),
                        Err(e) if e.code() == Some(6042) => rep.bump("stranger_refused"),
                        Err(_) => rep.bump("stranger_failed_otherwise"),
                    }
                }
            }
        }
        rep.sample(format!("world dep {} bor {}", dep, bor));
    }
}

fn r_ok(w: &World, acct: &Pubkey) -> bool {
    w.marginfi_account(acct).account_flags & ACCOUNT_IN_RECEIVERSHIP != 0
}
