//! C12 monitor (Level B, real dispatch): field-level frame of every delegated / per-bank admin
//! instruction against the role's allowed field mask, on frozen and unfrozen banks; "nobody can lift
//! the freeze"; the deleverage daily window on the real `update_withdrawn_equity`.
use crate::fam_admin::{gen_opt, Cfg};
use crate::mon::Report;
use crate::rng::Rng;
use crate::scen::Scen;
use crate::world::ix;
use anchor_lang::prelude::Pubkey;
use anchor_lang::{InstructionData, ToAccountMetas};
use fixed::types::I80F48;
use marginfi::state::marginfi_group::MarginfiGroupImpl;
use marginfi_type_crate::constants::{
    EMISSIONS_FLAG_BORROW_ACTIVE, EMISSIONS_FLAG_LENDING_ACTIVE, EMISSIONS_TOKEN_ACCOUNT_SEED, FREEZE_SETTINGS,
    PERMISSIONLESS_BAD_DEBT_SETTLEMENT_FLAG, TOKENLESS_REPAYMENTS_ALLOWED,
};
use marginfi_type_crate::types::{Bank, MarginfiGroup};
use solana_program::instruction::Instruction;

const EMISSION_BITS: u64 = EMISSIONS_FLAG_BORROW_ACTIVE | EMISSIONS_FLAG_LENDING_ACTIVE;

fn same_except(pre: &Bank, post: &Bank, allow: impl Fn(&mut Bank, &Bank)) -> bool {
    let mut p = *pre;
    allow(&mut p, post);
    bytemuck::bytes_of(&p) == bytemuck::bytes_of(post)
}

fn update_emissions_ix(s: &Scen, b: usize, signer: Pubkey, mint: Pubkey, funding: Pubkey, flags: Option<u64>, rate: Option<u64>, add: Option<u64>) -> Instruction {
    let h = &s.banks[b];
    let (tok, _) = Pubkey::find_program_address(&[EMISSIONS_TOKEN_ACCOUNT_SEED.as_bytes(), h.bank.as_ref(), mint.as_ref()], &marginfi::ID);
    Instruction {
        program_id: marginfi::ID,
        accounts: marginfi::accounts::LendingPoolUpdateEmissionsParameters {
            group: h.group,
            delegate_emissions_admin: signer,
            bank: h.bank,
            emissions_mint: mint,
            emissions_token_account: tok,
            emissions_funding_account: funding,
            token_program: s.w.token_program_of(&mint),
        }
        .to_account_metas(None),
        data: marginfi::instruction::LendingPoolUpdateEmissionsParameters { emissions_flags: flags, emissions_rate: rate, additional_emissions: add }.data(),
    }
}

pub fn run(rng: &mut Rng, n: usize, rep: &mut Report) {
    // the permissionless migrate_curve on frozen banks (shared with the C18 monitor; here only the freeze clause is judged)
    crate::mon_c18::migrate_block(rng, (n / 40).max(6), rep, true);
    metadata_block(rng, (n / 60).max(3), rep);
    foreign_group_block(rng, (n / 60).max(3), rep);
    genesis_block(rng, (n / 60).max(3), rep);
    run_with(rng, n, rep, &mut None)
}

/// Where every role starts: the REAL init_global_fee_state and marginfi_group_initialize through dispatch on an empty world
/// (accounts really `init`ed through the System Program stub). The fee state names exactly the admin and wallet given; a new
/// group has exactly one role holder - the admin who signed - and no delegate at all, program fees on, no bank, no pause, the
/// fee cache a copy of the fee state; neither can be initialised twice, a group cannot be bound to a look-alike fee state,
/// and in the new group a stranger can configure nothing while the admin can.
fn genesis_block(rng: &mut Rng, rounds: usize, rep: &mut Report) {
    use anchor_lang::{InstructionData, ToAccountMetas};
    use marginfi_type_crate::types::{FeeState, MarginfiGroup};
    use solana_program::instruction::Instruction;
    for _ in 0..rounds {
        crate::world::install_stubs();
        let mut w = crate::world::World::new();
        w.set_clock(1_700_000_000 + rng.range(0, 1_000_000), 1000);
        let payer = w.add_wallet(100_000_000_000);
        let fee_admin = w.add_wallet(1_000_000_000);
        let fee_wallet = w.add_wallet(0);
        let stranger = w.add_wallet(10_000_000_000);
        let (fs_key, fs_bump) = crate::world::fixtures::fee_state_pda();
        let (flat, liq_flat) = (rng.below(1_000_000) as u32, rng.below(1_000_000) as u32);
        let (pf, pr, lm) = (I80F48::from_bits(rng.below(1 << 46) as i128), I80F48::from_bits(rng.below(1 << 46) as i128), I80F48::from_bits(rng.below(1 << 47) as i128));
        let init_fs = |fee_state: Pubkey| Instruction {
            program_id: marginfi::ID,
            accounts: marginfi::accounts::InitFeeState { payer, fee_state, system_program: solana_program::system_program::ID }.to_account_metas(None),
            data: marginfi::instruction::InitGlobalFeeState {
                admin: fee_admin, fee_wallet, bank_init_flat_sol_fee: flat, liquidation_flat_sol_fee: liq_flat,
                program_fee_fixed: pf.into(), program_fee_rate: pr.into(), liquidation_max_fee: lm.into(),
            }.data(),
        };
        rep.bump("cases");
        rep.bump("genesis_rounds");
        // a fee state anywhere but at the PDA is refused
        {
            let other = w.new_key();
            let before = w.accounts.clone();
            if w.exec(&init_fs(other)).is_ok() { rep.fail("C08 init_global_fee_state created a fee state at an address that is not the program's PDA".to_string()); }
            else if w.accounts != before { rep.fail("C08 a refused init_global_fee_state changed the store".to_string()); }
        }
        if let Err(e) = w.exec(&init_fs(fs_key)) {
            rep.fail(format!("C12 init_global_fee_state refused on an empty world: {}", e));
            continue;
        }
        let fs = w.fee_state(&fs_key);
        let mut expect: FeeState = bytemuck::Zeroable::zeroed();
        expect.key = fs_key;
        expect.global_fee_admin = fee_admin;
        expect.global_fee_wallet = fee_wallet;
        expect.bank_init_flat_sol_fee = flat;
        expect.liquidation_flat_sol_fee = liq_flat;
        expect.bump_seed = fs_bump;
        expect.program_fee_fixed = pf.into();
        expect.program_fee_rate = pr.into();
        expect.liquidation_max_fee = lm.into();
        if bytemuck::bytes_of(&fs) != bytemuck::bytes_of(&expect) {
            rep.fail(format!("C12 the fee state created by init_global_fee_state is not exactly what was asked for: admin ok {}, wallet ok {}, key ok {}, bump ok {}, fees ok {}, pause flags {}",
                fs.global_fee_admin == fee_admin, fs.global_fee_wallet == fee_wallet, fs.key == fs_key, fs.bump_seed == fs_bump,
                fs.bank_init_flat_sol_fee == flat && fs.liquidation_flat_sol_fee == liq_flat, fs.panic_state.pause_flags));
        }
        // once only: whoever calls it again (the stranger, with himself as the admin) is refused
        {
            let before = w.accounts.clone();
            let again = Instruction {
                program_id: marginfi::ID,
                accounts: marginfi::accounts::InitFeeState { payer: stranger, fee_state: fs_key, system_program: solana_program::system_program::ID }.to_account_metas(None),
                data: marginfi::instruction::InitGlobalFeeState { admin: stranger, fee_wallet: stranger, bank_init_flat_sol_fee: 0, liquidation_flat_sol_fee: 0,
                    program_fee_fixed: I80F48::ZERO.into(), program_fee_rate: I80F48::ZERO.into(), liquidation_max_fee: I80F48::ZERO.into() }.data(),
            };
            if w.exec(&again).is_ok() { rep.fail("C08 init_global_fee_state succeeded a second time: a stranger replaced the global fee admin and wallet".to_string()); }
            else if w.accounts != before { rep.fail("C08 a refused second init_global_fee_state changed the store".to_string()); }
        }
        // ---- a group
        let admin = w.add_wallet(10_000_000_000);
        let gkey = w.new_key();
        let init_group = |marginfi_group: Pubkey, admin: Pubkey, fee_state: Pubkey| Instruction {
            program_id: marginfi::ID,
            accounts: marginfi::accounts::MarginfiGroupInitialize { marginfi_group, admin, fee_state, system_program: solana_program::system_program::ID }.to_account_metas(None),
            data: marginfi::instruction::MarginfiGroupInitialize {}.data(),
        };
        // bound to a look-alike fee state (same bytes, another address): refused
        {
            let fake = w.new_key();
            let a = w.get(&fs_key).unwrap().clone();
            w.accounts.insert(fake, a);
            let before = w.accounts.clone();
            if w.exec(&init_group(gkey, admin, fake)).is_ok() { rep.fail("C08 marginfi_group_initialize accepted a look-alike fee state that is not the program's PDA".to_string()); }
            else if w.accounts != before { rep.fail("C08 a refused marginfi_group_initialize changed the store".to_string()); }
            w.accounts.remove(&fake);
        }
        // the admin must sign
        {
            let mut ixn = init_group(gkey, admin, fs_key);
            for m in ixn.accounts.iter_mut() { if m.pubkey == admin { m.is_signer = false; } }
            let before = w.accounts.clone();
            if w.exec(&ixn).is_ok() { rep.fail("C08 marginfi_group_initialize made a key the admin of a new group without its signature".to_string()); }
            else if w.accounts != before { rep.fail("C08 a refused marginfi_group_initialize changed the store".to_string()); }
        }
        let now = w.clock_ts;
        if let Err(e) = w.exec(&init_group(gkey, admin, fs_key)) {
            rep.fail(format!("C12 marginfi_group_initialize refused for a plain new group: {}", e));
            continue;
        }
        let g = w.group(&gkey);
        let mut eg: MarginfiGroup = bytemuck::Zeroable::zeroed();
        eg.admin = admin;
        eg.group_flags = 1; // PROGRAM_FEES_ENABLED
        eg.fee_state_cache.global_fee_wallet = fee_wallet;
        eg.fee_state_cache.program_fee_fixed = pf.into();
        eg.fee_state_cache.program_fee_rate = pr.into();
        eg.fee_state_cache.last_update = now;
        // the two leverage caps are the documented defaults (15x / 20x, stored as hundredths of u32::MAX); everything else is compared exactly
        let near = |raw: u32, lev: u64| -> bool { let want = (lev as u128 * u32::MAX as u128 / 100) as i128; (raw as i128 - want).abs() <= 2 };
        let caps_ok = near(g.emode_max_init_leverage, 15) && near(g.emode_max_maint_leverage, 20);
        eg.emode_max_init_leverage = g.emode_max_init_leverage;
        eg.emode_max_maint_leverage = g.emode_max_maint_leverage;
        if bytemuck::bytes_of(&g) != bytemuck::bytes_of(&eg) || !caps_ok {
            let line = format!("a freshly initialised group is not the empty group of its signer: admin ok {}, delegates all unset {}, flags {:#x} (expected 0x1), banks {}, fee cache ok {}, pause flags {}, leverage caps ok {}",
                g.admin == admin,
                [g.emode_admin, g.delegate_curve_admin, g.delegate_limit_admin, g.delegate_emissions_admin, g.risk_admin, g.metadata_admin].iter().all(|k| *k == Pubkey::default()),
                g.group_flags, g.banks,
                g.fee_state_cache.global_fee_wallet == fee_wallet && g.fee_state_cache.last_update == now,
                g.panic_state_cache.pause_flags, caps_ok);
            rep.fail(format!("C12 {}", line));
            rep.fail(format!("C08 {}", line));
        }
        // once only
        {
            let before = w.accounts.clone();
            if w.exec(&init_group(gkey, stranger, fs_key)).is_ok() { rep.fail("C08 marginfi_group_initialize succeeded on an existing group: a stranger became its admin".to_string()); }
            else if w.accounts != before { rep.fail("C08 a refused marginfi_group_initialize changed the store".to_string()); }
        }
        // roles in the new group: a stranger configures nothing, the admin does
        {
            let d = Pubkey::default();
            let before = w.accounts.clone();
            if w.exec(&ix::group_configure(gkey, stranger, stranger, d, d, d, d, d, d, None, None)).is_ok() {
                rep.fail("C08 a stranger re-configured a freshly initialised group".to_string());
            } else if w.accounts != before { rep.fail("C08 a refused marginfi_group_configure changed the store".to_string()); }
            let risk = w.add_wallet(1_000_000_000);
            if w.exec(&ix::group_configure(gkey, admin, admin, d, d, d, d, d, risk, None, None)).is_err() {
                rep.fail("C12 the admin of a freshly initialised group cannot configure it".to_string());
            } else if w.group(&gkey).risk_admin != risk || w.group(&gkey).admin != admin {
                rep.fail("C12 marginfi_group_configure on a freshly initialised group did not assign the roles named".to_string());
            }
        }
    }
}

/// family `liteix`: one line per REAL lending_pool_configure_bank_interest_only / _limits_only executed by this monitor
pub fn gen(rng: &mut Rng, n: usize, out: &mut Vec<String>) {
    let mut guard = 0;
    while out.len() < n && guard < 400 {
        guard += 1;
        let mut scratch = Report::default();
        let mut part: Option<Vec<String>> = Some(vec![]);
        run_with(rng, 60, &mut scratch, &mut part);
        out.extend(part.unwrap());
    }
    out.truncate(n);
}

pub fn run_with(rng: &mut Rng, n: usize, rep: &mut Report, lines: &mut Option<Vec<String>>) {
    let mut cells = 0;
    while cells < n {
        let mut s = Scen::build(rng);
        let curve = s.w.add_wallet(1_000_000_000);
        let limit = s.w.add_wallet(1_000_000_000);
        let emis = s.w.add_wallet(1_000_000_000);
        let other = s.w.add_wallet(1_000_000_000);
        let g = s.group;
        s.w.set_group_admins(&g, other, curve, limit, emis, other, other);
        // emissions fixture on bank 0: mint + funded PDA token account + funding account
        let emint = s.w.add_mint(crate::world::TokenKind::Spl, 6);
        let bkey = s.banks[0].bank;
        let (etok, _) = Pubkey::find_program_address(&[EMISSIONS_TOKEN_ACCOUNT_SEED.as_bytes(), bkey.as_ref(), emint.as_ref()], &marginfi::ID);
        let (eauth, _) = Pubkey::find_program_address(&[marginfi_type_crate::constants::EMISSIONS_AUTH_SEED.as_bytes(), bkey.as_ref(), emint.as_ref()], &marginfi::ID);
        s.w.add_token_account_at(etok, emint, eauth, 0);
        let funding = s.w.add_token_account(emint, emis, 1_000_000_000_000);
        {
            let mut b = s.w.bank(&bkey);
            b.emissions_mint = emint;
            s.w.set_bank(&bkey, &b);
        }
        for frozen in [false, true] {
            for _rep in 0..6 {
                // random flag word incl. unrelated bits
                let pre_flags: u64 = (rng.below(128) & !FREEZE_SETTINGS) | if frozen { FREEZE_SETTINGS } else { 0 } | 16;
                let mut b = s.w.bank(&bkey);
                b.flags = pre_flags;
                s.w.set_bank(&bkey, &b);
                let pre = s.w.bank(&bkey);
                let h = s.banks[0];

                // ---- full configure by the group admin
                {
                    let c = Cfg::from_bank(&pre);
                    let og = gen_opt(rng, &c);
                    let mut w = s.w.clone();
                    let r = w.exec(&ix::configure_bank(&h, s.admin, og.opt.clone()));
                    cells += 1;
                    rep.bump("cases");
                    if r.is_ok() {
                        rep.bump("configure_ok");
                        let post = w.bank(&bkey);
                        let ok = if frozen {
                            same_except(&pre, &post, |p, q| {
                                p.config.deposit_limit = q.config.deposit_limit;
                                p.config.borrow_limit = q.config.borrow_limit;
                            })
                        } else {
                            same_except(&pre, &post, |p, q| {
                                p.config = q.config;
                                p.config.oracle_setup = pre.config.oracle_setup;
                                p.config.oracle_keys = pre.config.oracle_keys;
                                p.config.fixed_price = pre.config.fixed_price;
                                p.config.config_flags = pre.config.config_flags;
                                let m = PERMISSIONLESS_BAD_DEBT_SETTLEMENT_FLAG | FREEZE_SETTINGS | TOKENLESS_REPAYMENTS_ALLOWED;
                                p.flags = (p.flags & !m) | (q.flags & m);
                            })
                        };
                        if !ok {
                            rep.fail(format!("configure_bank (frozen={}) changed fields outside its remit; opt line [{}]", frozen, og.line));
                        }
                        if frozen && post.flags & FREEZE_SETTINGS == 0 {
                            rep.fail(format!("freeze lifted by configure_bank; opt line [{}]", og.line));
                        }
                        if state_killed(&post) != state_killed(&pre) {
                            rep.fail(format!("configure_bank moved the bank {} the killed state; opt line [{}]", if state_killed(&post) { "into" } else { "out of" }, og.line));
                        }
                    }
                }
                // ---- interest-only by the curve admin
                {
                    let c = Cfg::from_bank(&pre);
                    let og = gen_opt(rng, &c);
                    if let Some(iro) = og.opt.interest_rate_config.clone() {
                        let mut w = s.w.clone();
                        let r = w.exec(&ix::configure_bank_interest_only(&h, curve, iro));
                        if let Some(v) = lines.as_mut() {
                            let head = format!("adm.ixir {} {} {}", c.line(), pre.flags, og.line);
                            match &r {
                                Ok(()) => v.push(format!("{} => ok {}", head, Cfg::from_bank(&w.bank(&bkey)).line())),
                                Err(e) => if let Some(code) = e.code() { v.push(format!("{} => err {}", head, code)) },
                            }
                        }
                        cells += 1;
                        rep.bump("cases");
                        if r.is_ok() {
                            rep.bump("interest_only_ok");
                            let post = w.bank(&bkey);
                            let ok = if frozen { bytemuck::bytes_of(&pre) == bytemuck::bytes_of(&post) } else { same_except(&pre, &post, |p, q| p.config.interest_rate_config = q.config.interest_rate_config) };
                            if !ok {
                                rep.fail(format!("configure_bank_interest_only (frozen={}) changed fields outside its remit", frozen));
                            }
                        }
                    }
                }
                // ---- limits-only by the limit admin
                {
                    let mut w = s.w.clone();
                    let (d, bl, il) = (Some(rng.u64_mixed()), if rng.chance(1, 2) { Some(rng.u64_mixed()) } else { None }, Some(rng.u64_mixed()));
                    let r = w.exec(&ix::configure_bank_limits_only(&h, limit, d, bl, il));
                    if let Some(v) = lines.as_mut() {
                        let o = |x: Option<u64>| match x { Some(y) => format!("1 {}", y), None => "0 0".to_string() };
                        let head = format!("adm.ixlim {} {} {} {} {}", Cfg::from_bank(&pre).line(), pre.flags, o(d), o(bl), o(il));
                        if r.is_ok() {
                            v.push(format!("{} => ok {}", head, Cfg::from_bank(&w.bank(&bkey)).line()));
                        }
                    }
                    cells += 1;
                    rep.bump("cases");
                    if r.is_ok() {
                        rep.bump("limits_only_ok");
                        let post = w.bank(&bkey);
                        let ok = same_except(&pre, &post, |p, q| {
                            p.config.deposit_limit = q.config.deposit_limit;
                            p.config.borrow_limit = q.config.borrow_limit;
                            if !frozen {
                                p.config.total_asset_value_init_limit = q.config.total_asset_value_init_limit;
                            }
                        });
                        if !ok {
                            rep.fail(format!("configure_bank_limits_only (frozen={}) changed fields outside its remit", frozen));
                        }
                    }
                }
                // ---- emissions parameters by the emissions admin, any 64-bit flag word
                {
                    let f: u64 = match rng.below(5) {
                        0 => rng.below(4),
                        1 => rng.below(128),
                        2 => rng.next(),
                        3 => FREEZE_SETTINGS | rng.below(4),
                        _ => 0,
                    };
                    let mut w = s.w.clone();
                    let r = w.exec(&update_emissions_ix(&s, 0, emis, emint, funding, Some(f), Some(rng.below(1_000_000)), if rng.chance(1, 2) { Some(rng.below(1_000_000)) } else { None }));
                    cells += 1;
                    rep.bump("cases");
                    if r.is_ok() {
                        rep.bump("emissions_ok");
                        let post = w.bank(&bkey);
                        let ok = same_except(&pre, &post, |p, q| {
                            p.emissions_rate = q.emissions_rate;
                            p.emissions_remaining = q.emissions_remaining;
                            p.emissions_mint = q.emissions_mint;
                            p.flags = (p.flags & !EMISSION_BITS) | (q.flags & EMISSION_BITS);
                        });
                        if !ok {
                            rep.fail(format!(
                                "emissions-admin-changes-other-flags: update_emissions_parameters(flags={:#x}) turned bank.flags {:#x} into {:#x} (only the two emission bits are in the emissions admin's remit){}",
                                f, pre.flags, post.flags, if frozen && post.flags & FREEZE_SETTINGS == 0 { "; FREEZE_SETTINGS was lifted" } else { "" }
                            ));
                        }
                    }
                }
                // ---- FIRST emissions setup by the emissions admin on a bank that has none yet (bank 1), any 64-bit flag word,
                //      through the real instruction (it creates the emissions token account): only the emissions fields and the two
                //      emission bits may change; a flag word outside those bits must be refused
                if s.banks.len() > 1 {
                    let h1 = s.banks[1];
                    let pre1 = s.w.bank(&h1.bank);
                    if pre1.emissions_mint == Pubkey::default() {
                        let f: u64 = match rng.below(5) {
                            0 => rng.below(4),
                            1 => rng.below(128),
                            2 => rng.next(),
                            3 => (FREEZE_SETTINGS | PERMISSIONLESS_BAD_DEBT_SETTLEMENT_FLAG | TOKENLESS_REPAYMENTS_ALLOWED) & rng.next() | rng.below(4),
                            _ => 4 | rng.below(4),
                        };
                        let mut w = s.w.clone();
                        let signer = if rng.chance(1, 6) { other } else { emis };
                        let r = w.exec(&ix::setup_emissions(&h1, signer, emint, funding, w.token_program_of(&emint), f, rng.below(1_000_000), rng.below(1_000_000)));
                        cells += 1;
                        rep.bump("cases");
                        match r {
                            Ok(()) => {
                                rep.bump("setup_emissions_ok");
                                let post = w.bank(&h1.bank);
                                let ok = same_except(&pre1, &post, |p, q| {
                                    p.emissions_rate = q.emissions_rate;
                                    p.emissions_remaining = q.emissions_remaining;
                                    p.emissions_mint = q.emissions_mint;
                                    p.flags = (p.flags & !EMISSION_BITS) | (q.flags & EMISSION_BITS);
                                });
                                if post.flags & !EMISSION_BITS != pre1.flags & !EMISSION_BITS || signer != emis {
                                    rep.fail(format!(
                                        "C08 a bank flag outside the emissions admin's role was changed through lending_pool_setup_emissions(flags={:#x}) signed by {}: {:#x} -> {:#x} (PERMISSIONLESS_BAD_DEBT_SETTLEMENT / FREEZE_SETTINGS / TOKENLESS_REPAYMENTS_* are set only by instructions that name the group admin)",
                                        f, if signer == emis { "the emissions admin" } else { "a key that holds no role for it" }, pre1.flags, post.flags
                                    ));
                                }
                                if !ok || signer != emis {
                                    rep.fail(format!(
                                        "emissions-admin-changes-other-flags: lending_pool_setup_emissions(flags={:#x}) signed by {} turned bank.flags {:#x} into {:#x} (only the emissions fields and the two emission bits are in the emissions admin's remit)",
                                        f, if signer == emis { "the emissions admin" } else { "ANOTHER KEY" }, pre1.flags, post.flags
                                    ));
                                }
                            }
                            Err(_) => {
                                rep.bump("setup_emissions_refused");
                                if f & !EMISSION_BITS == 0 && signer == emis {
                                    rep.bump("setup_emissions_refused_with_plain_flags");
                                }
                            }
                        }
                    }
                }
                // ---- oracle instructions must not touch a frozen bank
                if frozen {
                    let mut w = s.w.clone();
                    let r = w.exec(&ix::set_fixed_oracle_price(&h, s.admin, I80F48::from_num(3).into()));
                    cells += 1;
                    rep.bump("cases");
                    if r.is_ok() || bytemuck::bytes_of(&w.bank(&bkey)) != bytemuck::bytes_of(&pre) {
                        rep.fail("set_fixed_oracle_price changed a frozen bank".to_string());
                    }
                }
            }
        }
        // ---- a bank killed by bankruptcy must stay killed whatever the admin submits (C07 / C13)
        {
            use marginfi_type_crate::types::{BankConfigOpt, BankOperationalState};
            let h = s.banks[0];
            let mut b = s.w.bank(&bkey);
            b.flags &= !FREEZE_SETTINGS;
            b.config.operational_state = BankOperationalState::KilledByBankruptcy;
            s.w.set_bank(&bkey, &b);
            for st in [BankOperationalState::Operational, BankOperationalState::Paused, BankOperationalState::ReduceOnly] {
                let mut w = s.w.clone();
                let r = w.exec(&ix::configure_bank(&h, s.admin, BankConfigOpt { operational_state: Some(st), ..Default::default() }));
                cells += 1;
                rep.bump("cases");
                if w.bank(&bkey).config.operational_state != BankOperationalState::KilledByBankruptcy {
                    rep.fail(format!("killed-bank-revived: configure_bank(operational_state = {:?}) took a bank out of KilledByBankruptcy (result {:?})", st, r.map_err(|e| e.to_string())));
                }
            }
            b.config.operational_state = BankOperationalState::Operational;
            s.w.set_bank(&bkey, &b);
        }
        // ---- deleverage window on the real group method: whole-dollar sum within a window ≤ non-zero limit
        for _ in 0..50 {
            let mut g = MarginfiGroup::default();
            let limit = *rng.pick(&[1u32, 100, 5000, u32::MAX]);
            g.deleverage_withdraw_window_cache.daily_limit = limit;
            let mut now = 1_700_000_000i64;
            g.deleverage_withdraw_window_cache.last_daily_reset_timestamp = now;
            let mut window_start = now;
            let mut sum: u128 = 0;
            let mut hist: Vec<String> = vec![];
            for _ in 0..12 {
                now += *rng.pick(&[0i64, 10, 3600, 86399, 86400]);
                let dollars: u128 = match rng.below(6) {
                    0 => (1u128 << 32) + rng.below(10) as u128,
                    1 => (1u128 << 33) + 3,
                    _ => rng.below((limit as u64).min(10_000) + 5) as u128,
                };
                let v = I80F48::from_bits(((dollars << 48) as i128) + rng.below(1 << 48) as i128);
                let r = std::panic::catch_unwind(std::panic::AssertUnwindSafe(|| g.clone_window().update_withdrawn_equity(v, now)));
                let ok = matches!(r, Ok(Ok(())));
                hist.push(format!("t+{} ${} {}", now - 1_700_000_000, dollars, if ok { "ok" } else { "refused" }));
                cells += 1;
                rep.bump("cases");
                if ok {
                    let _ = g.update_withdrawn_equity(v, now);
                    // the day (window) is counted from the first ACCEPTED withdrawal at least 24 h after the start of the
                    // previous one: a refused call is rolled back with its transaction and leaves no trace
                    if now - window_start >= 86400 {
                        window_start = now;
                        sum = 0;
                    }
                    sum += dollars;
                    if sum > limit as u128 {
                        rep.fail(format!("deleverage-window-wraps: whole-dollar withdrawals {} within one day exceed the daily limit {} (last value {} dollars accepted); history {:?}", sum, limit, dollars, hist));
                        break;
                    }
                }
            }
        }
        rep.sample(format!("frames on bank with flags/frozen variants"));
    }
}

fn state_killed(b: &Bank) -> bool {
    b.config.operational_state == marginfi_type_crate::types::BankOperationalState::KilledByBankruptcy
}

trait CloneWindow {
    fn clone_window(&self) -> MarginfiGroup;
}
impl CloneWindow for MarginfiGroup {
    fn clone_window(&self) -> MarginfiGroup {
        let mut g = MarginfiGroup::default();
        g.deleverage_withdraw_window_cache = self.deleverage_withdraw_window_cache;
        g
    }
}


/// "the metadata admin only metadata": the REAL init_bank_metadata (PDA really `init`ed) and write_bank_metadata through
/// dispatch, by every role: only the group's metadata admin may write, a write changes nothing but the metadata account
/// of THAT bank (bank, group and every other account byte-identical), over-long strings and another bank's metadata
/// account are refused
fn metadata_block(rng: &mut Rng, n: usize, rep: &mut Report) {
    use anchor_lang::{InstructionData, ToAccountMetas};
    for _ in 0..n {
        let mut s = Scen::build(rng);
        let meta_admin = s.w.add_wallet(1_000_000_000);
        let other = s.w.add_wallet(1_000_000_000);
        let g = s.group;
        let gr = s.w.group(&g);
        s.w.set_group_admins(&g, gr.emode_admin, gr.delegate_curve_admin, gr.delegate_limit_admin, gr.delegate_emissions_admin, gr.risk_admin, meta_admin);
        let mut metas: Vec<Pubkey> = vec![];
        for h in s.banks.clone().iter().take(2) {
            let (mkey, _) = Pubkey::find_program_address(&[marginfi_type_crate::constants::METADATA_SEED.as_bytes(), h.bank.as_ref()], &marginfi::ID);
            let ixn = solana_program::instruction::Instruction {
                program_id: marginfi::ID,
                accounts: marginfi::accounts::InitBankMetadata { bank: h.bank, fee_payer: other, metadata: mkey, system_program: solana_program::system_program::ID }.to_account_metas(None),
                data: marginfi::instruction::InitBankMetadata {}.data(),
            };
            let bank_before = s.w.accounts.get(&h.bank).cloned();
            if s.w.exec(&ixn).is_err() { rep.bump("metadata_init_failed"); return; }
            if s.w.accounts.get(&h.bank).cloned() != bank_before {
                rep.fail("init_bank_metadata changed the bank account".to_string());
            }
            metas.push(mkey);
        }
        let h = s.banks[0];
        for _ in 0..8 {
            rep.bump("cases");
            let (who, signer) = match rng.below(5) { 0 | 1 => ("metadata-admin", meta_admin), 2 => ("group-admin", s.admin), 3 => ("risk-admin", gr.risk_admin), _ => ("stranger", other) };
            let tlen = match rng.below(5) { 0 => 0usize, 1 => 64, 2 => 65, 3 => 1, _ => rng.below(64) as usize };
            let dlen = match rng.below(5) { 0 => 0usize, 1 => 128, 2 => 129, 3 => 1, _ => rng.below(128) as usize };
            let ticker: Option<Vec<u8>> = if rng.chance(3, 4) { Some((0..tlen).map(|i| b'A' + (i % 26) as u8).collect()) } else { None };
            let description: Option<Vec<u8>> = if rng.chance(3, 4) { Some((0..dlen).map(|i| b'a' + (i % 26) as u8).collect()) } else { None };
            let cross = rng.chance(1, 6); // another bank's metadata account
            let mkey = if cross { metas[1] } else { metas[0] };
            let ixn = solana_program::instruction::Instruction {
                program_id: marginfi::ID,
                accounts: marginfi::accounts::WriteBankMetadata { group: g, bank: h.bank, metadata_admin: signer, metadata: mkey }.to_account_metas(None),
                data: marginfi::instruction::WriteBankMetadata { ticker: ticker.clone(), description: description.clone() }.data(),
            };
            let before = s.w.accounts.clone();
            let r = s.w.exec(&ixn);
            let desc = format!("write_bank_metadata by {} (ticker {:?} bytes, description {:?} bytes{})", who, ticker.as_ref().map(|v| v.len()), description.as_ref().map(|v| v.len()), if cross { ", ANOTHER bank's metadata account" } else { "" });
            match r {
                Err(_) => {
                    rep.bump("metadata_refused");
                    if s.w.accounts != before { rep.fail(format!("C08 a refused {} changed the account store", desc)); }
                    let too_long = ticker.as_ref().map(|v| v.len() > 64).unwrap_or(false) || description.as_ref().map(|v| v.len() > 128).unwrap_or(false);
                    if who == "metadata-admin" && !cross && !too_long {
                        rep.fail(format!("the metadata admin's {} was refused", desc));
                    }
                }
                Ok(()) => {
                    rep.bump("metadata_written");
                    if who != "metadata-admin" {
                        rep.fail(format!("C08 {} ACCEPTED: only the group's metadata admin may write bank metadata", desc));
                    }
                    if cross {
                        rep.fail(format!("C08 {} ACCEPTED: the metadata account belongs to another bank", desc));
                    }
                    // nothing but the metadata account of this bank (and lamports of nobody) changed
                    for (k, a) in before.iter() {
                        if *k != mkey && s.w.accounts.get(k) != Some(a) {
                            rep.fail(format!("metadata-admin-changes-other-state: {} changed account {} (only the bank's metadata account may change)", desc, k));
                        }
                    }
                    let too_long = ticker.as_ref().map(|v| v.len() > 64).unwrap_or(false) || description.as_ref().map(|v| v.len() > 128).unwrap_or(false);
                    if too_long {
                        rep.fail(format!("{} ACCEPTED although a string exceeds the field", desc));
                    }
                }
            }
        }
    }
}


/// every role is a role OF A GROUP: somebody who administers a group of his own (anyone can create one) passes that group
/// — with himself in every admin seat — to the per-bank administrative instructions, aimed at a bank of ANOTHER group:
/// all of them must be refused and leave the victim bank byte-identical. For the e-mode clone he also owns a source bank
/// with aggressive entries (validated against HIS group's caps).
fn foreign_group_block(rng: &mut Rng, n: usize, rep: &mut Report) {
    use anchor_lang::{InstructionData, ToAccountMetas};
    use marginfi_type_crate::types::{BankConfigOpt, InterestRateConfigOpt};
    for _ in 0..n {
        let mut s = Scen::build(rng);
        let outsider = s.w.add_wallet(10_000_000_000);
        let own_group = s.w.add_group(outsider);
        // his own bank (same mint as the victim's, any valid configuration) with e-mode entries
        let victim = s.banks[rng.below(s.banks.len() as u64) as usize];
        let own = s.w.add_bank(own_group, victim.mint, crate::world::fixtures::bank_config_fixed(I80F48::from_num(1)));
        {
            let mut b = s.w.bank(&own.bank);
            b.emode.emode_tag = 7;
            b.emode.emode_config.entries[0] = marginfi_type_crate::types::EmodeEntry {
                collateral_bank_emode_tag: 3, flags: 0, pad0: [0; 5],
                asset_weight_init: I80F48::from_num(0.9).into(), asset_weight_maint: I80F48::from_num(0.95).into(),
            };
            b.emode.flags |= marginfi_type_crate::types::EMODE_ON;
            s.w.set_bank(&own.bank, &b);
        }
        let foreign = crate::world::fixtures::BankHandle { group: own_group, ..victim };
        let probes: Vec<(&str, solana_program::instruction::Instruction)> = vec![
            ("lending_pool_configure_bank", ix::configure_bank(&foreign, outsider, BankConfigOpt { deposit_limit: Some(1), ..Default::default() })),
            ("lending_pool_configure_bank_interest_only", ix::configure_bank_interest_only(&foreign, outsider, InterestRateConfigOpt { insurance_fee_fixed_apr: Some(I80F48::from_num(0.01).into()), ..Default::default() })),
            ("lending_pool_configure_bank_limits_only", ix::configure_bank_limits_only(&foreign, outsider, Some(1), Some(1), None)),
            ("lending_pool_configure_bank_emode", solana_program::instruction::Instruction {
                program_id: marginfi::ID,
                accounts: marginfi::accounts::LendingPoolConfigureBankEmode { group: own_group, emode_admin: outsider, bank: victim.bank }.to_account_metas(None),
                data: marginfi::instruction::LendingPoolConfigureBankEmode { emode_tag: 9, entries: s.w.bank(&own.bank).emode.emode_config.entries }.data(),
            }),
            ("lending_pool_clone_emode", solana_program::instruction::Instruction {
                program_id: marginfi::ID,
                accounts: marginfi::accounts::LendingPoolCloneEmode { group: own_group, signer: outsider, copy_from_bank: own.bank, copy_to_bank: victim.bank }.to_account_metas(None),
                data: marginfi::instruction::LendingPoolCloneEmode {}.data(),
            }),
        ];
        // more instructions that name (group, role) and a bank or an ACCOUNT of this group: the outsider holds every role of
        // his own group (a fresh group's delegates are unset; he assigns them to himself through the real configure)
        let d = outsider;
        let _ = s.w.exec(&ix::group_configure(own_group, outsider, outsider, d, d, d, d, d, d, None, None));
        let user_acct = s.users[rng.below(s.users.len() as u64) as usize].acct;
        let tok = s.w.add_token_account(victim.mint, outsider, 0);
        let mut probes = probes;
        probes.push(("marginfi_account_set_freeze (freeze)", ix::set_freeze(own_group, user_acct, outsider, true)));
        probes.push(("lending_pool_set_fixed_oracle_price", ix::set_fixed_oracle_price(&foreign, outsider, I80F48::from_num(1000).into())));
        probes.push(("lending_pool_force_tokenless_repay_complete", ix::force_tokenless_repay_complete(&foreign, outsider)));
        probes.push(("lending_pool_withdraw_fees", ix::withdraw_fees(&foreign, outsider, tok, 1)));
        probes.push(("lending_pool_withdraw_insurance", ix::withdraw_insurance(&foreign, outsider, tok, 1)));
        probes.push(("start_deleverage", ix::start_deleverage(own_group, user_acct, outsider, s.w.remaining_in_slot_order(&user_acct))));
        for (name, ixn) in probes {
            rep.bump("cases");
            let before = s.w.accounts.clone();
            let r = s.w.exec(&ixn);
            rep.bump(if r.is_ok() { "foreign_group_accepted" } else { "foreign_group_refused" });
            if r.is_ok() {
                let changed = before.get(&victim.bank) != s.w.accounts.get(&victim.bank) || before.get(&user_acct) != s.w.accounts.get(&user_acct);
                rep.fail(format!("foreign-group-admin: {} signed by the admin of ANOTHER group (passed as `group`) was ACCEPTED on this group's bank / account{}", name, if changed { " and changed it" } else { "" }));
                rep.fail(format!("C08 {} accepted a group (and that group's role holder as signer) that the bank / account does not belong to", name));
                s.w.accounts = before;
            } else if s.w.accounts != before {
                rep.fail(format!("C08 a refused {} changed the account store", name));
            }
        }
    }
}
