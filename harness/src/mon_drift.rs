//! Monitor "DRF" (Level B, real dispatch): lending_pool_add_bank_drift, drift_deposit, drift_withdraw executed for real
//! against a Drift stand-in in the world's CPI dispatcher (world/stubs.rs, `drift_process`; same status as the Kamino one:
//! Drift's documented effect on the accounts marginfi reads afterwards, exact integers, can be told to misbehave).
//!
//! Judged with this monitor's own arithmetic on the store's bytes:
//!   C02/C01  position and bank total move by exactly the scaled balance that entered / left the bank's Drift user account;
//!            the positions never exceed the scaled balance that account holds; the intermediary vault keeps nothing
//!   C03      a deposit takes exactly `amount`; a withdrawal pays exactly what Drift released, never more than the exact
//!            value of the scaled balance given up
//!   C20      a venue that credits / debits another scaled balance or releases another token amount than announced makes
//!            the instruction fail
//!   C04 C08 C14  health after a withdrawal with debt, strangers and substituted accounts, bank-state gates
use crate::mon::Report;
use crate::rng::Rng;
use crate::world::fixtures::{bank_config_fixed, BankHandle};
use crate::world::stubs::{DRIFT_SKEW_SCALED, DRIFT_SKEW_TOKENS};
use crate::world::{ix, TokenKind, World};
use anchor_lang::prelude::Pubkey;
use anchor_lang::{Discriminator, InstructionData, ToAccountMetas};
use drift_mocks::state::{MinimalSpotMarket, MinimalUser};
use fixed::types::I80F48;
use marginfi::constants::{DRIFT_PROGRAM_ID, DRIFT_USER_SEED, DRIFT_USER_STATS_SEED};
use marginfi_type_crate::types::{BankOperationalState, OracleSetup, RiskTier};
use num_bigint::BigInt;
use solana_program::instruction::{AccountMeta, Instruction};
use std::sync::atomic::Ordering;

const ONE: i128 = 1 << 48;
fn bits(v: marginfi_type_crate::types::WrappedI80F48) -> i128 {
    I80F48::from(v).to_bits()
}

pub struct Dw {
    pub w: World,
    pub group: Pubkey,
    pub admin: Pubkey,
    pub db: BankHandle,
    pub debt: BankHandle,
    pub market: Pubkey,
    pub user: Pubkey,
    pub stats: Pubkey,
    pub state: Pubkey,
    pub signer: Pubkey,
    pub market_vault: Pubkey,
    pub oracle: Pubkey,
    pub users: Vec<(Pubkey, Pubkey, Pubkey, Pubkey)>,
    pub dec: u8,
    pub market_index: u16,
}

fn read_market(w: &World, k: &Pubkey) -> MinimalSpotMarket {
    *bytemuck::from_bytes(&w.get(k).expect("market").data[8..8 + std::mem::size_of::<MinimalSpotMarket>()])
}
fn write_market(w: &mut World, k: &Pubkey, m: &MinimalSpotMarket) {
    let mut data = Vec::new();
    data.extend_from_slice(<MinimalSpotMarket as Discriminator>::DISCRIMINATOR);
    data.extend_from_slice(bytemuck::bytes_of(m));
    w.put(*k, DRIFT_PROGRAM_ID, data);
}
fn read_user(w: &World, k: &Pubkey) -> MinimalUser {
    *bytemuck::from_bytes(&w.get(k).expect("user").data[8..8 + std::mem::size_of::<MinimalUser>()])
}
fn write_user(w: &mut World, k: &Pubkey, u: &MinimalUser) {
    let mut data = Vec::new();
    data.extend_from_slice(<MinimalUser as Discriminator>::DISCRIMINATOR);
    data.extend_from_slice(bytemuck::bytes_of(u));
    w.put(*k, DRIFT_PROGRAM_ID, data);
}

pub fn build(rng: &mut Rng, rep: &mut Report) -> Option<Dw> {
    crate::world::install_stubs();
    DRIFT_SKEW_SCALED.store(0, Ordering::SeqCst);
    DRIFT_SKEW_TOKENS.store(0, Ordering::SeqCst);
    let mut w = World::new();
    w.key_counter = rng.below(1 << 40);
    w.add_program(DRIFT_PROGRAM_ID);
    w.set_clock(1_700_000_000 + rng.range(0, 1_000_000), 1000);
    let fee_admin = w.add_wallet(10_000_000_000);
    let fee_wallet = w.add_wallet(0);
    w.add_fee_state(fee_admin, fee_wallet, Default::default());
    let admin = w.add_wallet(100_000_000_000);
    let group = w.add_group(admin);
    let dec = *rng.pick(&[6u8, 6, 9, 8, 5]);
    let mint = w.add_mint(if rng.chance(1, 3) { TokenKind::T22 } else { TokenKind::Spl }, dec);
    let (market, state, signer) = (w.new_key(), w.new_key(), w.new_key());
    let market_vault = w.add_token_account(mint, signer, 1_000_000_000_000_000);
    let market_index: u16 = if rng.chance(1, 3) { 0 } else { 1 + rng.below(50) as u16 };
    let mut m: MinimalSpotMarket = bytemuck::Zeroable::zeroed();
    m.pubkey = market;
    m.mint = mint;
    m.vault = market_vault;
    m.decimals = dec as u32;
    m.market_index = market_index;
    m.last_interest_ts = w.clock_ts as u64;
    // cumulative deposit interest: 1.0 .. 3.0 (precision 10^10), sometimes exactly 1
    let cum: u128 = match rng.below(4) { 0 => 10_000_000_000, 1 => 10_000_000_000 + rng.below(1000) as u128, _ => 10_000_000_000 + rng.below(20_000_000_000) as u128 };
    m.cumulative_deposit_interest = cum.to_le_bytes();
    m.cumulative_borrow_interest = cum.to_le_bytes();
    write_market(&mut w, &market, &m);
    let oracle = w.add_pyth_oracle(1_0000_0000, 0, 1_0000_0000, 0, -8, w.clock_ts);
    let seed: u64 = rng.below(1000);
    let (bank, _) = Pubkey::find_program_address(&[group.as_ref(), mint.as_ref(), &seed.to_le_bytes()], &marginfi::ID);
    let pda = |s: &str| Pubkey::find_program_address(&[s.as_bytes(), bank.as_ref()], &marginfi::ID).0;
    use marginfi_type_crate::constants::*;
    let (lv, lva, iv, iva, fv, fva) = (pda(LIQUIDITY_VAULT_SEED), pda(LIQUIDITY_VAULT_AUTHORITY_SEED), pda(INSURANCE_VAULT_SEED), pda(INSURANCE_VAULT_AUTHORITY_SEED), pda(FEE_VAULT_SEED), pda(FEE_VAULT_AUTHORITY_SEED));
    let (user, _) = Pubkey::find_program_address(&[DRIFT_USER_SEED.as_bytes(), lva.as_ref(), &0u16.to_le_bytes()], &DRIFT_PROGRAM_ID);
    let (stats, _) = Pubkey::find_program_address(&[DRIFT_USER_STATS_SEED.as_bytes(), lva.as_ref()], &DRIFT_PROGRAM_ID);
    let cfg = marginfi::state::drift::DriftConfigCompact {
        oracle,
        asset_weight_init: I80F48::from_num(0.5).into(),
        asset_weight_maint: I80F48::from_num(0.6).into(),
        deposit_limit: u64::MAX,
        oracle_setup: OracleSetup::DriftPythPull,
        operational_state: BankOperationalState::Operational,
        risk_tier: RiskTier::Collateral,
        config_flags: 1,
        total_asset_value_init_limit: 0,
        oracle_max_age: 60,
        oracle_max_confidence: 0,
    };
    let mut metas = marginfi::accounts::LendingPoolAddBankDrift {
        group, admin, fee_payer: admin, bank_mint: mint, bank, integration_acc_1: market, integration_acc_2: user, integration_acc_3: stats,
        liquidity_vault_authority: lva, liquidity_vault: lv, insurance_vault_authority: iva, insurance_vault: iv,
        fee_vault_authority: fva, fee_vault: fv, token_program: w.token_program_of(&mint), system_program: solana_program::system_program::ID,
    }.to_account_metas(None);
    for m in metas.iter_mut() { if m.pubkey == admin { m.is_writable = true; } }
    metas.push(AccountMeta::new_readonly(oracle, false));
    metas.push(AccountMeta::new_readonly(market, false));
    let add = Instruction { program_id: marginfi::ID, accounts: metas, data: marginfi::instruction::LendingPoolAddBankDrift { bank_config: cfg, bank_seed: seed }.data() };
    {
        let stranger = w.add_wallet(100_000_000_000);
        let mut bad = add.clone();
        for m in bad.accounts.iter_mut() { if m.pubkey == admin { m.pubkey = stranger; } }
        let before = w.accounts.clone();
        if w.exec(&bad).is_ok() { rep.fail("C08 lending_pool_add_bank_drift succeeded for a signer who is not the group admin".to_string()); w.accounts = before; }
        else if w.accounts != before { rep.fail("C08 a refused lending_pool_add_bank_drift changed the store".to_string()); }
    }
    if let Err(e) = w.exec(&add) {
        rep.fail(format!("C13 lending_pool_add_bank_drift refused a plain valid Drift bank: {}", e));
        return None;
    }
    rep.bump("drift_bank_added");
    let b = w.bank(&bank);
    if b.group != group || b.mint != mint || b.integration_acc_1 != market || b.integration_acc_2 != user || b.integration_acc_3 != stats
        || b.config.asset_tag != ASSET_TAG_DRIFT || b.config.oracle_keys[0] != oracle || b.config.oracle_keys[1] != market
        || bits(b.asset_share_value) != ONE || bits(b.total_asset_shares) != 0
    {
        rep.fail("C13 the bank created by lending_pool_add_bank_drift is not bound to the given group / mint / spot market / user / stats / oracle or does not start empty".to_string());
    }
    let db = w.bank_handle(&bank);
    let mut u: MinimalUser = bytemuck::Zeroable::zeroed();
    u.authority = lva;
    write_user(&mut w, &user, &u);
    w.put(stats, DRIFT_PROGRAM_ID, vec![0u8; 240]);
    let dmint = w.add_mint(TokenKind::Spl, 6);
    let debt = w.add_bank(group, dmint, bank_config_fixed(I80F48::from_num(1)));
    {
        let lw = w.add_wallet(1_000_000_000);
        let la = w.add_marginfi_account(group, lw);
        let t = w.add_token_account(dmint, lw, u64::MAX / 4);
        if w.exec(&ix::deposit(&debt, la, lw, t, 100_000_000_000_000, None)).is_err() { return None; }
    }
    let mut users = vec![];
    for _ in 0..3 {
        let wallet = w.add_wallet(1_000_000_000);
        let acct = w.add_marginfi_account(group, wallet);
        let tk = w.add_token_account(mint, wallet, u64::MAX / 8);
        let td = w.add_token_account(dmint, wallet, 0);
        users.push((wallet, acct, tk, td));
    }
    Some(Dw { w, group, admin, db, debt, market, user, stats, state, signer, market_vault, oracle, users, dec, market_index })
}

impl Dw {
    fn deposit_ix(&self, u: usize, signer: Pubkey, amount: u64) -> Instruction {
        let (_, acct, tk, _) = self.users[u];
        Instruction {
            program_id: marginfi::ID,
            accounts: marginfi::accounts::DriftDeposit {
                group: self.group, marginfi_account: acct, authority: signer, bank: self.db.bank, drift_oracle: None,
                liquidity_vault_authority: self.db.liquidity_vault_authority, liquidity_vault: self.db.liquidity_vault, signer_token_account: tk,
                drift_state: self.state, integration_acc_2: self.user, integration_acc_3: self.stats, integration_acc_1: self.market,
                drift_spot_market_vault: self.market_vault, mint: self.db.mint, drift_program: DRIFT_PROGRAM_ID,
                token_program: self.db.token_program, system_program: solana_program::system_program::ID,
            }.to_account_metas(None),
            data: marginfi::instruction::DriftDeposit { amount }.data(),
        }
    }
    fn withdraw_ix(&self, u: usize, signer: Pubkey, amount: u64, all: bool) -> Instruction {
        let (_, acct, tk, _) = self.users[u];
        let mut metas = marginfi::accounts::DriftWithdraw {
            group: self.group, marginfi_account: acct, authority: signer, bank: self.db.bank, drift_oracle: None,
            liquidity_vault_authority: self.db.liquidity_vault_authority, liquidity_vault: self.db.liquidity_vault, destination_token_account: tk,
            drift_state: self.state, integration_acc_2: self.user, integration_acc_3: self.stats, integration_acc_1: self.market,
            drift_spot_market_vault: self.market_vault, drift_reward_oracle: None, drift_reward_spot_market: None, drift_reward_mint: None,
            drift_reward_oracle_2: None, drift_reward_spot_market_2: None, drift_reward_mint_2: None, drift_signer: self.signer,
            mint: self.db.mint, drift_program: DRIFT_PROGRAM_ID, token_program: self.db.token_program, system_program: solana_program::system_program::ID,
        }.to_account_metas(None);
        let risk = if all { self.w.remaining_sorted(&acct, &[], &[self.db.bank]) } else { self.w.remaining_for(&acct, &[]) };
        metas.extend(risk);
        Instruction { program_id: marginfi::ID, accounts: metas, data: marginfi::instruction::DriftWithdraw { amount, withdraw_all: if all { Some(true) } else { None } }.data() }
    }
    fn refresh(&mut self) {
        let mut m = read_market(&self.w, &self.market);
        m.last_interest_ts = self.w.clock_ts as u64;
        write_market(&mut self.w, &self.market, &m);
        let ts = self.w.clock_ts;
        self.w.set_pyth_price(&self.oracle.clone(), 1_0000_0000, 0, 1_0000_0000, 0, -8, ts);
    }
    fn position_shares(&self, u: usize) -> i128 {
        let a = self.w.marginfi_account(&self.users[u].1);
        a.lending_account.balances.iter().find(|b| b.is_active() && b.bank_pk == self.db.bank).map(|b| bits(b.asset_shares)).unwrap_or(0)
    }
    fn drift_balance(&self) -> u64 {
        read_user(&self.w, &self.user).get_scaled_balance(self.market_index)
    }
    fn backing_check(&self, rep: &mut Report, after: &str) {
        let b = self.w.bank(&self.db.bank);
        let sum: i128 = (0..self.users.len()).map(|u| self.position_shares(u)).sum();
        let tot = bits(b.total_asset_shares);
        if bits(b.asset_share_value) != ONE {
            rep.fail(format!("C06 the deposit share value of a Drift bank moved away from 1 ({}) after {}", bits(b.asset_share_value), after));
        }
        if sum != tot {
            rep.fail(format!("C02 Drift bank: total deposit shares {} differ from the sum of the positions {} after {}", tot, sum, after));
        }
        if (BigInt::from(self.drift_balance()) << 48u32) < BigInt::from(tot) {
            rep.fail(format!("C01 Drift bank: positions hold {} shares (x 2^-48) of scaled balance but the bank's Drift user holds only {} after {}: the bank's claims are not backed", tot, self.drift_balance(), after));
        }
        if self.w.token_amount(&self.db.liquidity_vault) != 0 {
            rep.fail(format!("C01 Drift bank: the intermediary liquidity vault keeps {} tokens after {}", self.w.token_amount(&self.db.liquidity_vault), after));
        }
    }
}

pub fn run(rng: &mut Rng, n: usize, rep: &mut Report) {
    run_with(rng, n, rep, &mut None)
}

/// family `venue` (Drift part): one `vn.ddep` / `vn.dwd` line per real drift_deposit / drift_withdraw of this monitor whose outcome
/// the instruction-level model (Mfi/Model/Venue.lean: driftDeposit / driftWithdraw) speaks about: entitled signer, operational
/// bank, a venue that does what it is asked (no skew) or an instruction that went through
pub fn gen(rng: &mut Rng, n: usize, out: &mut Vec<String>) {
    let mut guard = 0;
    while out.len() < n && guard < 200 {
        guard += 1;
        let mut scratch = Report::default();
        let mut part: Option<Vec<String>> = Some(vec![]);
        run_with(rng, 400, &mut scratch, &mut part);
        out.extend(part.unwrap());
    }
    out.truncate(n);
}

fn pos_of(w: &World, acct: &Pubkey, bank: &Pubkey) -> Option<marginfi_type_crate::types::Balance> {
    w.marginfi_account(acct).lending_account.balances.iter().find(|b| b.is_active() && b.bank_pk == *bank).cloned()
}
fn pos_line(x: &Option<marginfi_type_crate::types::Balance>) -> String {
    match x {
        Some(bal) => format!("1 {}", crate::fam_bank::Bal::from_balance(bal).line()),
        None => "0 0 0 0 0 0 0".to_string(),
    }
}

pub fn run_with(rng: &mut Rng, n: usize, rep: &mut Report, lines: &mut Option<Vec<String>>) {
    let mut done = 0usize;
    while done < n {
        let Some(mut k) = build(rng, rep) else { rep.bump("world_build_failed"); done += 1; continue };
        let stranger = k.w.add_wallet(1_000_000_000);
        for _ in 0..40 {
            done += 1;
            rep.bump("cases");
            DRIFT_SKEW_SCALED.store(0, Ordering::SeqCst);
            DRIFT_SKEW_TOKENS.store(0, Ordering::SeqCst);
            if rng.chance(1, 4) { k.w.advance(*rng.pick(&[1i64, 30, 3600])); }
            k.refresh();
            let u = rng.below(k.users.len() as u64) as usize;
            let (wallet, acct, tk, td) = k.users[u];
            let m0 = read_market(&k.w, &k.market);
            let cum = BigInt::from(u128::from_le_bytes(m0.cumulative_deposit_interest));
            let prec = BigInt::from(10u8).pow(19 - k.dec as u32);
            let d0 = k.drift_balance() as i128;
            let sh0 = k.position_shares(u);
            let bank0 = k.w.bank(&k.db.bank);
            let user0 = k.w.token_amount(&tk);
            let mv0 = k.w.token_amount(&k.market_vault);
            let before = k.w.accounts.clone();
            let state = bank0.config.operational_state;
            match rng.below(12) {
                0..=3 => {
                    let amount: u64 = match rng.below(5) { 0 => 1, 1 => 1 + rng.below(1000), 2 => 10u64.pow(k.dec as u32) * (1 + rng.below(10_000)), 3 => 0, _ => 1 + rng.below(1_000_000_000_000) };
                    let skew: i64 = if rng.chance(1, 5) { *rng.pick(&[-2i64, -1, 1, 2]) } else { 0 };
                    DRIFT_SKEW_SCALED.store(skew, Ordering::SeqCst);
                    let who = if rng.chance(1, 8) { stranger } else { wallet };
                    let p0 = pos_of(&k.w, &acct, &k.db.bank);
                    let flags0 = k.w.marginfi_account(&acct).account_flags;
                    let r = k.w.exec(&k.deposit_ix(u, who, amount));
                    DRIFT_SKEW_SCALED.store(0, Ordering::SeqCst);
                    let exact: BigInt = BigInt::from(amount) * &prec / &cum;
                    if let (Some(l), true) = (lines.as_mut(), who == wallet && state == BankOperationalState::Operational && flags0 == 0) {
                        let post = BigInt::from(d0) + &exact + BigInt::from(skew);
                        let head = format!("vn.ddep {} {} {} {} {} {} {} {} {}", crate::fam_bank::B::from_bank(&bank0).line(), bank0.last_update, pos_line(&p0), k.w.clock_ts,
                            amount, k.dec, cum, d0, post);
                        match &r {
                            Ok(()) => {
                                let b1 = k.w.bank(&k.db.bank);
                                let p1 = pos_of(&k.w, &acct, &k.db.bank);
                                l.push(format!("{} => ok {} {} {} {}", head, crate::fam_bank::B::from_bank(&b1).line(), b1.last_update, pos_line(&p1), k.drift_balance() as i128 - d0));
                            }
                            Err(e) => match e.code() {
                                // (6300..6307: constraints on the venue accounts themselves — outside this model)
                                Some(c) if c >= 6000 && !(6300..=6307).contains(&c) => l.push(format!("{} => err {}", head, c)),
                                _ => {}
                            },
                        }
                    }
                    match r {
                        Err(e) => {
                            rep.bump("deposit_refused");
                            rep.bump(&format!("dep_rej_{}", e.code().map(|c| c.to_string()).unwrap_or_else(|| "other".into())));
                            if k.w.accounts != before { rep.fail("C08 a refused drift_deposit changed the store".to_string()); }
                        }
                        Ok(()) => {
                            rep.bump("deposit_ok");
                            let got = k.drift_balance() as i128 - d0;
                            let sh1 = k.position_shares(u);
                            let bank1 = k.w.bank(&k.db.bank);
                            if who != wallet { rep.fail("C08 drift_deposit succeeded for a signer who is not the account's authority".to_string()); }
                            if state != BankOperationalState::Operational { rep.fail(format!("C14 drift_deposit succeeded on a bank in state {}", state as u8)); }
                            if skew != 0 { rep.fail(format!("C20 drift_deposit succeeded although the venue credited {} scaled units where the conversion announces {} (off by {})", got, exact, skew)); }
                            if sh1 - sh0 != got << 48 || bits(bank1.total_asset_shares) - bits(bank0.total_asset_shares) != got << 48 {
                                rep.fail(format!("C02 drift_deposit of {}: the Drift user gained {} scaled units but the position gained {} and the bank total {} shares (x 2^-48)", amount, got, sh1 - sh0, bits(bank1.total_asset_shares) - bits(bank0.total_asset_shares)));
                            }
                            if user0 - k.w.token_amount(&tk) != amount || k.w.token_amount(&k.market_vault) - mv0 != amount {
                                rep.fail(format!("C03 drift_deposit of {} took {} tokens from the depositor and brought {} into the venue", amount, user0 - k.w.token_amount(&tk), k.w.token_amount(&k.market_vault) - mv0));
                            }
                            if BigInt::from(got) > exact {
                                rep.fail(format!("C20 drift_deposit of {} credited {} scaled units, more than the exact conversion {}", amount, got, exact));
                            }
                            k.backing_check(rep, "drift_deposit");
                        }
                    }
                }
                4..=8 => {
                    let all = rng.chance(1, 3);
                    let held = (sh0 >> 48) as u64;
                    let held_tokens: u64 = u64::try_from(BigInt::from(held) * &cum / &prec).unwrap_or(u64::MAX);
                    let amount: u64 = if all { 0 } else { match rng.below(6) { 0 => 1, 1 => held_tokens, 2 => held_tokens / 2, 3 => held_tokens.saturating_add(1), 4 => held_tokens.saturating_sub(1).max(1), _ => rng.below(held_tokens.max(1)) + 1 } };
                    let (sk_s, sk_t): (i64, i64) = match rng.below(10) { 0 => (*rng.pick(&[-2i64, -1, 1, 2]), 0), 1 => (0, *rng.pick(&[-2i64, -1, 1, 2])), _ => (0, 0) };
                    DRIFT_SKEW_SCALED.store(sk_s, Ordering::SeqCst);
                    DRIFT_SKEW_TOKENS.store(sk_t, Ordering::SeqCst);
                    let who = if rng.chance(1, 8) { stranger } else { wallet };
                    let debt_before = {
                        let a = k.w.marginfi_account(&acct);
                        a.lending_account.balances.iter().find(|b| b.is_active() && b.bank_pk == k.debt.bank).map(|b| bits(b.liability_shares)).unwrap_or(0)
                    };
                    let p0 = pos_of(&k.w, &acct, &k.db.bank);
                    let flags0 = k.w.marginfi_account(&acct).account_flags;
                    let r = k.w.exec(&k.withdraw_ix(u, who, amount, all));
                    DRIFT_SKEW_SCALED.store(0, Ordering::SeqCst);
                    DRIFT_SKEW_TOKENS.store(0, Ordering::SeqCst);
                    if let (Some(l), true) = (lines.as_mut(), who == wallet && state != BankOperationalState::Paused && state != BankOperationalState::KilledByBankruptcy && flags0 == 0 && (r.is_ok() || (sk_s == 0 && sk_t == 0))) {
                        let (sb_post, v_post): (i128, i128) = if r.is_ok() { (k.drift_balance() as i128, mv0 as i128 - k.w.token_amount(&k.market_vault) as i128) } else { (d0, 0) };
                        let head = format!("vn.dwd {} {} {} {} {} {} {} {} {} {} {} {}", crate::fam_bank::B::from_bank(&bank0).line(), bank0.last_update, pos_line(&p0), k.w.clock_ts,
                            amount, all as u8, k.dec, cum, d0, sb_post, 0, v_post);
                        match &r {
                            Ok(()) => {
                                let b1 = k.w.bank(&k.db.bank);
                                let p1 = pos_of(&k.w, &acct, &k.db.bank);
                                let p1_line = match &p1 { Some(b) => crate::fam_bank::Bal::from_balance(b).line(), None => "0 0 0 0 0 0".to_string() };
                                l.push(format!("{} => ok {} {} {} {} {}", head, crate::fam_bank::B::from_bank(&b1).line(), b1.last_update, p1_line, v_post, d0 - sb_post));
                            }
                            // refusals the amount selection itself produces (the venue was never asked)
                            Err(e) => match e.code() {
                                Some(c) if c == 6018 || c == 6020 || c == 6023 => l.push(format!("{} => err {}", head, c)),
                                _ => {}
                            },
                        }
                    }
                    match r {
                        Err(e) => {
                            rep.bump("withdraw_refused");
                            rep.bump(&format!("wd_rej_{}", e.code().map(|c| c.to_string()).unwrap_or_else(|| "other".into())));
                            if k.w.accounts != before { rep.fail("C08 a refused drift_withdraw changed the store".to_string()); }
                        }
                        Ok(()) => {
                            rep.bump("withdraw_ok");
                            let gone = d0 - k.drift_balance() as i128;
                            let sh1 = k.position_shares(u);
                            let bank1 = k.w.bank(&k.db.bank);
                            let paid = k.w.token_amount(&tk) as i128 - user0 as i128;
                            let released = mv0 as i128 - k.w.token_amount(&k.market_vault) as i128;
                            if who != wallet { rep.fail("C08 drift_withdraw succeeded for a signer who is not the account's authority (no receivership)".to_string()); }
                            if state == BankOperationalState::Paused { rep.fail("C14 drift_withdraw succeeded on a paused bank".to_string()); }
                            if sk_s != 0 && released != 0 { rep.fail(format!("C20 drift_withdraw succeeded although the venue debited a scaled balance {} off the announced one", sk_s)); }
                            if sk_t != 0 && released != 0 { rep.fail(format!("C20 drift_withdraw succeeded although the venue released {} tokens more / less than asked", sk_t)); }
                            let dsh = sh0 - sh1;
                            let dtot = bits(bank0.total_asset_shares) - bits(bank1.total_asset_shares);
                            if !all {
                                if dsh != gone << 48 || dtot != gone << 48 {
                                    rep.fail(format!("C02 drift_withdraw of {} tokens: the Drift user lost {} scaled units but the position lost {} and the bank total {} shares (x 2^-48)", amount, gone, dsh, dtot));
                                }
                            } else {
                                // everything the position held leaves the books; what stays behind in Drift is dust that belongs to nobody
                                if sh1 != 0 || dtot != (sh0 >> 48) << 48 && dtot != sh0 {
                                    rep.fail(format!("C02 drift_withdraw_all: position left with {} shares, bank total fell by {} of {}", sh1, dtot, sh0));
                                }
                                if gone << 48 > sh0 {
                                    rep.fail(format!("C01 drift_withdraw_all took {} scaled units out of the venue for a position of {} shares (x 2^-48): other positions are no longer backed", gone, sh0));
                                }
                            }
                            if paid != released {
                                rep.fail(format!("C03 drift_withdraw paid the user {} tokens while the venue released {}", paid, released));
                            }
                            // C20 / C03: what is paid out is at most the exact value of the scaled balance DEBITED FROM THE POSITION (not
                            // of what the venue burned: if the two differ the difference comes out of the other depositors' balance)
                            {
                                let debited = BigInt::from(dsh >> 48);
                                if debited > BigInt::from(0) && BigInt::from(paid) * &prec > &debited * &cum {
                                    for tag in ["C20", "C03"] {
                                        rep.fail(format!("{} drift_withdraw (all = {}) paid {} tokens while the position was debited {} scaled units whose exact value is {}: the conversion overstates what the position is worth", tag, all, paid, debited, &debited * &cum / &prec));
                                    }
                                }
                            }
                            // never more than the exact value of the scaled balance given up
                            // (one corner is the venue's own rounding, not marginfi's: Drift's balance formula rounds a withdrawal UP only when
                            // the floored scaled amount is not zero, so a request worth less than one scaled unit costs no scaled balance
                            // at all; what is released then comes out of Drift's vault, marginfi's books and its Drift balance are
                            // untouched. Counted, not judged.)
                            if gone == 0 && BigInt::from(paid) * &prec < cum.clone() {
                                if paid > 0 { rep.bump("venue_released_sub_unit_dust_for_nothing"); }
                            } else if BigInt::from(paid) * &prec > BigInt::from(gone) * &cum {
                                rep.fail(format!("C03 drift_withdraw paid {} tokens for {} scaled units whose exact value is {}", paid, gone, BigInt::from(gone) * &cum / &prec));
                            }
                            if debt_before > 0 {
                                let mut c2 = k.w.clone();
                                let metas = c2.remaining_in_slot_order(&acct);
                                if c2.exec(&ix::pulse_health(acct, metas)).is_ok() {
                                    let h = c2.marginfi_account(&acct).health_cache;
                                    if bits(h.asset_value) < bits(h.liability_value) {
                                        rep.fail(format!("C04 drift_withdraw (all = {}) accepted but the account's weighted assets {} no longer cover its weighted debt {}", all, bits(h.asset_value), bits(h.liability_value)));
                                    }
                                }
                            }
                            k.backing_check(rep, "drift_withdraw");
                        }
                    }
                }
                9 => {
                    let in_debt_units = (BigInt::from((sh0 >> 48) as u64) * &cum / &prec * BigInt::from(1_000_000u64) / BigInt::from(10u64).pow(k.dec as u32)).to_string().parse::<u64>().unwrap_or(0);
                    let amt = 1 + rng.below((in_debt_units / 2).max(1));
                    let risk = k.w.remaining_for(&acct, &[k.debt.bank]);
                    let r = k.w.exec(&ix::borrow(&k.debt, acct, wallet, td, amt, risk));
                    rep.bump(if r.is_ok() { "borrow_ok" } else { "borrow_refused" });
                    if r.is_ok() { k.backing_check(rep, "a borrow from another bank"); }
                }
                10 => {
                    let is_dep = rng.chance(1, 2);
                    let mut ixn = if is_dep { k.deposit_ix(u, wallet, 1000) } else { k.withdraw_ix(u, wallet, 1, false) };
                    let fake_market = k.w.new_key();
                    let fake_user = k.w.new_key();
                    { let m = read_market(&k.w, &k.market); write_market(&mut k.w, &fake_market, &m); }
                    { let mut us = read_user(&k.w, &k.user); let i = if k.market_index == 0 { 0 } else { 1 }; us.spot_positions[i].scaled_balance = 1_000_000_000; us.spot_positions[i].market_index = k.market_index; write_user(&mut k.w, &fake_user, &us); }
                    let fake_vault = k.w.add_token_account(k.db.mint, k.db.liquidity_vault_authority, 0);
                    let (from, to, what) = match rng.below(4) {
                        0 => (k.market, fake_market, "a look-alike spot market"),
                        1 => (k.user, fake_user, "a look-alike Drift user (same authority, more balance)"),
                        2 => (k.db.liquidity_vault, fake_vault, "a look-alike liquidity vault"),
                        _ => (k.db.bank, k.debt.bank, "an ordinary (non-Drift) bank"),
                    };
                    for m in ixn.accounts.iter_mut() { if m.pubkey == from { m.pubkey = to; } }
                    let snap = k.w.accounts.clone();
                    let r = k.w.exec(&ixn);
                    rep.bump("substitution_probes");
                    if r.is_ok() { rep.fail(format!("C08 {} succeeded with {} in place of the bank's own", if is_dep { "drift_deposit" } else { "drift_withdraw" }, what)); }
                    else if k.w.accounts != snap { rep.fail("C08 a refused Drift instruction changed the store".to_string()); }
                    k.w.accounts = before;
                }
                _ => {
                    let st = *rng.pick(&[BankOperationalState::Operational, BankOperationalState::Operational, BankOperationalState::Paused, BankOperationalState::ReduceOnly]);
                    let r = k.w.exec(&ix::configure_bank(&k.db, k.admin, marginfi_type_crate::types::BankConfigOpt { operational_state: Some(st), ..Default::default() }));
                    rep.bump(if r.is_ok() { "state_change_ok" } else { "state_change_refused" });
                }
            }
        }
        rep.sample("drift world".to_string());
    }
    DRIFT_SKEW_SCALED.store(0, Ordering::SeqCst);
    DRIFT_SKEW_TOKENS.store(0, Ordering::SeqCst);
}
