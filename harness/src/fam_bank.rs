//! families `wrapper` and `bank`: real BankAccountWrapper / BankImpl operations on real Bank and
//! Balance structs, step by step along generated sequences (each line carries its pre-state).
use crate::fam_curve::{gen_dt, gen_seven, gen_legacy, Ir};
use crate::rng::Rng;
use fixed::types::I80F48;
use marginfi::state::bank::BankImpl;
use marginfi::state::marginfi_account::BankAccountWrapper;
use marginfi_type_crate::types::{Balance, Bank};
use std::panic::{catch_unwind, AssertUnwindSafe};

pub const ONE: i128 = 1 << 48;

pub fn fx(b: i128) -> I80F48 {
    I80F48::from_bits(b)
}

#[derive(Clone, Debug)]
pub struct B {
    pub asv: i128,
    pub lsv: i128,
    pub sa: i128,
    pub sl: i128,
    pub fee_i: i128,
    pub fee_g: i128,
    pub fee_p: i128,
    pub deposit_limit: u64,
    pub borrow_limit: u64,
    pub flags: u64,
    pub asset_tag: u8,
    pub mint_decimals: u8,
    pub emissions_rate: u64,
    pub emissions_remaining: i128,
    pub lend_cnt: i32,
    pub borrow_cnt: i32,
}

impl B {
    pub fn to_bank(&self) -> Bank {
        let mut b = Bank::default();
        b.asset_share_value = fx(self.asv).into();
        b.liability_share_value = fx(self.lsv).into();
        b.total_asset_shares = fx(self.sa).into();
        b.total_liability_shares = fx(self.sl).into();
        b.collected_insurance_fees_outstanding = fx(self.fee_i).into();
        b.collected_group_fees_outstanding = fx(self.fee_g).into();
        b.collected_program_fees_outstanding = fx(self.fee_p).into();
        b.config.deposit_limit = self.deposit_limit;
        b.config.borrow_limit = self.borrow_limit;
        b.flags = self.flags;
        b.config.asset_tag = self.asset_tag;
        b.mint_decimals = self.mint_decimals;
        b.emissions_rate = self.emissions_rate;
        b.emissions_remaining = fx(self.emissions_remaining).into();
        b.lending_position_count = self.lend_cnt;
        b.borrowing_position_count = self.borrow_cnt;
        b
    }
    pub fn from_bank(b: &Bank) -> B {
        B {
            asv: I80F48::from(b.asset_share_value).to_bits(),
            lsv: I80F48::from(b.liability_share_value).to_bits(),
            sa: I80F48::from(b.total_asset_shares).to_bits(),
            sl: I80F48::from(b.total_liability_shares).to_bits(),
            fee_i: I80F48::from(b.collected_insurance_fees_outstanding).to_bits(),
            fee_g: I80F48::from(b.collected_group_fees_outstanding).to_bits(),
            fee_p: I80F48::from(b.collected_program_fees_outstanding).to_bits(),
            deposit_limit: b.config.deposit_limit,
            borrow_limit: b.config.borrow_limit,
            flags: b.flags,
            asset_tag: b.config.asset_tag,
            mint_decimals: b.mint_decimals,
            emissions_rate: b.emissions_rate,
            emissions_remaining: I80F48::from(b.emissions_remaining).to_bits(),
            lend_cnt: b.lending_position_count,
            borrow_cnt: b.borrowing_position_count,
        }
    }
    pub fn line(&self) -> String {
        format!(
            "{} {} {} {} {} {} {} {} {} {} {} {} {} {} {} {}",
            self.asv,
            self.lsv,
            self.sa,
            self.sl,
            self.fee_i,
            self.fee_g,
            self.fee_p,
            self.deposit_limit,
            self.borrow_limit,
            self.flags,
            self.asset_tag,
            self.mint_decimals,
            self.emissions_rate,
            self.emissions_remaining,
            self.lend_cnt,
            self.borrow_cnt
        )
    }
}

#[derive(Clone, Debug)]
pub struct Bal {
    pub active: u8,
    pub tag: u8,
    pub a: i128,
    pub l: i128,
    pub emis: i128,
    pub last_update: u64,
}

impl Bal {
    pub fn to_balance(&self) -> Balance {
        let mut x = Balance::empty_deactivated();
        x.active = self.active;
        x.bank_asset_tag = self.tag;
        x.asset_shares = fx(self.a).into();
        x.liability_shares = fx(self.l).into();
        x.emissions_outstanding = fx(self.emis).into();
        x.last_update = self.last_update;
        x
    }
    pub fn from_balance(x: &Balance) -> Bal {
        Bal {
            active: x.active,
            tag: x.bank_asset_tag,
            a: I80F48::from(x.asset_shares).to_bits(),
            l: I80F48::from(x.liability_shares).to_bits(),
            emis: I80F48::from(x.emissions_outstanding).to_bits(),
            last_update: x.last_update,
        }
    }
    pub fn line(&self) -> String {
        format!("{} {} {} {} {} {}", self.active, self.tag, self.a, self.l, self.emis, self.last_update)
    }
}

pub fn gen_share_value(rng: &mut Rng) -> i128 {
    match rng.below(10) {
        0 => ONE,
        1 => ONE + rng.below(1 << 30) as i128,
        2 => ONE + rng.below(ONE as u64 / 2) as i128,
        3 => ONE + rng.below(ONE as u64) as i128,
        4 => rng.below(ONE as u64) as i128 + 1, // after socialised loss
        // almost wiped by socialised losses: a share value around and below the dust threshold (0.0001), down to one bit
        8 => rng.below(2 * 28_147_497_671) as i128 + 1,
        9 => *rng.pick(&[1i128, 2, 1000, 28_147_497_670, 28_147_497_671, 28_147_497_672]),
        5 => ONE * 3 + rng.below(ONE as u64) as i128,
        6 => ONE + 1,
        _ => ONE + rng.below(ONE as u64 / 10) as i128,
    }
}

pub fn gen_amount_fx(rng: &mut Rng) -> i128 {
    match rng.below(8) {
        0 => ONE,
        1 => (rng.below(1_000_000) as i128 + 1) * ONE,
        2 => (rng.below(1_000_000_000_000_000) as i128) * ONE,
        3 => (rng.u64_mixed() as i128) * ONE,
        4 => rng.below(ONE as u64 * 2) as i128,
        5 => 0,
        6 => (rng.below(1_000_000_000) as i128) * ONE + rng.below(ONE as u64) as i128,
        _ => (rng.below(10_000) as i128 + 1) * ONE,
    }
}

pub fn gen_bank(rng: &mut Rng) -> B {
    let asv = gen_share_value(rng);
    let lsv = gen_share_value(rng).max(ONE);
    let sa = match rng.below(5) {
        0 => 0,
        _ => gen_amount_fx(rng),
    };
    let sl = match rng.below(4) {
        0 => 0,
        1 => sa / 2,
        2 => sa - rng.below(1000) as i128,
        _ => (sa / 100) * rng.below(100) as i128,
    }
    .max(0);
    let total_a = ((sa >> 24) * (asv >> 24)) >> 48; // rough integer token total
    let deposit_limit = match rng.below(7) {
        0 => u64::MAX,
        1 => 0,
        2 => 1,
        3 => (total_a as u64).saturating_add(rng.below(5)),
        4 => (total_a as u64).saturating_sub(rng.below(5)),
        5 => (total_a as u64).saturating_add(rng.below(1_000_000)),
        _ => u64::MAX,
    };
    let borrow_limit = match rng.below(6) {
        0 => 0,
        1 => 1,
        2 => rng.u64_mixed(),
        _ => u64::MAX,
    };
    let b = B {
        asv,
        lsv,
        sa,
        sl,
        fee_i: rng.below(ONE as u64 * 3) as i128,
        fee_g: rng.below(ONE as u64 * 3) as i128,
        fee_p: rng.below(ONE as u64 * 3) as i128,
        deposit_limit,
        borrow_limit,
        flags: match rng.below(6) {
            0 => 1,
            1 => 2,
            2 => 3,
            3 => 16 | 3,
            _ => 16,
        },
        asset_tag: match rng.below(10) {
            0 => 4,
            1 => 3,
            2 => 1,
            3 => 2,
            _ => 0,
        },
        mint_decimals: match rng.below(12) {
            0 => 0,
            1 => 9,
            2 => 12,
            3 => 23,
            4 => 24 + rng.below(3) as u8,
            5 | 6 => rng.below(24) as u8,
            _ => 6,
        },
        emissions_rate: match rng.below(4) {
            0 => 0,
            1 => rng.below(1_000_000),
            2 => rng.u64_mixed(),
            _ => 1_000_000,
        },
        emissions_remaining: match rng.below(4) {
            0 => 0,
            1 => rng.below(ONE as u64 * 100) as i128,
            _ => (rng.below(1_000_000_000) as i128) * ONE,
        },
        lend_cnt: rng.range(-1, 5) as i32,
        borrow_cnt: rng.range(-1, 5) as i32,
    };
    // a Drift bank's limit is re-scaled to nine decimals before it is compared: half of the Drift banks carry a limit so large
    // that the re-scaling leaves the number type for a low-decimal mint (limit x 10^(9-d) >= 2^79), or sits right at that edge
    let mut b = b;
    if b.asset_tag == 4 && rng.chance(2, 3) {
        b.deposit_limit = *rng.pick(&[u64::MAX - 1, 1u64 << 63, 1u64 << 62, 100_000_000_000_000_000, 60_446_290_980_731_458, 60_446_290_980_731_459, 604_462_909_807_314, 604_462_909_807_315, 6_044_629_098_073_145_873, 6_044_629_098_073_145_874]);
        b.mint_decimals = *rng.pick(&[0u8, 2, 4, 4, 5, 9]);
    }
    b
}

pub fn gen_balance(rng: &mut Rng, bank: &B, now: i64) -> Bal {
    let (a, l) = match rng.below(8) {
        0 => (0, 0),
        1 => (gen_amount_fx(rng).min(bank.sa.max(0)), 0),
        2 => (0, gen_amount_fx(rng).min(bank.sl.max(0))),
        3 => (rng.below(ONE as u64) as i128, gen_amount_fx(rng).min(bank.sl.max(0))), // dust on other side
        4 => (gen_amount_fx(rng).min(bank.sa.max(0)), rng.below(ONE as u64) as i128),
        5 => (rng.below(30_000_000_000) as i128, rng.below(30_000_000_000) as i128), // around ZERO_AMOUNT_THRESHOLD
        6 => (gen_amount_fx(rng), gen_amount_fx(rng)), // both sides (get_side asserts)
        _ => (bank.sa.max(0), 0),
    };
    Bal {
        active: 1,
        tag: bank.asset_tag,
        a,
        l,
        emis: match rng.below(6) {
            0 => 0,
            1 => rng.below(ONE as u64 * 3) as i128,
            // (the whole-token boundary of `Balance::close`: one ulp below, exactly, one ulp above one token)
            2 => *rng.pick(&[ONE - 1, ONE, ONE, ONE + 1]),
            _ => 0,
        },
        last_update: match rng.below(5) {
            0 => 0,
            1 => (now as u64).saturating_sub(rng.below(100_000)),
            2 => now as u64 + rng.below(3),
            3 => 1681989983 + rng.below(3) - 1,
            _ => (now as u64).saturating_sub(3600),
        },
    }
}

pub fn errcode(e: anchor_lang::error::Error) -> u32 {
    crate::errcode(e)
}

/// run one wrapper op on the real code; returns the canonical output
pub fn run_wrapper_op(op: &str, bank: &B, bal: &Bal, now: i64, amount: i128) -> (String, Option<(B, Bal)>) {
    crate::stubs::set_clock(now, 0);
    let mut rb = bank.to_bank();
    let mut rbal = bal.to_balance();
    let res = catch_unwind(AssertUnwindSafe(|| {
        let mut w = BankAccountWrapper { balance: &mut rbal, bank: &mut rb };
        let amt = fx(amount);
        match op {
            "w.dep" => w.deposit(amt).map(|_| None),
            "w.rep" => w.repay(amt).map(|_| None),
            "w.wd" => w.withdraw(amt).map(|_| None),
            "w.bor" => w.borrow(amt).map(|_| None),
            "w.depcap" => w.deposit_ignore_deposit_cap(amt).map(|_| None),
            "w.wdcap" => w.withdraw_ignore_borrow_cap(amt).map(|_| None),
            "w.wdall" => w.withdraw_all().map(Some),
            "w.repall" => w.repay_all().map(Some),
            "w.close" => w.close_balance().map(|_| None),
            "w.claim" => w.claim_emissions(now as u64).map(|_| None),
            "w.settle" => w.settle_emissions_and_get_transfer_amount().map(Some),
            _ => unreachable!(),
        }
    }));
    match res {
        Err(_) => ("panic".into(), None),
        Ok(Err(e)) => (format!("err {}", errcode(e)), None),
        Ok(Ok(ret)) => {
            let nb = B::from_bank(&rb);
            let nbal = Bal::from_balance(&rbal);
            let mut s = format!("ok {} {}", nb.line(), nbal.line());
            if let Some(r) = ret {
                s.push_str(&format!(" {}", r));
            }
            (s, Some((nb, nbal)))
        }
    }
}

pub const WOPS: [&str; 11] = [
    "w.dep", "w.rep", "w.wd", "w.bor", "w.depcap", "w.wdcap", "w.wdall", "w.repall", "w.close", "w.claim", "w.settle",
];

pub fn gen_op_amount(rng: &mut Rng, bank: &B, bal: &Bal) -> i128 {
    // amounts directed at the position's current value and at limits
    let asset_val = ((bal.a >> 24) * (bank.asv >> 24)) as i128; // ≈ bits
    let liab_val = ((bal.l >> 24) * (bank.lsv >> 24)) as i128;
    match rng.below(10) {
        0 => asset_val + rng.range(-3, 3) as i128,
        1 => liab_val + rng.range(-3, 3) as i128,
        2 => (asset_val / ONE) * ONE,
        3 => (liab_val / ONE + 1) * ONE,
        4 => ONE,
        5 => (rng.below(1000) as i128 + 1) * ONE,
        6 => gen_amount_fx(rng),
        7 => 0,
        8 => asset_val / 2,
        _ => (rng.below(1_000_000_000) as i128) * ONE,
    }
    .max(0)
}

pub fn gen_wrapper(rng: &mut Rng, n: usize, out: &mut Vec<String>) {
    let mut produced = 0;
    while produced < n {
        let mut now: i64 = 1_700_000_000 + rng.range(0, 10_000_000);
        let mut bank = gen_bank(rng);
        let mut bal = gen_balance(rng, &bank, now);
        let len = 1 + rng.below(8);
        for _ in 0..len {
            now += rng.range(0, 5000);
            let op = *rng.pick(&WOPS);
            let amount = gen_op_amount(rng, &bank, &bal);
            let (outp, post) = run_wrapper_op(op, &bank, &bal, now, amount);
            out.push(format!("{} {} {} {} {} => {}", op, bank.line(), bal.line(), now, amount, outp));
            produced += 1;
            match post {
                Some((nb, nbal)) => {
                    bank = nb;
                    if nbal.active == 0 {
                        bal = gen_balance(rng, &bank, now);
                    } else {
                        bal = nbal;
                    }
                }
                None => {
                    // keep state (instruction aborted); sometimes draw a fresh position
                    if rng.chance(1, 2) {
                        bal = gen_balance(rng, &bank, now);
                    }
                }
            }
        }
    }
}

pub fn gen_ir_for_bank(rng: &mut Rng) -> Ir {
    let mut ir = if rng.chance(4, 5) { gen_seven(rng, true) } else { gen_legacy(rng, true) };
    for f in [&mut ir.ins_fixed, &mut ir.ins_rate, &mut ir.grp_fixed, &mut ir.grp_rate, &mut ir.prog_fixed, &mut ir.prog_rate] {
        *f = (*f).rem_euclid(ONE / 2);
    }
    ir
}

/// `b.accrue`: real Bank::accrue_interest with a real group
pub fn run_accrue(bank: &B, last_update: i64, ir: &Ir, now: i64) -> (String, Option<(B, i64)>) {
    crate::stubs::set_clock(now, 0);
    let mut rb = bank.to_bank();
    rb.last_update = last_update;
    rb.config.interest_rate_config = ir.config();
    let g = ir.group();
    let res = catch_unwind(AssertUnwindSafe(|| rb.accrue_interest(now, &g, anchor_lang::prelude::Pubkey::default())));
    match res {
        Err(_) => ("panic".into(), None),
        Ok(Err(e)) => (format!("err {}", errcode(e)), None),
        Ok(Ok(())) => {
            let nb = B::from_bank(&rb);
            (
                format!(
                    "ok {} {} {} {}",
                    nb.line(),
                    rb.last_update,
                    I80F48::from(rb.cache.accumulated_since_last_update).to_bits(),
                    rb.cache.interest_accumulated_for
                ),
                Some((nb, rb.last_update)),
            )
        }
    }
}

pub fn gen_bank_ops(rng: &mut Rng, n: usize, out: &mut Vec<String>) {
    for i in 0..n {
        let bank = gen_bank(rng);
        match i % 6 {
            0 => {
                let rb = bank.to_bank();
                let r = catch_unwind(AssertUnwindSafe(|| rb.get_remaining_deposit_capacity()));
                let o = match r {
                    Err(_) => "panic".into(),
                    Ok(Err(e)) => format!("err {}", errcode(e)),
                    Ok(Ok(v)) => format!("ok {}", v),
                };
                out.push(format!("b.cap {} => {}", bank.line(), o));
            }
            1 => {
                let mut rb = bank.to_bank();
                let total = ((bank.sa >> 24) * (bank.asv >> 24)) as i128;
                let loss = match rng.below(6) {
                    0 => total,
                    1 => total + rng.range(-2, 2) as i128,
                    2 => total / 2,
                    3 => gen_amount_fx(rng),
                    4 => total * 2,
                    _ => rng.below(ONE as u64) as i128,
                };
                let r = catch_unwind(AssertUnwindSafe(|| rb.socialize_loss(fx(loss))));
                let o = match r {
                    Err(_) => "panic".into(),
                    Ok(Err(e)) => format!("err {}", errcode(e)),
                    Ok(Ok(k)) => format!("ok {} {}", I80F48::from(rb.asset_share_value).to_bits(), k as u8),
                };
                out.push(format!("b.soc {} {} => {}", bank.line(), loss, o));
            }
            2 => {
                let rb = bank.to_bank();
                let r = catch_unwind(AssertUnwindSafe(|| rb.check_utilization_ratio()));
                let o = match r {
                    Err(_) => "panic".into(),
                    Ok(Err(e)) => format!("err {}", errcode(e)),
                    Ok(Ok(())) => "ok".into(),
                };
                out.push(format!("b.util {} => {}", bank.line(), o));
            }
            _ => {
                let ir = gen_ir_for_bank(rng);
                let last = 1_700_000_000 + rng.range(0, 1000);
                let now = match rng.below(8) {
                    0 => last,
                    1 => last - 1,
                    _ => last + gen_dt(rng).min(1 << 40) as i64,
                };
                let (o, _) = run_accrue(&bank, last, &ir, now);
                out.push(format!("b.accrue {} {} {} {} => {}", bank.line(), last, ir.line(), now, o));
            }
        }
    }
}
