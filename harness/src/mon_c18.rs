//! C18 monitor: curve properties evaluated on the real rate calculator.
use crate::fam_curve::{gen_legacy, gen_seven, gen_ur, Ir, ONE};
use crate::mon::Report;
use crate::rng::Rng;
use fixed::types::I80F48;
use marginfi::state::interest_rate::InterestRateConfigImpl;
use std::panic::{catch_unwind, AssertUnwindSafe};

fn base(ir: &Ir, ur: i128) -> Result<Option<i128>, ()> {
    let cfg = ir.config();
    let g = ir.group();
    catch_unwind(AssertUnwindSafe(|| {
        let calc = cfg.create_interest_rate_calculator(&g);
        calc.calc_interest_rate(I80F48::from_bits(ur)).map(|r| (r.base_rate_apr.to_bits(), r.lending_rate_apr.to_bits(), r.borrowing_rate_apr.to_bits()))
    }))
    .map(|o| o.map(|t| t.0))
    .map_err(|_| ())
}

fn rates(ir: &Ir, ur: i128) -> Option<(i128, i128, i128)> {
    let cfg = ir.config();
    let g = ir.group();
    catch_unwind(AssertUnwindSafe(|| {
        let calc = cfg.create_interest_rate_calculator(&g);
        calc.calc_interest_rate(I80F48::from_bits(ur)).map(|r| (r.base_rate_apr.to_bits(), r.lending_rate_apr.to_bits(), r.borrowing_rate_apr.to_bits()))
    }))
    .ok()
    .flatten()
}

fn rate_from_u32(r: u32) -> i128 {
    10 * (((r as i128) << 48) / (u32::MAX as i128))
}
fn util_from_u32(u: u32) -> i128 {
    ((u as i128) << 48) / (u32::MAX as i128)
}

pub fn run(rng: &mut Rng, n: usize, rep: &mut Report) {
    // directed cases first (the candidates of DESIGN §7)
    {
        let mut ir = gen_legacy(&mut Rng::new(1), true);
        ir.optimal = (ONE * 8) / 10;
        ir.plateau = ONE / 10;
        ir.max_ir = ONE;
        ir.ins_fixed = 0; ir.ins_rate = 0; ir.grp_fixed = 0; ir.grp_rate = 0; ir.add_prog = false;
        check_legacy(&ir, ONE + ONE / 2, rep);
        let mut s = gen_seven(&mut Rng::new(1), true);
        s.zero = 0;
        s.hundred = u32::MAX;
        s.pts = [(u32::MAX, 1000), (0, 0), (0, 0), (0, 0), (0, 0)];
        s.ins_fixed = 0; s.ins_rate = 0; s.grp_fixed = 0; s.grp_rate = 0; s.add_prog = false;
        check_seven(&s, ONE, ONE, rep);
    }
    migrate_block(rng, (n / 40).max(6), rep, false);
    for i in 0..n {
        if i % 4 == 3 {
            let ir = gen_legacy(rng, true);
            let ur = match rng.below(4) {
                0 => ONE + rng.below(ONE as u64 * 2) as i128,
                _ => gen_ur(rng, &ir),
            };
            check_legacy(&ir, ur, rep);
        } else {
            // one case in three comes from the MALFORMED stream (holes, dips, unordered utils, points above
            // hundred_util_rate, full five-point curves): whatever the real validate() then accepts must
            // still have a defined, bounded, monotone rate — probed inside every segment
            let malformed = i % 3 == 1;
            let mut ir = if malformed { gen_bad_seven(rng) } else { gen_seven(rng, true) };
            if malformed {
                rep.bump("malformed_offered");
            }
            // keep fees small and non-negative so that only the curve can fail
            for f in [&mut ir.ins_fixed, &mut ir.ins_rate, &mut ir.grp_fixed, &mut ir.grp_rate, &mut ir.prog_fixed, &mut ir.prog_rate] {
                *f = (*f).rem_euclid(ONE / 2);
            }
            let (u1, u2) = if malformed {
                // midpoints of two consecutive segments
                let mut xs: Vec<i128> = vec![0];
                xs.extend(ir.pts.iter().filter(|p| p.0 != 0).map(|p| util_from_u32(p.0)));
                xs.push(ONE);
                let k = rng.below(xs.len() as u64 - 1) as usize;
                let a = (xs[k] + xs[k + 1]) / 2;
                let k2 = rng.below(xs.len() as u64 - 1) as usize;
                let b = (xs[k2] + xs[k2 + 1]) / 2;
                (a, b)
            } else {
                (gen_ur(rng, &ir), gen_ur(rng, &ir))
            };
            check_seven(&ir, u1.min(u2), u1.max(u2), rep);
        }
    }
}

/// a seven-point curve that is well-formed except for ONE defect, biased to full (five-point) curves
fn gen_bad_seven(rng: &mut Rng) -> Ir {
    let mut ir = gen_seven(rng, true);
    let k = if rng.chance(1, 2) { 5 } else { 1 + rng.below(5) as usize };
    let mut utils: Vec<u32> = Vec::new();
    while utils.len() < k {
        let u = 1 + rng.below(u32::MAX as u64 - 2) as u32;
        if !utils.contains(&u) {
            utils.push(u);
        }
    }
    utils.sort();
    let mut rates: Vec<u32> = (0..k + 2).map(|_| rng.below(u32::MAX as u64) as u32).collect();
    rates.sort();
    ir.zero = rates[0];
    ir.hundred = rates[k + 1];
    ir.pts = [(0, 0); 5];
    for i in 0..k {
        ir.pts[i] = (utils[i], rates[i + 1]);
    }
    let j = rng.below(k as u64) as usize;
    match rng.below(6) {
        0 => {
            // rate dip at point j
            ir.pts[j].1 = ir.pts[j].1 / 2;
            if j == 0 {
                ir.zero = ir.zero.max(ir.pts[0].1.saturating_add(1 + rng.below(1000) as u32));
            }
        }
        1 => ir.pts[k - 1].1 = ir.hundred.saturating_add(1 + rng.below(1000) as u32), // last point above 100% rate
        2 => {
            if k >= 2 {
                let a = rng.below(k as u64 - 1) as usize;
                ir.pts.swap(a, a + 1); // unordered
            }
        }
        3 => {
            if k >= 2 {
                ir.pts[1].0 = ir.pts[0].0; // duplicate util
            }
        }
        4 => ir.pts[0].1 = ir.zero.saturating_sub(1 + rng.below(1000) as u32).min(ir.pts[0].1), // first point below zero rate
        _ => {
            if k >= 2 {
                ir.pts[rng.below(k as u64 - 1) as usize] = (0, 0); // hole
            }
        }
    }
    ir
}

fn check_legacy(ir: &Ir, ur: i128, rep: &mut Report) {
    if ir.config().validate().is_err() {
        rep.bump("legacy_rejected");
        return;
    }
    rep.bump("legacy_cases");
    rep.bump("cases");
    if ir.ins_fixed >= 0 && ir.ins_rate >= 0 && ir.grp_fixed >= 0 && ir.grp_rate >= 0 && ir.prog_fixed >= 0 && ir.prog_rate >= 0
        && ir.ins_fixed + ir.ins_rate + ir.grp_fixed + ir.grp_rate + ir.prog_fixed + ir.prog_rate <= 3 * ONE {
        let mut r2 = Rng::new(ir.optimal as u64 ^ ir.max_ir as u64);
        accrual_usable(ir, &mut r2, rep);
    }
    let cfgs = format!("legacy optimal={} plateau={} max={} ur={}", ir.optimal, ir.plateau, ir.max_ir, ur);
    match base(ir, ur) {
        Ok(Some(b)) => {
            if ur >= 0 && ur <= ONE {
                if b < 0 || b > ir.max_ir {
                    rep.fail(format!("legacy base rate {} outside [0,max] within [0,100%] util: {}", b, cfgs));
                }
                if ur == ir.optimal && b != ir.plateau {
                    rep.fail(format!("legacy base rate {} != plateau at optimal: {}", b, cfgs));
                }
            } else if ur > ONE {
                rep.bump("legacy_above_one");
                if b > ir.max_ir {
                    rep.fail(format!("legacy-unclamped: base rate {} above max_interest_rate {} at utilisation above 100%: {}", b, ir.max_ir, cfgs));
                }
            }
        }
        Ok(None) | Err(()) => {
            if ur >= 0 && ur <= ONE {
                // only fee arithmetic may fail; legacy gen uses small fees
                rep.fail(format!("legacy rate undefined within [0,100%]: {}", cfgs));
            }
        }
    }
}

/// "an accepted curve can never by itself make interest accrual fail": for a configuration the real validate() accepts (fees
/// small and non-negative), an ordinary bank state (share values 1..4, up to 10^12 tokens, utilisation 0..100 %) and ANY time
/// since the last accrual up to five years — in particular exactly one year, one second less and one second more — the real
/// calc_interest_rate_accrual_state_changes must produce a result (a growth factor of at most a few hundred on values far below 2^79)
fn accrual_usable(ir: &Ir, rng: &mut Rng, rep: &mut Report) {
    use marginfi::state::interest_rate::calc_interest_rate_accrual_state_changes;
    const YEAR: u64 = 31_536_000;
    let cfg = ir.config();
    let g = ir.group();
    let ta: i128 = (1 + rng.below(1_000_000_000_000) as i128) * ONE;
    let tl: i128 = match rng.below(4) { 0 => ta, 1 => ta / 2, 2 => 0, _ => (ta / 1000) * rng.below(1001) as i128 };
    let (asv, lsv) = (ONE + rng.below(3 * ONE as u64) as i128, ONE + rng.below(3 * ONE as u64) as i128);
    for dt in [1u64, 3600, YEAR - 1, YEAR, YEAR + 1, YEAR + 86_400, 2 * YEAR, 5 * YEAR, 1 + rng.below(5 * YEAR)] {
        let r = catch_unwind(AssertUnwindSafe(|| {
            let calc = cfg.create_interest_rate_calculator(&g);
            calc_interest_rate_accrual_state_changes(dt, I80F48::from_bits(ta), I80F48::from_bits(tl), &calc, I80F48::from_bits(asv), I80F48::from_bits(lsv)).is_some()
        }));
        rep.bump("accrual_usable_probes");
        if !matches!(r, Ok(true)) {
            rep.fail(format!(
                "interest accrual {} for an accepted configuration {} s after the last accrual (one year = {} s): deposits {} debt {} share values ({}, {}); every user instruction on such a bank fails from then on: {}",
                if r.is_err() { "PANICS" } else { "FAILS" }, dt, YEAR, ta, tl, asv, lsv, ir.line()
            ));
            break;
        }
    }
}

fn check_seven(ir: &Ir, u1: i128, u2: i128, rep: &mut Report) {
    if ir.config().validate().is_err() {
        rep.bump("seven_rejected");
        return;
    }
    rep.bump("seven_cases");
    rep.bump("cases");
    {
        let mut r2 = Rng::new((ir.zero as u64) << 32 | ir.hundred as u64);
        accrual_usable(ir, &mut r2, rep);
    }
    let desc = format!("seven zero={} hundred={} pts={:?}", ir.zero, ir.hundred, ir.pts);
    let zr = rate_from_u32(ir.zero);
    let hr = rate_from_u32(ir.hundred);
    let b1 = base(ir, u1);
    let b2 = base(ir, u2);
    for (u, b) in [(u1, &b1), (u2, &b2)] {
        if u < 0 || u > (ONE << 60) {
            // a negative utilisation makes the (public) calculator abort on `lending >= 0`, whatever
            // the curve; the private curve function itself is covered by the theorems only
            // (likewise base*ur overflows I80F48 for utilisations above ~2^75)
            rep.bump("unreachable_ur_skipped");
            continue;
        }
        match b {
            Ok(Some(b)) => {
                if *b < zr || *b > hr {
                    rep.fail(format!("base rate {} outside [zero {}, hundred {}] at ur {}: {}", b, zr, hr, u, desc));
                }
                if let Some((bb, lend, bor)) = rates(ir, u) {
                    if bor < bb {
                        rep.fail(format!("borrow rate {} below base {} at ur {}: {}", bor, bb, u, desc));
                    }
                    if u >= 0 && u <= ONE && lend > bb {
                        rep.fail(format!("lending rate {} above base {} at ur {}: {}", lend, bb, u, desc));
                    }
                }
            }
            _ => rep.fail(format!("rate undefined at ur {} for an accepted curve: {}", u, desc)),
        }
    }
    if let (Ok(Some(a)), Ok(Some(b))) = (&b1, &b2) {
        if a > b {
            rep.fail(format!("curve decreasing: rate({})={} > rate({})={}: {}", u1, a, u2, b, desc));
        }
    }
    // configured points, 0 % and 100 %
    for (pu, pr) in ir.pts.iter().filter(|p| p.0 != 0) {
        match base(ir, util_from_u32(*pu)) {
            Ok(Some(b)) if b == rate_from_u32(*pr) => rep.bump("point_hit"),
            other => rep.fail(format!("rate at configured point ({},{}) is {:?}, expected {}: {}", pu, pr, other, rate_from_u32(*pr), desc)),
        }
    }
    match base(ir, 0) {
        Ok(Some(b)) if b == zr => {}
        other => rep.fail(format!("rate at 0% is {:?}, expected {}: {}", other, zr, desc)),
    }
    match base(ir, ONE) {
        Ok(Some(b)) if b == hr => {}
        other => {
            if ir.pts.iter().any(|p| p.0 == u32::MAX) {
                rep.fail(format!("point-at-u32max-shadows-hundred: rate at 100% is {:?}, configured hundred_util_rate gives {}: {}", other, hr, desc));
            } else {
                rep.fail(format!("rate at 100% is {:?}, expected {}: {}", other, hr, desc));
            }
        }
    }
    rep.sample(format!("{} ur=({},{}) -> {:?},{:?}", desc, u1, u2, b1, b2));
}


/// the REAL (permissionless) `migrate_curve` through dispatch on banks that hold a legacy three-parameter curve: whatever it
/// leaves behind must be a curve `validate()` accepts — usable, bounded, monotone (the predicates of `check_seven`) — and it
/// must price like the curve it replaces (same rate, up to the u32 grid, at 0 %, at the kink, inside both segments, at 100 %)
pub fn migrate_block(rng: &mut Rng, n: usize, rep: &mut Report, frozen_clause: bool) {
    migrate_block_with(rng, n, rep, frozen_clause, &mut None)
}

/// family lines `ir.migrate <config 23> => ok <optimal plateau max zero hundred points x5 curve_type> | err 6015` from the real instruction
pub fn migrate_lines(rng: &mut Rng, n: usize, out: &mut Vec<String>) {
    let mut rep = Report::default();
    let mut l = Some(Vec::new());
    migrate_block_with(rng, n, &mut rep, false, &mut l);
    out.extend(l.unwrap());
}

fn migrate_block_with(rng: &mut Rng, n: usize, rep: &mut Report, frozen_clause: bool, lines: &mut Option<Vec<String>>) {
    use anchor_lang::{InstructionData, ToAccountMetas};
    use marginfi::state::interest_rate::InterestRateConfigImpl;
    let mut done = 0;
    while done < n {
        let s = crate::scen::Scen::build(rng);
        for _ in 0..6 {
            done += 1;
            let h = s.banks[rng.below(s.banks.len() as u64) as usize];
            let mut w = s.w.clone();
            let directed = frozen_clause && done == 1;
            let mut ir = if directed {
                // the recorded witness of C12-F3 first (Mfi.Props.C12.frozenLegacy): optimal 50 %, plateau 100 %, max 1400 %
                let mut x = gen_legacy(&mut Rng::new(1), true);
                x.optimal = ONE / 2; x.plateau = ONE; x.max_ir = 14 * ONE;
                x
            } else if lines.is_some() && rng.chance(1, 4) { if rng.chance(1, 2) { gen_seven(rng, true) } else { gen_legacy(rng, false) } } else { gen_legacy(rng, true) };
            // legal but unusual: rates above the u32 grid's 1000 % ceiling
            if !directed && rng.chance(1, 8) { ir.max_ir = ONE * (10 + rng.below(30) as i128); }
            if !directed && rng.chance(1, 16) { ir.plateau = ONE * 10 + rng.below(ONE as u64) as i128; ir.max_ir = ir.plateau + ONE; }
            let mut bk = w.bank(&h.bank);
            bk.config.interest_rate_config = ir.config();
            let frozen = directed || rng.chance(1, 3);
            if frozen { bk.flags |= marginfi_type_crate::constants::FREEZE_SETTINGS; }
            w.set_bank(&h.bank, &bk);
            if lines.is_none() && (ir.curve_type != 0 || bk.config.interest_rate_config.validate().is_err()) { continue; }
            let group = w.group(&h.group);
            let head = format!("ir.migrate {}", Ir::from_real(&bk.config.interest_rate_config, &group).line());
            let before = bk.config.interest_rate_config;
            let sample = |c: &marginfi_type_crate::types::InterestRateConfig, ur: i128| -> Option<i128> {
                std::panic::catch_unwind(std::panic::AssertUnwindSafe(|| {
                    c.create_interest_rate_calculator(&group).calc_interest_rate(I80F48::from_bits(ur)).map(|r| r.base_rate_apr.to_bits())
                })).ok().flatten()
            };
            let ixn = solana_program::instruction::Instruction {
                program_id: marginfi::ID,
                accounts: marginfi::accounts::MigrateCurve { bank: h.bank }.to_account_metas(None),
                data: marginfi::instruction::MigrateCurve {}.data(),
            };
            let r = w.exec(&ixn);
            rep.bump("migrate_cases");
            if let Some(l) = lines.as_mut() {
                match &r {
                    Ok(()) => {
                        let a = w.bank(&h.bank).config.interest_rate_config;
                        let bits = |v: marginfi_type_crate::types::WrappedI80F48| I80F48::from(v).to_bits();
                        l.push(format!("{} => ok {} {} {} {} {} {} {}", head, bits(a.optimal_utilization_rate), bits(a.plateau_interest_rate), bits(a.max_interest_rate),
                            a.zero_util_rate, a.hundred_util_rate, a.points.iter().map(|p| format!("{} {}", p.util, p.rate)).collect::<Vec<_>>().join(" "), a.curve_type));
                    }
                    Err(crate::world::ExecErr::Custom(c)) => l.push(format!("{} => err {}", head, c)),
                    Err(crate::world::ExecErr::Panic) => l.push(format!("{} => panic", head)),
                    Err(_) => {}
                }
                continue;
            }
            if r.is_err() { rep.bump("migrate_refused"); continue; }
            rep.bump("migrate_ok");
            let after = w.bank(&h.bank).config.interest_rate_config;
            let desc = format!("legacy optimal {} plateau {} max {} -> zero {} hundred {} points {:?}{}", ir.optimal, ir.plateau, ir.max_ir, after.zero_util_rate, after.hundred_util_rate,
                after.points.iter().map(|p| (p.util, p.rate)).collect::<Vec<_>>(), if frozen { " [settings frozen]" } else { "" });
            if !frozen_clause {
                if after.validate().is_err() {
                    rep.fail(format!("migrate_curve left a curve that validate() rejects: {}", desc));
                    continue;
                }
                let new_ir = Ir::from_real(&after, &group);
                check_seven(&new_ir, ir.optimal / 2, (ir.optimal + ONE) / 2, rep);
            }
            // same prices as before, up to the grid: 1000 % / 2^32 per rate and 1 / 2^32 of utilisation on the steeper slope
            let slope = (ir.plateau * ONE / ir.optimal.max(1)).max((ir.max_ir - ir.plateau) * ONE / (ONE - ir.optimal).max(1));
            let tol = (10 * ONE >> 31) + (slope >> 31) + 4;
            for ur in [0, ir.optimal / 2, ir.optimal, (ir.optimal + ONE) / 2, ONE] {
                if let (Some(a), Some(b)) = (sample(&before, ur), sample(&after, ur)) {
                    if (a - b).abs() > tol {
                        rep.bump("migrate_changes_rate");
                        if frozen && frozen_clause {
                            rep.fail(format!("migrate-curve-changes-frozen-rate: the permissionless migrate_curve changed the base rate of a bank whose settings are FROZEN at utilisation {} from {} to {}: {}", ur, a, b, desc));
                        }
                    }
                }
            }
        }
    }
}
