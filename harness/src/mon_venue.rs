//! monitor "VEN": the six venue-backed oracle arms (Kamino / Drift / Solend × Pyth push / Switchboard pull) of the REAL
//! `OraclePriceFeedAdapter::try_from_bank`, on really-laid-out accounts: a valid, fresh price account plus the venue
//! account (reserve / spot market) with exactly one deviation at a time. Predicates from the property texts:
//!   C20: a venue account not refreshed in the current slot (Kamino, Solend) / second (Drift) is treated as stale;
//!   C09: a price is produced only from the configured oracle account AND the configured, venue-owned venue account.
use crate::mon::Report;
use crate::rng::Rng;
use anchor_lang::prelude::*;
use anchor_lang::Discriminator;
use marginfi::constants::SWITCHBOARD_PULL_ID;
use marginfi::state::price::{OraclePriceFeedAdapter, OraclePriceType, PriceAdapter};
use marginfi_type_crate::types::{Bank, OracleSetup};
use pyth_solana_receiver_sdk::price_update::{PriceFeedMessage, PriceUpdateV2, VerificationLevel};
use std::panic::{catch_unwind, AssertUnwindSafe};
use switchboard_on_demand::PullFeedAccountData;

#[derive(Clone, Copy, Debug, PartialEq)]
enum Dev {
    None,
    RefreshedLater,   // venue stamped AFTER the current slot/second: not stale by the code's own definition
    StaleByOne,
    StaleFar,
    WrongVenueKey,
    WrongVenueOwner,
    WrongVenueDisc,
    WrongOracleKey,
    /// everything valid and fresh, but the oracle reports a zero or negative price
    NonPositivePrice,
}

fn desc_of(setup: OracleSetup, dev: Dev, slot: u64, now: i64) -> String {
    format!("{:?} {:?} (clock slot {} unix {})", setup, dev, slot, now)
}

pub fn run(rng: &mut Rng, n: usize, rep: &mut Report) {
    crate::stubs::install();
    let setups = [
        OracleSetup::KaminoPythPush,
        OracleSetup::KaminoSwitchboardPull,
        OracleSetup::DriftPythPull,
        OracleSetup::DriftSwitchboardPull,
        OracleSetup::SolendPythPull,
        OracleSetup::SolendSwitchboardPull,
    ];
    let devs = [Dev::None, Dev::RefreshedLater, Dev::StaleByOne, Dev::StaleFar, Dev::WrongVenueKey, Dev::WrongVenueOwner, Dev::WrongVenueDisc, Dev::WrongOracleKey, Dev::NonPositivePrice];
    for i in 0..n {
        rep.bump("cases");
        let setup = setups[i % setups.len()];
        let dev = devs[(i / setups.len()) % devs.len()];
        // realistic clocks: slot and unix time are of very different magnitudes, in either order
        let (slot, now): (u64, i64) = match rng.below(4) {
            0 => (300_000_000 + rng.below(1_000_000), 1_790_000_000 + rng.range(0, 1_000_000)),
            1 => (rng.below(5000) + 2, 1_700_000_000 + rng.range(0, 1_000_000)),
            2 => (3_000_000_000 + rng.below(1_000_000), 1_700_000_000 + rng.range(0, 1_000_000)),
            _ => (1000 + rng.below(1000), 1_700_000_000 + rng.range(0, 100_000_000)),
        };
        crate::stubs::set_clock(now, slot);
        let clock = Clock { slot, epoch_start_timestamp: 0, epoch: 0, leader_schedule_epoch: 0, unix_timestamp: now };
        let is_pyth = matches!(setup, OracleSetup::KaminoPythPush | OracleSetup::DriftPythPull | OracleSetup::SolendPythPull);
        let venue = match setup {
            OracleSetup::KaminoPythPush | OracleSetup::KaminoSwitchboardPull => 0,
            OracleSetup::DriftPythPull | OracleSetup::DriftSwitchboardPull => 1,
            _ => 2,
        };
        let okey = Pubkey::new_from_array([3u8; 32]);
        let vkey = Pubkey::new_from_array([5u8; 32]);
        let other = Pubkey::new_from_array([9u8; 32]);
        let mut bank = Bank::default();
        bank.config.oracle_setup = setup;
        bank.config.oracle_max_age = 60;
        bank.config.oracle_keys[0] = okey;
        bank.config.oracle_keys[1] = vkey;
        // ---- the price account: valid and fresh
        let mut odata = Vec::new();
        let oowner;
        let neg: i64 = if dev == Dev::NonPositivePrice { *rng.pick(&[0i64, -1, -150_000_000, -2_000_000, i64::MIN / 4]) } else { 2_000_000 };
        if is_pyth {
            let upd = PriceUpdateV2 {
                write_authority: Pubkey::default(),
                verification_level: VerificationLevel::Full,
                price_message: PriceFeedMessage { feed_id: okey.to_bytes(), price: neg, conf: 1000, exponent: -6, publish_time: now - 1, prev_publish_time: now - 2, ema_price: neg, ema_conf: 1000 },
                posted_slot: slot,
            };
            odata.extend_from_slice(<PriceUpdateV2 as Discriminator>::DISCRIMINATOR);
            upd.serialize(&mut odata).unwrap();
            if odata.len() < PriceUpdateV2::LEN { odata.resize(PriceUpdateV2::LEN, 0); }
            oowner = pyth_solana_receiver_sdk::id();
        } else {
            let mut feed: PullFeedAccountData = bytemuck::Zeroable::zeroed();
            feed.result.value = if dev == Dev::NonPositivePrice { (neg as i128) * 1_000_000_000_000 } else { 2_000_000_000_000_000_000 };
            feed.result.std_dev = 1_000_000_000_000_000;
            feed.last_update_timestamp = now - 1;
            odata.extend_from_slice(&<PullFeedAccountData as switchboard_on_demand::Discriminator>::DISCRIMINATOR);
            odata.extend_from_slice(bytemuck::bytes_of(&feed));
            oowner = SWITCHBOARD_PULL_ID;
        }
        // ---- the venue account
        let stamp_slot = match dev { Dev::StaleByOne => slot - 1, Dev::StaleFar => slot.saturating_sub(1 + rng.below(slot)), Dev::RefreshedLater => slot + 1 + rng.below(3), _ => slot };
        let stamp_ts = match dev { Dev::StaleByOne => now - 1, Dev::StaleFar => now - 1 - rng.below(100_000) as i64, Dev::RefreshedLater => now + 1 + rng.below(3) as i64, _ => now };
        let mut vdata: Vec<u8> = Vec::new();
        let vowner_ok;
        match venue {
            0 => {
                let mut r: kamino_mocks::state::MinimalReserve = bytemuck::Zeroable::zeroed();
                r.slot = stamp_slot;
                // a live exchange rate (1.05 liquidity per collateral unit) in two thirds of the cases, an empty reserve otherwise
                if rng.chance(2, 3) {
                    r.available_amount = 1_050_000_000 + rng.below(100_000_000);
                    r.mint_total_supply = 1_000_000_000;
                    r.mint_decimals = 6;
                }
                vdata.extend_from_slice(<kamino_mocks::state::MinimalReserve as Discriminator>::DISCRIMINATOR);
                vdata.extend_from_slice(bytemuck::bytes_of(&r));
                vowner_ok = kamino_mocks::ID;
            }
            1 => {
                let m = crate::fam_integr::spot_market(6, 10_000_000_000 + rng.below(2_000_000_000) as u128, stamp_ts as u64);
                vdata.extend_from_slice(<drift_mocks::state::MinimalSpotMarket as Discriminator>::DISCRIMINATOR);
                vdata.extend_from_slice(bytemuck::bytes_of(&m));
                vowner_ok = drift_mocks::ID;
            }
            _ => {
                let mut r: solend_mocks::state::SolendMinimalReserve = bytemuck::Zeroable::zeroed();
                r.last_update_slot = stamp_slot;
                if rng.chance(2, 3) {
                    r.liquidity_available_amount = 1_050_000_000 + rng.below(100_000_000);
                    r.collateral_mint_total_supply = 1_000_000_000;
                    r.liquidity_mint_decimals = 6;
                }
                vdata.extend_from_slice(<solend_mocks::state::SolendMinimalReserve as Discriminator>::DISCRIMINATOR);
                vdata.extend_from_slice(bytemuck::bytes_of(&r));
                vowner_ok = solend_mocks::ID;
            }
        }
        if dev == Dev::WrongVenueDisc { vdata[0] ^= 0x5a; }
        let ok_key = if dev == Dev::WrongOracleKey { other } else { okey };
        let v_key = if dev == Dev::WrongVenueKey { other } else { vkey };
        let v_owner = if dev == Dev::WrongVenueOwner { solana_program::system_program::ID } else { vowner_ok };
        let (mut l1, mut l2) = (1u64, 1u64);
        let a0 = AccountInfo::new(&ok_key, false, false, &mut l1, &mut odata, &oowner, false, 0);
        let a1 = AccountInfo::new(&v_key, false, false, &mut l2, &mut vdata, &v_owner, false, 0);
        let ais = [a0, a1];
        let r = catch_unwind(AssertUnwindSafe(|| {
            let ad = OraclePriceFeedAdapter::try_from_bank(&bank, &ais, &clock)?;
            if dev == Dev::NonPositivePrice {
                // what liquidation / receivership withdraw ask for before `check!(price > 0)`
                ad.get_price_of_type(OraclePriceType::RealTime, Some(marginfi::state::price::PriceBias::Low), 0)
            } else {
                ad.get_price_of_type(OraclePriceType::RealTime, None, 0)
            }
        }));
        let desc = format!("{:?} {:?} (clock slot {} unix {}; venue stamped slot {} / ts {})", setup, dev, slot, now, stamp_slot, stamp_ts);
        if dev == Dev::NonPositivePrice {
            rep.bump(match &r { Ok(Ok(p)) if *p > fixed::types::I80F48::ZERO => "nonpositive_became_positive", Ok(Ok(_)) => "nonpositive_stays_nonpositive", _ => "nonpositive_refused" });
            if let Ok(Ok(p)) = &r {
                if *p > fixed::types::I80F48::ZERO {
                    rep.fail(format!("C09 a zero or negative reported price ({}) came out of the adapter as the POSITIVE price {} (usable to seize collateral / size a liquidation): {}", neg, p, desc_of(setup, dev, slot, now)));
                }
            }
            continue;
        }
        let produced = matches!(&r, Ok(Ok(_)));
        rep.bump(&format!("{}_{:?}", if produced { "priced" } else { "refused" }, dev));
        match dev {
            Dev::NonPositivePrice => {} // judged above
            Dev::RefreshedLater => {} // not required either way by the property; counted in the statistics only
            Dev::None => {
                if !produced {
                    rep.fail(format!("C20 a venue-backed bank with a fresh venue account and a valid price is refused: {}", desc));
                }
            }
            Dev::StaleByOne | Dev::StaleFar => {
                if produced {
                    rep.fail(format!("C20 venue-not-refreshed-accepted: a price was produced although the venue account was not refreshed in the current {}: {}", if venue == 1 { "second" } else { "slot" }, desc));
                }
            }
            Dev::WrongVenueKey | Dev::WrongVenueOwner | Dev::WrongVenueDisc | Dev::WrongOracleKey => {
                if produced {
                    rep.fail(format!("C09 a price was produced from accounts that are not the configured, venue-owned ones: {}", desc));
                }
            }
        }
    }
}
