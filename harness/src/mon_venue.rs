//! monitor "VEN": the six venue-backed oracle arms (Kamino / Drift / Solend × Pyth push / Switchboard pull) of the REAL
//! `OraclePriceFeedAdapter::try_from_bank`, on really-laid-out accounts: a valid, fresh price account plus the venue
//! account (reserve / spot market) with exactly one deviation at a time. Predicates from the property texts:
//!   C20: a venue account not refreshed in the current slot (Kamino, Solend) / second (Drift) is treated as stale;
//!   C09: a price is produced only from the configured oracle account AND the configured, venue-owned venue account.
use crate::mon::Report;
use crate::rng::Rng;
use anchor_lang::prelude::*;
use anchor_lang::Discriminator;
use marginfi::constants::SWITCHBOARD_PULL_ID;
use marginfi::state::price::{OraclePriceFeedAdapter, OraclePriceType, PriceAdapter, PriceBias};
use marginfi_type_crate::types::{Bank, OracleSetup};
use pyth_solana_receiver_sdk::price_update::{PriceFeedMessage, PriceUpdateV2, VerificationLevel};
use std::panic::{catch_unwind, AssertUnwindSafe};
use switchboard_on_demand::PullFeedAccountData;

#[derive(Clone, Copy, Debug, PartialEq)]
enum Dev {
    None,
    RefreshedLater,   // venue stamped AFTER the current slot/second: not stale by the code's own definition
    StaleByOne,
    StaleFar,
    WrongVenueKey,
    WrongVenueOwner,
    WrongVenueDisc,
    WrongOracleKey,
    /// everything valid and fresh, but the oracle reports a zero or negative price
    NonPositivePrice,
}

fn desc_of(setup: OracleSetup, dev: Dev, slot: u64, now: i64) -> String {
    format!("{:?} {:?} (clock slot {} unix {})", setup, dev, slot, now)
}

/// a Kamino reserve whose total liquidity is exactly `l` (I80F48 bits): available + borrowed − the three fee buckets, each
/// stored at 2^-60 with its low 12 bits clear so that no conversion truncates. Half of the time nothing is lent and no fees are
/// due (total = available + a borrowed fraction); otherwise the fee buckets are filled — one time in two beyond what is
/// borrowed (borrowers have repaid, `redeem_fees` has not run): the total then is BELOW the available amount.
fn kamino_split(rng: &mut Rng, l: i128, r: &mut kamino_mocks::state::MinimalReserve) {
    let frac_mask = (1i128 << 48) - 1;
    if rng.chance(1, 2) || l < 0 {
        r.available_amount = (l >> 48) as u64;
        r.borrowed_amount_sf = (((l & frac_mask) as u128) << 12).to_le_bytes();
        return;
    }
    let f = |rng: &mut Rng| -> i128 { match rng.below(4) { 0 => 0, 1 => rng.below(1 << 20) as i128, 2 => (rng.below(1_000_000) as i128) << 48, _ => ((rng.below(1_000_000) as i128) << 48) + rng.below(1 << 48) as i128 } };
    let (f1, f2, f3) = (f(rng), f(rng), f(rng));
    let fees = f1 + f2 + f3;
    let top = (l + fees) >> 48; // the most that can be booked as borrowed (whole tokens)
    let bi: i128 = if rng.chance(1, 2) { 0 } else { (rng.below((top.min(1 << 40) + 1) as u64)) as i128 };
    let b = (bi << 48) + ((l + fees) & frac_mask);
    let avail = (l + fees - b) >> 48;
    if avail < 0 || avail > u64::MAX as i128 {
        r.available_amount = (l >> 48) as u64;
        r.borrowed_amount_sf = (((l & frac_mask) as u128) << 12).to_le_bytes();
        return;
    }
    r.available_amount = avail as u64;
    r.borrowed_amount_sf = ((b as u128) << 12).to_le_bytes();
    r.accumulated_protocol_fees_sf = ((f1 as u128) << 12).to_le_bytes();
    r.accumulated_referrer_fees_sf = ((f2 as u128) << 12).to_le_bytes();
    r.pending_referrer_fees_sf = ((f3 as u128) << 12).to_le_bytes();
}

pub fn run(rng: &mut Rng, n: usize, rep: &mut Report) {
    crate::stubs::install();
    run_staked(rng, (n / 4).max(8), rep);
    let setups = [
        OracleSetup::KaminoPythPush,
        OracleSetup::KaminoSwitchboardPull,
        OracleSetup::DriftPythPull,
        OracleSetup::DriftSwitchboardPull,
        OracleSetup::SolendPythPull,
        OracleSetup::SolendSwitchboardPull,
    ];
    let devs = [Dev::None, Dev::RefreshedLater, Dev::StaleByOne, Dev::StaleFar, Dev::WrongVenueKey, Dev::WrongVenueOwner, Dev::WrongVenueDisc, Dev::WrongOracleKey, Dev::NonPositivePrice];
    for i in 0..n {
        rep.bump("cases");
        let setup = setups[i % setups.len()];
        let dev = devs[(i / setups.len()) % devs.len()];
        // realistic clocks: slot and unix time are of very different magnitudes, in either order
        let (slot, now): (u64, i64) = match rng.below(4) {
            0 => (300_000_000 + rng.below(1_000_000), 1_790_000_000 + rng.range(0, 1_000_000)),
            1 => (rng.below(5000) + 2, 1_700_000_000 + rng.range(0, 1_000_000)),
            2 => (3_000_000_000 + rng.below(1_000_000), 1_700_000_000 + rng.range(0, 1_000_000)),
            _ => (1000 + rng.below(1000), 1_700_000_000 + rng.range(0, 100_000_000)),
        };
        crate::stubs::set_clock(now, slot);
        let clock = Clock { slot, epoch_start_timestamp: 0, epoch: 0, leader_schedule_epoch: 0, unix_timestamp: now };
        let is_pyth = matches!(setup, OracleSetup::KaminoPythPush | OracleSetup::DriftPythPull | OracleSetup::SolendPythPull);
        let venue = match setup {
            OracleSetup::KaminoPythPush | OracleSetup::KaminoSwitchboardPull => 0,
            OracleSetup::DriftPythPull | OracleSetup::DriftSwitchboardPull => 1,
            _ => 2,
        };
        let okey = Pubkey::new_from_array([3u8; 32]);
        let vkey = Pubkey::new_from_array([5u8; 32]);
        let other = Pubkey::new_from_array([9u8; 32]);
        let mut bank = Bank::default();
        bank.config.oracle_setup = setup;
        bank.config.oracle_max_age = 60;
        bank.config.oracle_keys[0] = okey;
        bank.config.oracle_keys[1] = vkey;
        // ---- the price account: valid and fresh
        let mut odata = Vec::new();
        let oowner;
        let neg: i64 = if dev == Dev::NonPositivePrice { *rng.pick(&[0i64, -1, -150_000_000, -2_000_000, i64::MIN / 4]) } else { 2_000_000 };
        if is_pyth {
            let upd = PriceUpdateV2 {
                write_authority: Pubkey::default(),
                verification_level: VerificationLevel::Full,
                price_message: PriceFeedMessage { feed_id: okey.to_bytes(), price: neg, conf: 1000, exponent: -6, publish_time: now - 1, prev_publish_time: now - 2, ema_price: neg, ema_conf: 1000 },
                posted_slot: slot,
            };
            odata.extend_from_slice(<PriceUpdateV2 as Discriminator>::DISCRIMINATOR);
            upd.serialize(&mut odata).unwrap();
            if odata.len() < PriceUpdateV2::LEN { odata.resize(PriceUpdateV2::LEN, 0); }
            oowner = pyth_solana_receiver_sdk::id();
        } else {
            let mut feed: PullFeedAccountData = bytemuck::Zeroable::zeroed();
            feed.result.value = if dev == Dev::NonPositivePrice { (neg as i128) * 1_000_000_000_000 } else { 2_000_000_000_000_000_000 };
            feed.result.std_dev = 1_000_000_000_000_000;
            feed.last_update_timestamp = now - 1;
            odata.extend_from_slice(&<PullFeedAccountData as switchboard_on_demand::Discriminator>::DISCRIMINATOR);
            odata.extend_from_slice(bytemuck::bytes_of(&feed));
            oowner = SWITCHBOARD_PULL_ID;
        }
        // ---- the venue account
        let stamp_slot = match dev { Dev::StaleByOne => slot - 1, Dev::StaleFar => slot.saturating_sub(1 + rng.below(slot)), Dev::RefreshedLater => slot + 1 + rng.below(3), _ => slot };
        let stamp_ts = match dev { Dev::StaleByOne => now - 1, Dev::StaleFar => now - 1 - rng.below(100_000) as i64, Dev::RefreshedLater => now + 1 + rng.below(3) as i64, _ => now };
        let mut vdata: Vec<u8> = Vec::new();
        let vowner_ok;
        match venue {
            0 => {
                let mut r: kamino_mocks::state::MinimalReserve = bytemuck::Zeroable::zeroed();
                r.slot = stamp_slot;
                // a live exchange rate (1.05 liquidity per collateral unit) in two thirds of the cases, an empty reserve otherwise
                if rng.chance(2, 3) {
                    r.available_amount = 1_050_000_000 + rng.below(100_000_000);
                    r.mint_total_supply = 1_000_000_000;
                    r.mint_decimals = 6;
                }
                vdata.extend_from_slice(<kamino_mocks::state::MinimalReserve as Discriminator>::DISCRIMINATOR);
                vdata.extend_from_slice(bytemuck::bytes_of(&r));
                vowner_ok = kamino_mocks::ID;
            }
            1 => {
                let m = crate::fam_integr::spot_market(6, 10_000_000_000 + rng.below(2_000_000_000) as u128, stamp_ts as u64);
                vdata.extend_from_slice(<drift_mocks::state::MinimalSpotMarket as Discriminator>::DISCRIMINATOR);
                vdata.extend_from_slice(bytemuck::bytes_of(&m));
                vowner_ok = drift_mocks::ID;
            }
            _ => {
                let mut r: solend_mocks::state::SolendMinimalReserve = bytemuck::Zeroable::zeroed();
                r.last_update_slot = stamp_slot;
                if rng.chance(2, 3) {
                    r.liquidity_available_amount = 1_050_000_000 + rng.below(100_000_000);
                    r.collateral_mint_total_supply = 1_000_000_000;
                    r.liquidity_mint_decimals = 6;
                }
                vdata.extend_from_slice(<solend_mocks::state::SolendMinimalReserve as Discriminator>::DISCRIMINATOR);
                vdata.extend_from_slice(bytemuck::bytes_of(&r));
                vowner_ok = solend_mocks::ID;
            }
        }
        if dev == Dev::WrongVenueDisc { vdata[0] ^= 0x5a; }
        let ok_key = if dev == Dev::WrongOracleKey { other } else { okey };
        let v_key = if dev == Dev::WrongVenueKey { other } else { vkey };
        let v_owner = if dev == Dev::WrongVenueOwner { solana_program::system_program::ID } else { vowner_ok };
        let (mut l1, mut l2) = (1u64, 1u64);
        let a0 = AccountInfo::new(&ok_key, false, false, &mut l1, &mut odata, &oowner, false, 0);
        let a1 = AccountInfo::new(&v_key, false, false, &mut l2, &mut vdata, &v_owner, false, 0);
        let ais = [a0, a1];
        let r = catch_unwind(AssertUnwindSafe(|| {
            let ad = OraclePriceFeedAdapter::try_from_bank(&bank, &ais, &clock)?;
            if dev == Dev::NonPositivePrice {
                // what liquidation / receivership withdraw ask for before `check!(price > 0)`
                ad.get_price_of_type(OraclePriceType::RealTime, Some(marginfi::state::price::PriceBias::Low), 0)
            } else {
                ad.get_price_of_type(OraclePriceType::RealTime, None, 0)
            }
        }));
        let desc = format!("{:?} {:?} (clock slot {} unix {}; venue stamped slot {} / ts {})", setup, dev, slot, now, stamp_slot, stamp_ts);
        if dev == Dev::NonPositivePrice {
            rep.bump(match &r { Ok(Ok(p)) if *p > fixed::types::I80F48::ZERO => "nonpositive_became_positive", Ok(Ok(_)) => "nonpositive_stays_nonpositive", _ => "nonpositive_refused" });
            if let Ok(Ok(p)) = &r {
                if *p > fixed::types::I80F48::ZERO {
                    rep.fail(format!("C09 a zero or negative reported price ({}) came out of the adapter as the POSITIVE price {} (usable to seize collateral / size a liquidation): {}", neg, p, desc_of(setup, dev, slot, now)));
                }
            }
            continue;
        }
        let produced = matches!(&r, Ok(Ok(_)));
        rep.bump(&format!("{}_{:?}", if produced { "priced" } else { "refused" }, dev));
        match dev {
            Dev::NonPositivePrice => {} // judged above
            Dev::RefreshedLater => {} // not required either way by the property; counted in the statistics only
            Dev::None => {
                if !produced {
                    rep.fail(format!("C20 a venue-backed bank with a fresh venue account and a valid price is refused: {}", desc));
                }
            }
            Dev::StaleByOne | Dev::StaleFar => {
                if produced {
                    rep.fail(format!("C20 venue-not-refreshed-accepted: a price was produced although the venue account was not refreshed in the current {}: {}", if venue == 1 { "second" } else { "slot" }, desc));
                }
            }
            Dev::WrongVenueKey | Dev::WrongVenueOwner | Dev::WrongVenueDisc | Dev::WrongOracleKey => {
                if produced {
                    rep.fail(format!("C09 a price was produced from accounts that are not the configured, venue-owned ones: {}", desc));
                    rep.fail(format!("C08 a substituted oracle / venue account (another bank's or another program's) was accepted: {}", desc));
                }
            }
        }
    }
}

// ---------------------------------------------------------------------------------------------------------------
// the staked-collateral arm (`OracleSetup::StakedWithPythPush`): SOL price feed + pool-token mint + the pool's stake
// account, all really laid out; the REAL `try_from_bank` does the re-scaling inline, so this is the only way to it.

#[derive(Clone, Copy, Debug, PartialEq)]
pub enum SDev {
    None,
    WrongMintKey,
    WrongStakeKey,
    WrongOracleKey,
    WrongOracleOwner,
    StalePrice,
    Unverified,
}

pub struct StakedCase {
    pub price: i64,
    pub ema: i64,
    pub conf: u64,
    pub expo: i32,
    pub stake: u64,
    pub supply: u64,
    pub dev: SDev,
    pub now: i64,
    pub slot: u64,
}

/// spot and time-weighted price the real adapter produces (`Ok(Ok(..))`), its error code, or a panic (`Err(())`)
pub fn staked_eval(c: &StakedCase) -> std::result::Result<std::result::Result<(fixed::types::I80F48, fixed::types::I80F48), u32>, ()> {
    crate::stubs::install();
    crate::stubs::set_clock(c.now, c.slot);
    let clock = Clock { slot: c.slot, epoch_start_timestamp: 0, epoch: 0, leader_schedule_epoch: 0, unix_timestamp: c.now };
    let okey = Pubkey::new_from_array([3u8; 32]);
    let mkey = Pubkey::new_from_array([6u8; 32]);
    let skey = Pubkey::new_from_array([7u8; 32]);
    let other = Pubkey::new_from_array([9u8; 32]);
    let mut bank = Bank::default();
    bank.config.oracle_setup = OracleSetup::StakedWithPythPush;
    bank.config.oracle_max_age = 60;
    bank.config.oracle_keys[0] = okey;
    bank.config.oracle_keys[1] = mkey;
    bank.config.oracle_keys[2] = skey;
    let publish = if c.dev == SDev::StalePrice { c.now - 61 } else { c.now - 1 };
    let upd = PriceUpdateV2 {
        write_authority: Pubkey::default(),
        verification_level: if c.dev == SDev::Unverified { VerificationLevel::Partial { num_signatures: 3 } } else { VerificationLevel::Full },
        price_message: PriceFeedMessage { feed_id: okey.to_bytes(), price: c.price, conf: c.conf, exponent: c.expo, publish_time: publish, prev_publish_time: publish - 1, ema_price: c.ema, ema_conf: c.conf },
        posted_slot: c.slot,
    };
    let mut odata = Vec::new();
    odata.extend_from_slice(<PriceUpdateV2 as Discriminator>::DISCRIMINATOR);
    upd.serialize(&mut odata).unwrap();
    if odata.len() < PriceUpdateV2::LEN { odata.resize(PriceUpdateV2::LEN, 0); }
    let oowner = if c.dev == SDev::WrongOracleOwner { solana_program::system_program::ID } else { pyth_solana_receiver_sdk::id() };
    // pool-token mint: a classic SPL mint (82 bytes), 9 decimals
    let mut mdata = vec![0u8; 82];
    mdata[36..44].copy_from_slice(&c.supply.to_le_bytes());
    mdata[44] = 9;
    mdata[45] = 1; // initialised
    let mowner = spl_token::ID;
    // the pool's stake account: StakeStateV2::Stake(meta, stake, flags), bincode/borsh layout written out by hand
    let mut sdata = vec![0u8; 200];
    sdata[0..4].copy_from_slice(&2u32.to_le_bytes()); // variant Stake
    // Meta: rent_exempt_reserve u64, authorized {staker, withdrawer}, lockup {i64, u64, custodian} = 120 bytes (zero)
    // Stake: delegation { voter 32, stake u64, activation_epoch u64, deactivation_epoch u64, warmup_cooldown_rate f64 }, credits_observed u64
    let d0 = 4 + 120;
    sdata[d0 + 32..d0 + 40].copy_from_slice(&c.stake.to_le_bytes());
    sdata[d0 + 48..d0 + 56].copy_from_slice(&u64::MAX.to_le_bytes()); // not deactivated
    sdata[d0 + 56..d0 + 64].copy_from_slice(&0.25f64.to_le_bytes());
    let sowner = solana_program::stake::program::ID;
    let k0 = if c.dev == SDev::WrongOracleKey { other } else { okey };
    let k1 = if c.dev == SDev::WrongMintKey { other } else { mkey };
    let k2 = if c.dev == SDev::WrongStakeKey { other } else { skey };
    let (mut l0, mut l1, mut l2) = (1u64, 1u64, 1u64);
    let a0 = AccountInfo::new(&k0, false, false, &mut l0, &mut odata, &oowner, false, 0);
    let a1 = AccountInfo::new(&k1, false, false, &mut l1, &mut mdata, &mowner, false, 0);
    let a2 = AccountInfo::new(&k2, false, false, &mut l2, &mut sdata, &sowner, false, 0);
    let ais = [a0, a1, a2];
    let r = catch_unwind(AssertUnwindSafe(|| -> anchor_lang::Result<(fixed::types::I80F48, fixed::types::I80F48)> {
        let ad = OraclePriceFeedAdapter::try_from_bank(&bank, &ais, &clock)?;
        let p = ad.get_price_of_type(OraclePriceType::RealTime, None, 0)?;
        let e = ad.get_price_of_type(OraclePriceType::TimeWeighted, None, 0)?;
        Ok((p, e))
    }));
    match r {
        Err(_) => Err(()),
        Ok(Ok(v)) => Ok(Ok(v)),
        Ok(Err(e)) => Ok(Err(crate::errcode(e))),
    }
}

fn staked_gen(rng: &mut Rng) -> (i64, i64, u64, u64) {
    let price: i64 = match rng.below(8) {
        0 => 0,
        1 => -(rng.below(1_000_000_000) as i64),
        2 => rng.next() as i64,
        3 => i64::MAX - rng.below(3) as i64,
        _ => 1 + rng.below(1_000_000_000_000) as i64,
    };
    let ema: i64 = match rng.below(6) {
        0 => price,
        1 => rng.next() as i64,
        2 => -(rng.below(1_000) as i64),
        _ => (price as i128 * (95 + rng.below(10) as i128) / 100) as i64,
    };
    let supply: u64 = match rng.below(8) {
        0 => 0,
        1 => 1 + rng.below(10),
        2 => rng.u64_mixed(),
        _ => 1_000_000_000 * (1 + rng.below(5_000_000)),
    };
    let stake: u64 = match rng.below(8) {
        0 => rng.below(1_000_000_000),
        1 => 1_000_000_000 + rng.below(2),
        2 => rng.u64_mixed(),
        3 => u64::MAX - rng.below(3),
        // around an exchange rate of 1.0 .. 1.3
        _ => 1_000_000_000u64.saturating_add((supply as u128 * (1000 + rng.below(300) as u128) / 1000).min(u64::MAX as u128 / 2) as u64),
    };
    (price, ema, stake, supply)
}

/// family lines `ig.staked <price> <ema> <stake> <supply> => ok <p> <e> | zero | math | panic` from the REAL adapter
/// (exponent 0, so the produced I80F48 prices ARE the re-scaled integers)
pub fn staked_lines(rng: &mut Rng, n: usize, out: &mut Vec<String>) {
    for _ in 0..n {
        let (price, ema, stake, supply) = staked_gen(rng);
        let c = StakedCase { price, ema, conf: 0, expo: 0, stake, supply, dev: SDev::None, now: 1_700_000_000, slot: 1000 };
        let res = match staked_eval(&c) {
            Err(()) => "panic".to_string(),
            Ok(Ok((p, e))) => {
                let (pb, eb) = (p.to_bits(), e.to_bits());
                if pb & ((1i128 << 48) - 1) != 0 || eb & ((1i128 << 48) - 1) != 0 { continue; }
                format!("ok {} {}", pb >> 48, eb >> 48)
            }
            Ok(Err(6092)) => "zero".to_string(),
            Ok(Err(6062)) => "math".to_string(),
            Ok(Err(_)) => continue,
        };
        out.push(format!("ig.staked {} {} {} {} => {}", price, ema, stake, supply, res));
    }
}

/// monitor block: the staked arm with one deviation at a time + an independent valuation of what it produced
pub fn run_staked(rng: &mut Rng, n: usize, rep: &mut Report) {
    use num_bigint::BigInt;
    let devs = [SDev::None, SDev::None, SDev::WrongMintKey, SDev::WrongStakeKey, SDev::WrongOracleKey, SDev::WrongOracleOwner, SDev::StalePrice, SDev::Unverified];
    for i in 0..n {
        rep.bump("staked_cases");
        let dev = devs[i % devs.len()];
        let (price, ema, stake, supply) = staked_gen(rng);
        let expo = -(rng.below(10) as i32);
        let now = 1_700_000_000 + rng.range(0, 100_000_000);
        let c = StakedCase { price, ema, conf: rng.below(1000), expo, stake, supply, dev, now, slot: 5 + rng.below(1_000_000) };
        let r = staked_eval(&c);
        let desc = format!("StakedWithPythPush {:?}: SOL price {} / ema {} x 10^{}, pool stake {} lamports, pool-token supply {}", dev, price, ema, expo, stake, supply);
        let produced = matches!(&r, Ok(Ok(_)));
        rep.bump(&format!("staked_{}_{:?}", if produced { "priced" } else { "refused" }, dev));
        if dev != SDev::None {
            if produced {
                rep.fail(format!("C09 a price was produced from accounts that are not the configured, authentic, fresh ones: {}", desc));
                if matches!(dev, SDev::WrongMintKey | SDev::WrongStakeKey | SDev::WrongOracleKey | SDev::WrongOracleOwner) {
                    rep.fail(format!("C08 a substituted oracle / mint / stake account (another bank's or another program's) was accepted: {}", desc));
                    // seen from the risk gate: the collateral of a borrow / withdrawal is then valued from accounts the CALLER chose
                    // (his own mint with a tiny supply, any stake account with a large delegation), not from the bank's configured
                    // ones: the health the gate computes is not the health of the presented, configured oracle data
                    rep.fail(format!("C04 the price adapter of a staked-collateral bank accepts a pool account that is not the one configured for the bank, so the initial-margin gate of a borrow or withdrawal values the collateral at whatever exchange rate the caller's substitute implies: {}", desc));
                }
            }
            continue;
        }
        if let Ok(Ok((p, e))) = r {
            if supply == 0 || stake < 1_000_000_000 {
                rep.fail(format!("C09 a staked price was produced from an empty pool (no supply, or less than the non-refundable first SOL): {}", desc));
                continue;
            }
            // independent valuation: (x * (stake - 1 SOL)) / supply toward zero, then x 10^expo, in exact rationals
            for (which, x, got) in [("spot", price, p), ("time-weighted", ema, e)] {
                let adj = BigInt::from(x) * BigInt::from(stake - 1_000_000_000);
                let scale = BigInt::from(10u64).pow((-expo) as u32);
                // got (2^-48 units) * supply * 10^-expo  <=  x * (stake-1SOL) * 2^48   for x >= 0
                let lhs = BigInt::from(got.to_bits()) * BigInt::from(supply) * &scale;
                let rhs = &adj << 48u32;
                if x > 0 && lhs > rhs {
                    rep.fail(format!("C09 the staked {} price {} is ABOVE the reported price times the pool's exchange rate: {}", which, got, desc));
                }
                if x <= 0 && got > fixed::types::I80F48::ZERO {
                    rep.fail(format!("C09 a zero or negative reported {} price came out of the staked adapter as the POSITIVE price {}: {}", which, got, desc));
                }
                // and not short of it by more than one feed unit + one ulp
                let unit = (BigInt::from(supply) << 48u32) + BigInt::from(supply) * &scale;
                if x > 0 && &rhs - &lhs > unit {
                    rep.fail(format!("C09 the staked {} price {} is short of price x exchange rate by more than one feed unit: {}", which, got, desc));
                }
            }
        }
    }
}


// ---------------------------------------------------------------------------------------------------------------
// values out of the six venue-backed arms: the exchange-rate re-scaling happens INSIDE `try_from_bank`, so the family lines
// for it are taken from the real adapter on really-laid-out reserve / spot-market accounts (never from a copy of the arm)

fn price_accounts(is_pyth: bool, okey: &Pubkey, now: i64, slot: u64, pyth_price: i64, swb_value: i128) -> (Vec<u8>, Pubkey) {
    let mut odata = Vec::new();
    if is_pyth {
        let upd = PriceUpdateV2 {
            write_authority: Pubkey::default(),
            verification_level: VerificationLevel::Full,
            price_message: PriceFeedMessage { feed_id: okey.to_bytes(), price: pyth_price, conf: 0, exponent: 0, publish_time: now - 1, prev_publish_time: now - 2, ema_price: pyth_price, ema_conf: 0 },
            posted_slot: slot,
        };
        odata.extend_from_slice(<PriceUpdateV2 as Discriminator>::DISCRIMINATOR);
        upd.serialize(&mut odata).unwrap();
        if odata.len() < PriceUpdateV2::LEN { odata.resize(PriceUpdateV2::LEN, 0); }
        (odata, pyth_solana_receiver_sdk::id())
    } else {
        let mut feed: PullFeedAccountData = bytemuck::Zeroable::zeroed();
        feed.result.value = swb_value;
        feed.result.std_dev = 0;
        feed.last_update_timestamp = now - 1;
        odata.extend_from_slice(&<PullFeedAccountData as switchboard_on_demand::Discriminator>::DISCRIMINATOR);
        odata.extend_from_slice(bytemuck::bytes_of(&feed));
        (odata, SWITCHBOARD_PULL_ID)
    }
}

/// `ig.kpyth|kswb|spyth|sswb <liq bits> <col> <dec> <p>` and `ig.dpyth|dswb <cum> <dec> <p>`  =>  `some <adjusted i64>` (Pyth, exponent 0)
/// / `ok <price bits>` (Switchboard) / `none` (MathError) from the REAL adapter
pub fn venue_value_lines(rng: &mut Rng, n: usize, out: &mut Vec<String>) {
    crate::stubs::install();
    let setups = [
        (OracleSetup::KaminoPythPush, "ig.kpyth"), (OracleSetup::KaminoSwitchboardPull, "ig.kswb"),
        (OracleSetup::SolendPythPull, "ig.spyth"), (OracleSetup::SolendSwitchboardPull, "ig.sswb"),
        (OracleSetup::DriftPythPull, "ig.dpyth"), (OracleSetup::DriftSwitchboardPull, "ig.dswb"),
    ];
    for i in 0..n {
        let (setup, name) = setups[i % setups.len()];
        let (slot, now) = (1000u64 + rng.below(1000), 1_700_000_000i64 + rng.range(0, 1_000_000));
        crate::stubs::set_clock(now, slot);
        let clock = Clock { slot, epoch_start_timestamp: 0, epoch: 0, leader_schedule_epoch: 0, unix_timestamp: now };
        let is_pyth = name.ends_with("pyth");
        let okey = Pubkey::new_from_array([3u8; 32]);
        let vkey = Pubkey::new_from_array([5u8; 32]);
        let mut bank = Bank::default();
        bank.config.oracle_setup = setup;
        bank.config.oracle_max_age = 60;
        bank.config.oracle_keys[0] = okey;
        bank.config.oracle_keys[1] = vkey;
        let (l, c, d, p) = crate::fam_integr::gen_reserve_price(rng);
        let p = if rng.chance(1, 12) { -p } else { p };
        let p64 = p.clamp(i64::MIN as i128, i64::MAX as i128) as i64;
        let mut vdata: Vec<u8> = Vec::new();
        let vowner;
        let args;
        match name.as_bytes()[3] {
            b'k' => {
                // total liquidity l = available (integer part) + borrowed_sf / 2^60 (fraction)
                if l < 0 || (l >> 48) > u64::MAX as i128 { continue; }
                let mut r: kamino_mocks::state::MinimalReserve = bytemuck::Zeroable::zeroed();
                r.slot = slot;
                kamino_split(rng, l, &mut r);
                r.mint_total_supply = c;
                r.mint_decimals = d as u64;
                vdata.extend_from_slice(<kamino_mocks::state::MinimalReserve as Discriminator>::DISCRIMINATOR);
                vdata.extend_from_slice(bytemuck::bytes_of(&r));
                vowner = kamino_mocks::ID;
                args = format!("{} {} {}", l, c, d);
            }
            b's' => {
                if l < 0 || (l >> 48) > u64::MAX as i128 { continue; }
                let li = (l >> 48) << 48;
                let mut r: solend_mocks::state::SolendMinimalReserve = bytemuck::Zeroable::zeroed();
                r.last_update_slot = slot;
                r.liquidity_available_amount = (l >> 48) as u64;
                r.collateral_mint_total_supply = c;
                r.liquidity_mint_decimals = d;
                vdata.extend_from_slice(<solend_mocks::state::SolendMinimalReserve as Discriminator>::DISCRIMINATOR);
                vdata.extend_from_slice(bytemuck::bytes_of(&r));
                vowner = solend_mocks::ID;
                args = format!("{} {} {}", li, c, d);
            }
            _ => {
                let cum = crate::fam_integr::cum_interest(rng);
                let dd = rng.below(20) as u32;
                let m = crate::fam_integr::spot_market(dd, cum, now as u64);
                vdata.extend_from_slice(<drift_mocks::state::MinimalSpotMarket as Discriminator>::DISCRIMINATOR);
                vdata.extend_from_slice(bytemuck::bytes_of(&m));
                vowner = drift_mocks::ID;
                args = format!("{} {}", cum, dd);
            }
        }
        let (mut odata, oowner) = price_accounts(is_pyth, &okey, now, slot, p64, p);
        let (mut l1, mut l2) = (1u64, 1u64);
        let a0 = AccountInfo::new(&okey, false, false, &mut l1, &mut odata, &oowner, false, 0);
        let a1 = AccountInfo::new(&vkey, false, false, &mut l2, &mut vdata, &vowner, false, 0);
        let ais = [a0, a1];
        let r = catch_unwind(AssertUnwindSafe(|| {
            let ad = OraclePriceFeedAdapter::try_from_bank(&bank, &ais, &clock)?;
            ad.get_price_of_type(OraclePriceType::RealTime, None, 0)
        }));
        let res = match r {
            Err(_) => "panic".to_string(),
            Ok(Ok(v)) => {
                if is_pyth {
                    if v.to_bits() & ((1i128 << 48) - 1) != 0 { continue; }
                    format!("some {}", v.to_bits() >> 48)
                } else {
                    format!("ok {}", v.to_bits())
                }
            }
            Ok(Err(e)) => match crate::errcode(e) {
                6062 => "none".to_string(),
                c if name.as_bytes()[3] == b'd' && c == 6000 + drift_mocks::DriftMocksError::MathError as u32 => "none".to_string(),
                _ => continue,
            },
        };
        out.push(format!("{} {} {} => {}", name, args, if is_pyth { p64 as i128 } else { p }, res));
    }
}


/// `ig.v4 <venue> <kind> <x y z> p conf ema emaConf maxConf => r1 ; r2 ; r3 ; r4`: all six venue arms of the REAL adapter with a
/// NON-ZERO confidence and a time-weighted price of its own, read out the four ways the risk engine and the liquidation code
/// read a feed (real-time unbiased / low, time-weighted unbiased / high): every component the arm re-scales shows up in one of them
pub fn venue_v4_lines(rng: &mut Rng, n: usize, out: &mut Vec<String>) {
    crate::stubs::install();
    let setups = [
        (OracleSetup::KaminoPythPush, 0u8, 1u8), (OracleSetup::KaminoSwitchboardPull, 0, 2),
        (OracleSetup::SolendPythPull, 1, 1), (OracleSetup::SolendSwitchboardPull, 1, 2),
        (OracleSetup::DriftPythPull, 2, 1), (OracleSetup::DriftSwitchboardPull, 2, 2),
    ];
    for i in 0..n {
        let (setup, venue, kind) = setups[i % setups.len()];
        let (slot, now) = (1000u64 + rng.below(1000), 1_700_000_000i64 + rng.range(0, 1_000_000));
        crate::stubs::set_clock(now, slot);
        let clock = Clock { slot, epoch_start_timestamp: 0, epoch: 0, leader_schedule_epoch: 0, unix_timestamp: now };
        let okey = Pubkey::new_from_array([3u8; 32]);
        let vkey = Pubkey::new_from_array([5u8; 32]);
        let mut bank = Bank::default();
        bank.config.oracle_setup = setup;
        bank.config.oracle_max_age = 60;
        bank.config.oracle_keys[0] = okey;
        bank.config.oracle_keys[1] = vkey;
        let mc: u32 = *rng.pick(&[0u32, 0, u32::MAX, u32::MAX / 10, u32::MAX / 50]);
        bank.config.oracle_max_confidence = mc;
        let (l, c, d, p) = crate::fam_integr::gen_reserve_price(rng);
        let mut vdata: Vec<u8> = Vec::new();
        let vowner;
        let (x, y, z): (String, u64, u8); // (x as text: Drift's cumulative interest is a u128 and may exceed i128)
        match venue {
            0 => {
                if l < 0 || (l >> 48) > u64::MAX as i128 { continue; }
                let mut r: kamino_mocks::state::MinimalReserve = bytemuck::Zeroable::zeroed();
                r.slot = slot;
                kamino_split(rng, l, &mut r);
                r.mint_total_supply = c;
                r.mint_decimals = d as u64;
                vdata.extend_from_slice(<kamino_mocks::state::MinimalReserve as Discriminator>::DISCRIMINATOR);
                vdata.extend_from_slice(bytemuck::bytes_of(&r));
                vowner = kamino_mocks::ID;
                (x, y, z) = (l.to_string(), c, d);
            }
            1 => {
                if l < 0 || (l >> 48) > u64::MAX as i128 { continue; }
                let mut r: solend_mocks::state::SolendMinimalReserve = bytemuck::Zeroable::zeroed();
                r.last_update_slot = slot;
                r.liquidity_available_amount = (l >> 48) as u64;
                r.collateral_mint_total_supply = c;
                r.liquidity_mint_decimals = d;
                vdata.extend_from_slice(<solend_mocks::state::SolendMinimalReserve as Discriminator>::DISCRIMINATOR);
                vdata.extend_from_slice(bytemuck::bytes_of(&r));
                vowner = solend_mocks::ID;
                (x, y, z) = (((l >> 48) << 48).to_string(), c, d);
            }
            _ => {
                let cum = crate::fam_integr::cum_interest(rng);
                let m = crate::fam_integr::spot_market(rng.below(20) as u32, cum, now as u64);
                vdata.extend_from_slice(<drift_mocks::state::MinimalSpotMarket as Discriminator>::DISCRIMINATOR);
                vdata.extend_from_slice(bytemuck::bytes_of(&m));
                vowner = drift_mocks::ID;
                (x, y, z) = (cum.to_string(), 0, 0);
            }
        }
        // price components: a positive price, a time-weighted price within +-10 %, confidences of 0 .. 6 % (around the gates)
        let pa = p.unsigned_abs().max(1);
        let conf_of = |rng: &mut Rng, base: u128| -> u128 { match rng.below(6) { 0 => 0, 1 => base / 1000, 2 => base / 50, 3 => base / 25, 4 => base / 200, _ => rng.below((base / 20).max(1).min(u64::MAX as u128) as u64) as u128 } };
        let (pv, cv, ev, ecv): (i128, i128, i128, i128);
        let mut odata = Vec::new();
        let oowner;
        if kind == 1 {
            let p64 = (pa.min(i64::MAX as u128 / 4)) as i64;
            let ema = ((p64 as i128) * (90 + rng.below(21) as i128) / 100) as i64;
            let conf = conf_of(rng, p64 as u128).min(u64::MAX as u128) as u64;
            let ema_conf = conf_of(rng, ema.unsigned_abs() as u128).min(u64::MAX as u128) as u64;
            let upd = PriceUpdateV2 {
                write_authority: Pubkey::default(),
                verification_level: VerificationLevel::Full,
                price_message: PriceFeedMessage { feed_id: okey.to_bytes(), price: p64, conf, exponent: 0, publish_time: now - 1, prev_publish_time: now - 2, ema_price: ema, ema_conf },
                posted_slot: slot,
            };
            odata.extend_from_slice(<PriceUpdateV2 as Discriminator>::DISCRIMINATOR);
            upd.serialize(&mut odata).unwrap();
            if odata.len() < PriceUpdateV2::LEN { odata.resize(PriceUpdateV2::LEN, 0); }
            oowner = pyth_solana_receiver_sdk::id();
            (pv, cv, ev, ecv) = (p64 as i128, conf as i128, ema as i128, ema_conf as i128);
        } else {
            let value = pa.min(i128::MAX as u128 / 4) as i128;
            let sd = conf_of(rng, value as u128) as i128;
            let mut feed: PullFeedAccountData = bytemuck::Zeroable::zeroed();
            feed.result.value = value;
            feed.result.std_dev = sd;
            feed.last_update_timestamp = now - 1;
            odata.extend_from_slice(&<PullFeedAccountData as switchboard_on_demand::Discriminator>::DISCRIMINATOR);
            odata.extend_from_slice(bytemuck::bytes_of(&feed));
            oowner = SWITCHBOARD_PULL_ID;
            (pv, cv, ev, ecv) = (value, sd, value, sd);
        }
        let (mut l1, mut l2) = (1u64, 1u64);
        let a0 = AccountInfo::new(&okey, false, false, &mut l1, &mut odata, &oowner, false, 0);
        let a1 = AccountInfo::new(&vkey, false, false, &mut l2, &mut vdata, &vowner, false, 0);
        let ais = [a0, a1];
        let ad = catch_unwind(AssertUnwindSafe(|| OraclePriceFeedAdapter::try_from_bank(&bank, &ais, &clock)));
        let res = match ad {
            Err(_) => "panic".to_string(),
            Ok(Err(e)) => match crate::errcode(e) {
                6062 => "none".to_string(),
                c if venue == 2 && c == 6000 + drift_mocks::DriftMocksError::MathError as u32 => "none".to_string(),
                _ => continue,
            },
            Ok(Ok(ad)) => {
                let show = |t: OraclePriceType, b: Option<PriceBias>| -> String {
                    match catch_unwind(AssertUnwindSafe(|| ad.get_price_of_type(t, b, mc))) {
                        Err(_) => "panic".to_string(),
                        Ok(Ok(v)) => format!("ok {}", v.to_bits()),
                        Ok(Err(e)) => format!("err {}", crate::errcode(e)),
                    }
                };
                [show(OraclePriceType::RealTime, None), show(OraclePriceType::RealTime, Some(PriceBias::Low)),
                 show(OraclePriceType::TimeWeighted, None), show(OraclePriceType::TimeWeighted, Some(PriceBias::High))].join(" ; ")
            }
        };
        out.push(format!("ig.v4 {} {} {} {} {} {} {} {} {} {} => {}", venue, kind, x, y, z, pv, cv, ev, ecv, mc, res));
    }
}

/// the Kamino + Pyth arm of the REAL adapter as a function: reserve with total liquidity `l` (I80F48 bits), collateral
/// supply `c`, `d` decimals, Pyth price `p` (exponent 0)  ->  the adjusted integer price, or None (error / not integral)
pub fn kamino_pyth_adjusted(l: i128, c: u64, d: u8, p: i64) -> Option<i64> {
    crate::stubs::install();
    if l < 0 || (l >> 48) > u64::MAX as i128 { return None; }
    let (slot, now) = (1000u64, 1_700_000_000i64);
    crate::stubs::set_clock(now, slot);
    let clock = Clock { slot, epoch_start_timestamp: 0, epoch: 0, leader_schedule_epoch: 0, unix_timestamp: now };
    let okey = Pubkey::new_from_array([3u8; 32]);
    let vkey = Pubkey::new_from_array([5u8; 32]);
    let mut bank = Bank::default();
    bank.config.oracle_setup = OracleSetup::KaminoPythPush;
    bank.config.oracle_max_age = 60;
    bank.config.oracle_keys[0] = okey;
    bank.config.oracle_keys[1] = vkey;
    let mut r: kamino_mocks::state::MinimalReserve = bytemuck::Zeroable::zeroed();
    r.slot = slot;
    // (how the total is split over available / borrowed / fee buckets is derived from the arguments: the function stays a function)
    let mut split_rng = Rng((l as u64) ^ c.rotate_left(17) ^ ((d as u64) << 56) ^ (p as u64).rotate_left(33) ^ 0x9E37_79B9_7F4A_7C15);
    kamino_split(&mut split_rng, l, &mut r);
    r.mint_total_supply = c;
    r.mint_decimals = d as u64;
    let mut vdata: Vec<u8> = Vec::new();
    vdata.extend_from_slice(<kamino_mocks::state::MinimalReserve as Discriminator>::DISCRIMINATOR);
    vdata.extend_from_slice(bytemuck::bytes_of(&r));
    let vowner = kamino_mocks::ID;
    let (mut odata, oowner) = price_accounts(true, &okey, now, slot, p, 0);
    let (mut l1, mut l2) = (1u64, 1u64);
    let a0 = AccountInfo::new(&okey, false, false, &mut l1, &mut odata, &oowner, false, 0);
    let a1 = AccountInfo::new(&vkey, false, false, &mut l2, &mut vdata, &vowner, false, 0);
    let ais = [a0, a1];
    let r = catch_unwind(AssertUnwindSafe(|| {
        let ad = OraclePriceFeedAdapter::try_from_bank(&bank, &ais, &clock)?;
        ad.get_price_of_type(OraclePriceType::RealTime, None, 0)
    }));
    match r {
        Ok(Ok(v)) if v.to_bits() & ((1i128 << 48) - 1) == 0 => i64::try_from(v.to_bits() >> 48).ok(),
        _ => None,
    }
}
