//! C17 monitor: caps and utilisation evaluated on the real Bank after real wrapper operations.
use crate::fam_bank::{gen_balance, gen_bank, gen_op_amount, run_wrapper_op, B, ONE};
use crate::mon::Report;
use crate::rng::Rng;
use fixed::types::I80F48;
use marginfi::state::bank::BankImpl;

/// exact floor(shares·value / 2^48) in bits, 256-bit safe for the magnitudes generated (both < 2^110)
fn amount_bits(shares: i128, sv: i128) -> Option<i128> {
    I80F48::from_bits(shares).checked_mul(I80F48::from_bits(sv)).map(|v| v.to_bits())
}

pub fn run(rng: &mut Rng, n: usize, rep: &mut Report) {
    for _ in 0..n {
        rep.bump("cases");
        let now: i64 = 1_700_000_000 + rng.range(0, 10_000_000);
        let mut bank = gen_bank(rng);
        if bank.asset_tag == 4 {
            bank.asset_tag = 0; // the Drift limit scaling is covered by the correspondence family
        }
        let bal = gen_balance(rng, &bank, now);
        let op = *rng.pick(&["w.dep", "w.bor", "w.wd", "w.rep", "w.wdall"]);
        let amount = gen_op_amount(rng, &bank, &bal);
        let (_, post) = run_wrapper_op(op, &bank, &bal, now, amount);
        if let Some((nb, _)) = post {
            rep.bump(&format!("ok_{}", op));
            check_after(op, &bank, &nb, amount, rep);
        }
        // up-to-limit at the bank level: capacity computed on this very state
        if bank.deposit_limit != u64::MAX {
            let rb = bank.to_bank();
            if let Ok(cap) = rb.get_remaining_deposit_capacity() {
                if cap > 0 {
                    let d = match rng.below(3) {
                        0 => cap,
                        1 => 1,
                        _ => 1 + rng.below(cap),
                    };
                    let fresh = crate::fam_bank::Bal { active: 1, tag: bank.asset_tag, a: 0, l: 0, emis: 0, last_update: now as u64 };
                    let (o, _) = run_wrapper_op("w.dep", &bank, &fresh, now, (d as i128) * ONE);
                    rep.bump("upto_capacity");
                    if o == "err 6003" {
                        rep.fail(format!("deposit of {} <= remaining capacity {} fails BankAssetCapacityExceeded; bank [{}]", d, cap, bank.line()));
                    }
                }
            }
        }
    }
}

fn check_after(op: &str, pre: &B, post: &B, amount: i128, rep: &mut Report) {
    let ta = amount_bits(post.sa, post.asv);
    let tl = amount_bits(post.sl, post.lsv);
    if op == "w.dep" && post.sa > pre.sa && pre.deposit_limit != u64::MAX {
        if let Some(t) = ta {
            if t >= (pre.deposit_limit as i128) << 48 {
                rep.fail(format!("after deposit of {} total deposits {} >= limit {}; pre [{}]", amount, t, pre.deposit_limit, pre.line()));
            }
        }
    }
    if op == "w.bor" && post.sl > pre.sl && pre.borrow_limit != u64::MAX {
        if let Some(t) = tl {
            if t >= (pre.borrow_limit as i128) << 48 {
                rep.fail(format!("after borrow of {} total debt {} >= limit {}; pre [{}]", amount, t, pre.borrow_limit, pre.line()));
            }
        }
    }
    if op == "w.bor" || op == "w.wd" || op == "w.wdall" {
        if let (Some(a), Some(l)) = (ta, tl) {
            if a < l {
                rep.fail(format!("after {} of {} total deposits {} < total debt {}; pre [{}]", op, amount, a, l, pre.line()));
            }
        }
    }
    rep.sample(format!("{} amount={} pre[{}] post[{}]", op, amount, pre.line(), post.line()));
}
