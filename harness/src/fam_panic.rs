//! family `panic`: real PanicState / PanicStateCache transition functions, step by step along
//! random and boundary-directed op sequences (each line carries its own pre-state).
use crate::rng::Rng;
use marginfi::state::panic_state::PanicStateImpl;
use marginfi_type_crate::types::{PanicState, PanicStateCache};

pub fn st(s: &PanicState) -> String {
    format!(
        "{} {} {} {} {}",
        s.pause_flags & 1,
        s.daily_pause_count,
        s.consecutive_pause_count,
        s.pause_start_timestamp,
        s.last_daily_reset_timestamp
    )
}

/// The three pause instructions, executed as the REAL handlers through real dispatch (`marginfi::entry`): a tiny
/// world holding only the fee state (whose panic state is set to `s`) and the global fee admin; the clock is set to
/// `now`; the resulting panic state is read back from the account bytes.
struct PanicWorld {
    w: crate::world::World,
    fee_admin: anchor_lang::prelude::Pubkey,
    fee_state: anchor_lang::prelude::Pubkey,
}

thread_local! {
    static PW: std::cell::RefCell<Option<PanicWorld>> = const { std::cell::RefCell::new(None) };
}

fn with_world<R>(f: impl FnOnce(&mut PanicWorld) -> R) -> R {
    PW.with(|c| {
        let mut b = c.borrow_mut();
        if b.is_none() {
            crate::world::install_stubs();
            let mut w = crate::world::World::new();
            let fee_admin = w.add_wallet(10_000_000_000);
            let fee_wallet = w.add_wallet(0);
            let fee_state = w.add_fee_state(fee_admin, fee_wallet, Default::default());
            *b = Some(PanicWorld { w, fee_admin, fee_state });
        }
        f(b.as_mut().unwrap())
    })
}

fn run_real(s: &mut PanicState, now: i64, which: u8) -> Result<(), u32> {
    with_world(|pw| {
        let mut fs = pw.w.fee_state(&pw.fee_state);
        fs.panic_state = *s;
        let key = pw.fee_state;
        pw.w.set_fee_state(&key, &fs);
        pw.w.set_clock(now, 1000);
        let ix = match which {
            0 => crate::world::ix::panic_pause(pw.fee_admin),
            1 => crate::world::ix::panic_unpause(pw.fee_admin),
            _ => crate::world::ix::panic_unpause_permissionless(),
        };
        match pw.w.exec(&ix) {
            Ok(()) => {
                *s = pw.w.fee_state(&pw.fee_state).panic_state;
                Ok(())
            }
            Err(e) => Err(e.code().unwrap_or(u32::MAX)),
        }
    })
}

pub fn ix_pause(s: &mut PanicState, now: i64) -> Result<(), u32> {
    run_real(s, now, 0)
}

pub fn ix_unpause(s: &mut PanicState, now: i64) -> Result<(), &'static str> {
    run_real(s, now, 1).map_err(|c| match c {
        6083 => "notpaused",
        6082 => "notexpired",
        _ => "other",
    })
}

pub fn ix_unpause_permissionless(s: &mut PanicState, now: i64) -> Result<(), &'static str> {
    run_real(s, now, 2).map_err(|c| match c {
        6083 => "notpaused",
        6082 => "notexpired",
        _ => "other",
    })
}

pub fn gen(rng: &mut Rng, n: usize, out: &mut Vec<String>) {
    let mut produced = 0usize;
    while produced < n {
        // one history
        let mut s = PanicState::default();
        let mut cache = PanicStateCache::default();
        let mut now: i64 = match rng.below(4) {
            0 => 0,
            1 => rng.range(0, 200_000),
            2 => 1_700_000_000 + rng.range(0, 1_000_000),
            _ => rng.range(0, 1 << 40),
        };
        let len = 4 + rng.below(40);
        for _ in 0..len {
            // time passage, directed at the thresholds
            let dt = match rng.below(12) {
                0 => 0,
                1 => 1,
                2 => 1799,
                3 => 1800,
                4 => 1801,
                5 => 3599,
                6 => 3600,
                7 => 86399,
                8 => 86400,
                9 => {
                    // jump exactly to expiry of the current pause (±1)
                    let tgt = s.pause_start_timestamp + 1800 + rng.range(-1, 1);
                    (tgt - now).max(0)
                }
                10 => {
                    let tgt = s.last_daily_reset_timestamp + 86400 + rng.range(-1, 1);
                    (tgt - now).max(0)
                }
                _ => rng.range(0, 5000),
            };
            now += dt;
            let pre = s;
            match rng.below(10) {
                0..=4 => {
                    let r = ix_pause(&mut s, now);
                    out.push(format!(
                        "panic.pause {} {} => {}",
                        st(&pre),
                        now,
                        match r {
                            Ok(()) => format!("ok {}", st(&s)),
                            Err(c) => format!("err {}", c),
                        }
                    ));
                }
                5 => {
                    let r = ix_unpause(&mut s, now);
                    out.push(format!(
                        "panic.unpause {} {} => {}",
                        st(&pre),
                        now,
                        match r {
                            Ok(()) => format!("ok {}", st(&s)),
                            Err(c) => format!("err {}", c),
                        }
                    ));
                }
                6 | 7 => {
                    let r = ix_unpause_permissionless(&mut s, now);
                    out.push(format!(
                        "panic.punpause {} {} => {}",
                        st(&pre),
                        now,
                        match r {
                            Ok(()) => format!("ok {}", st(&s)),
                            Err(c) => format!("err {}", c),
                        }
                    ));
                }
                8 => {
                    cache.update_from_panic_state(&s, now);
                    out.push(format!(
                        "panic.propagate {} {} => {} {} {}",
                        st(&pre),
                        now,
                        cache.pause_flags & 1,
                        cache.pause_start_timestamp,
                        cache.last_cache_update
                    ));
                    // directed gate probes around the cached pause window (a start in the future happens
                    // after an extension): every probe time is >= the time the cache was written
                    for probe in [now, now + 1, cache.pause_start_timestamp - 1, cache.pause_start_timestamp, cache.pause_start_timestamp + 1, cache.pause_start_timestamp + 1799, cache.pause_start_timestamp + 1800, cache.pause_start_timestamp + 1801] {
                        if probe >= now {
                            let gate = cache.is_paused_flag() && !cache.is_expired(probe);
                            out.push(format!("panic.gate {} {} {} => {}", cache.pause_flags & 1, cache.pause_start_timestamp, probe, gate as u8));
                            produced += 1;
                        }
                    }
                }
                _ => {
                    // group gate on the (possibly stale) cache: is_paused_flag && !is_expired
                    let gate = cache.is_paused_flag() && !cache.is_expired(now);
                    out.push(format!(
                        "panic.gate {} {} {} => {}",
                        cache.pause_flags & 1,
                        cache.pause_start_timestamp,
                        now,
                        gate as u8
                    ));
                    // also exercise is_expired/can_pause on the live state
                    out.push(format!(
                        "panic.query {} {} => {} {}",
                        st(&s),
                        now,
                        s.is_expired(now) as u8,
                        s.can_pause(now) as u8
                    ));
                    produced += 1;
                }
            }
            produced += 1;
        }
    }
}
