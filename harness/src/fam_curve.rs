//! family `curve`: InterestRateConfig::validate, InterestRateCalc::calc_interest_rate and
//! calc_interest_rate_accrual_state_changes on generated configurations.
use crate::rng::Rng;
use fixed::types::I80F48;
use marginfi::state::interest_rate::{calc_interest_rate_accrual_state_changes, InterestRateConfigImpl};
use marginfi::state::marginfi_group::MarginfiGroupImpl;
use marginfi_type_crate::types::{InterestRateConfig, MarginfiGroup, RatePoint};
use std::panic::{catch_unwind, AssertUnwindSafe};

pub const ONE: i128 = 1 << 48;

#[derive(Clone, Debug)]
pub struct Ir {
    pub optimal: i128,
    pub plateau: i128,
    pub max_ir: i128,
    pub ins_fixed: i128,
    pub ins_rate: i128,
    pub grp_fixed: i128,
    pub grp_rate: i128,
    pub prog_fixed: i128,
    pub prog_rate: i128,
    pub add_prog: bool,
    pub zero: u32,
    pub hundred: u32,
    pub pts: [(u32, u32); 5],
    pub curve_type: u8,
}

impl Ir {
    pub fn line(&self) -> String {
        format!(
            "{} {} {} {} {} {} {} {} {} {} {} {} {} {}",
            self.optimal,
            self.plateau,
            self.max_ir,
            self.ins_fixed,
            self.ins_rate,
            self.grp_fixed,
            self.grp_rate,
            self.prog_fixed,
            self.prog_rate,
            self.add_prog as u8,
            self.zero,
            self.hundred,
            self.pts.iter().map(|(u, r)| format!("{} {}", u, r)).collect::<Vec<_>>().join(" "),
            self.curve_type
        )
    }
    pub fn config(&self) -> InterestRateConfig {
        let mut c = InterestRateConfig::default();
        c.optimal_utilization_rate = I80F48::from_bits(self.optimal).into();
        c.plateau_interest_rate = I80F48::from_bits(self.plateau).into();
        c.max_interest_rate = I80F48::from_bits(self.max_ir).into();
        c.insurance_fee_fixed_apr = I80F48::from_bits(self.ins_fixed).into();
        c.insurance_ir_fee = I80F48::from_bits(self.ins_rate).into();
        c.protocol_fixed_fee_apr = I80F48::from_bits(self.grp_fixed).into();
        c.protocol_ir_fee = I80F48::from_bits(self.grp_rate).into();
        c.zero_util_rate = self.zero;
        c.hundred_util_rate = self.hundred;
        for i in 0..5 {
            c.points[i] = RatePoint::new(self.pts[i].0, self.pts[i].1);
        }
        c.curve_type = self.curve_type;
        c
    }
    /// the calculator inputs of a REAL bank configuration and group (inverse of `config()` / `group()`)
    pub fn from_real(c: &InterestRateConfig, g: &MarginfiGroup) -> Ir {
        let bits = |v: marginfi_type_crate::types::WrappedI80F48| I80F48::from(v).to_bits();
        let mut pts = [(0u32, 0u32); 5];
        for i in 0..5 {
            pts[i] = (c.points[i].util, c.points[i].rate);
        }
        Ir {
            optimal: bits(c.optimal_utilization_rate),
            plateau: bits(c.plateau_interest_rate),
            max_ir: bits(c.max_interest_rate),
            ins_fixed: bits(c.insurance_fee_fixed_apr),
            ins_rate: bits(c.insurance_ir_fee),
            grp_fixed: bits(c.protocol_fixed_fee_apr),
            grp_rate: bits(c.protocol_ir_fee),
            prog_fixed: bits(g.fee_state_cache.program_fee_fixed),
            prog_rate: bits(g.fee_state_cache.program_fee_rate),
            add_prog: g.program_fees_enabled(),
            zero: c.zero_util_rate,
            hundred: c.hundred_util_rate,
            pts,
            curve_type: c.curve_type,
        }
    }
    pub fn group(&self) -> MarginfiGroup {
        let mut g = MarginfiGroup::default();
        g.set_program_fee_enabled(self.add_prog);
        g.fee_state_cache.program_fee_fixed = I80F48::from_bits(self.prog_fixed).into();
        g.fee_state_cache.program_fee_rate = I80F48::from_bits(self.prog_rate).into();
        g
    }
}

fn small_fee(rng: &mut Rng) -> i128 {
    match rng.below(8) {
        0 => 0,
        1 => rng.below(ONE as u64 / 10) as i128,
        2 => rng.below(ONE as u64) as i128,
        3 => (ONE / 100) * rng.below(30) as i128,
        4 => 1,
        5 => rng.below(1 << 30) as i128,
        6 => 0,
        _ => rng.below(ONE as u64 / 20) as i128,
    }
}

/// a u32 with breakpoints-heavy distribution
fn u32_mixed(rng: &mut Rng) -> u32 {
    match rng.below(8) {
        0 => *rng.pick(&[0u32, 1, 2, u32::MAX, u32::MAX - 1, u32::MAX / 2, u32::MAX / 10, u32::MAX / 10 + 1]),
        1 => rng.below(100) as u32,
        2 => u32::MAX - rng.below(100) as u32,
        _ => rng.next() as u32,
    }
}

/// mostly-valid seven-point curve; `valid` forces validity
pub fn gen_seven(rng: &mut Rng, valid: bool) -> Ir {
    let k = rng.below(6) as usize; // used points
    let mut utils: Vec<u32> = (0..k).map(|_| u32_mixed(rng).max(1)).collect();
    utils.sort();
    if valid {
        utils.dedup();
    }
    // adjacent points sometimes
    if utils.len() >= 2 && rng.chance(1, 4) {
        let u0 = utils[0];
        if u0 < u32::MAX {
            utils[1] = u0 + 1;
            utils.sort();
            utils.dedup();
        }
    }
    let n = utils.len();
    let mut rates: Vec<u32> = (0..n + 2).map(|_| u32_mixed(rng)).collect();
    rates.sort();
    // sometimes flat segments
    if rng.chance(1, 4) && n >= 1 {
        rates[1] = rates[0];
    }
    let zero = rates[0];
    let hundred = rates[n + 1];
    let mut pts = [(0u32, 0u32); 5];
    for i in 0..n {
        pts[i] = (utils[i], rates[i + 1]);
    }
    let mut ir = Ir {
        optimal: 0,
        plateau: 0,
        max_ir: 0,
        ins_fixed: small_fee(rng),
        ins_rate: small_fee(rng),
        grp_fixed: small_fee(rng),
        grp_rate: small_fee(rng),
        prog_fixed: small_fee(rng),
        prog_rate: small_fee(rng),
        add_prog: rng.chance(1, 2),
        zero,
        hundred,
        pts,
        curve_type: 1,
    };
    if !valid {
        // malformed stream: one mutation
        match rng.below(8) {
            0 => {
                // hole
                if n >= 2 {
                    ir.pts[0] = (0, 0);
                }
            }
            1 => {
                // padding with non-zero rate
                if n < 5 {
                    ir.pts[n] = (0, 1 + rng.below(100) as u32);
                }
            }
            2 => {
                // decreasing rate
                if n >= 1 {
                    ir.pts[n - 1].1 = ir.pts[n - 1].1.wrapping_add(rng.next() as u32);
                }
            }
            3 => {
                ir.zero = ir.zero.wrapping_add(rng.next() as u32);
            }
            4 => {
                ir.hundred = ir.hundred.wrapping_sub(rng.next() as u32);
            }
            5 => {
                // duplicate util
                if n >= 2 {
                    ir.pts[1].0 = ir.pts[0].0;
                }
            }
            6 => {
                // swap
                if n >= 2 {
                    ir.pts.swap(0, 1);
                }
            }
            _ => {
                // negative / huge fees
                ir.ins_rate = rng.fx_bits();
                ir.grp_fixed = rng.fx_bits();
            }
        }
    }
    ir
}

pub fn gen_legacy(rng: &mut Rng, valid: bool) -> Ir {
    let optimal = 1 + rng.below(ONE as u64 - 1) as i128;
    let plateau = 1 + rng.below(ONE as u64 * 2) as i128;
    let max_ir = plateau + 1 + rng.below(ONE as u64 * 8) as i128;
    let mut ir = Ir {
        optimal,
        plateau,
        max_ir,
        ins_fixed: small_fee(rng),
        ins_rate: small_fee(rng),
        grp_fixed: small_fee(rng),
        grp_rate: small_fee(rng),
        prog_fixed: small_fee(rng),
        prog_rate: small_fee(rng),
        add_prog: rng.chance(1, 2),
        zero: 0,
        hundred: 0,
        pts: [(0, 0); 5],
        curve_type: 0,
    };
    if !valid {
        match rng.below(5) {
            0 => ir.optimal = *rng.pick(&[0, ONE, -1, ONE + 1]),
            1 => ir.plateau = *rng.pick(&[0, -1]),
            2 => ir.max_ir = ir.plateau,
            3 => ir.max_ir = ir.plateau - 1,
            _ => ir.optimal = rng.fx_bits(),
        }
    }
    ir
}

pub fn gen_ir(rng: &mut Rng) -> Ir {
    match rng.below(10) {
        0..=5 => gen_seven(rng, true),
        6 => gen_seven(rng, false),
        7 | 8 => gen_legacy(rng, true),
        _ => gen_legacy(rng, false),
    }
}

/// utilisation directed at breakpoints
pub fn gen_ur(rng: &mut Rng, ir: &Ir) -> i128 {
    let u32max = u32::MAX as i128;
    match rng.below(10) {
        0 => *rng.pick(&[0i128, 1, ONE, ONE - 1, ONE + 1, -1, ONE / 2, 2 * ONE, ONE + ONE / 2]),
        1 | 2 | 3 => {
            // around a configured breakpoint
            let p = ir.pts[rng.below(5) as usize].0 as i128;
            let bits = (p << 48) / u32max;
            bits.wrapping_add(rng.range(-2, 2) as i128)
        }
        4 => ir.optimal.wrapping_add(rng.range(-2, 2) as i128),
        5 => rng.below(ONE as u64 + 1) as i128,
        6 => rng.below(ONE as u64 * 3) as i128,
        7 => -(rng.below(ONE as u64) as i128),
        8 => rng.fx_bits(),
        _ => rng.below(ONE as u64 + 1) as i128,
    }
}

pub fn calc_line(ir: &Ir, ur: i128) -> String {
    let cfg = ir.config();
    let g = ir.group();
    let r = catch_unwind(AssertUnwindSafe(|| {
        let calc = cfg.create_interest_rate_calculator(&g);
        calc.calc_interest_rate(I80F48::from_bits(ur))
    }));
    let out = match r {
        Err(_) => "panic".to_string(),
        Ok(None) => "none".to_string(),
        Ok(Some(c)) => format!(
            "ok {} {} {} {} {} {}",
            c.base_rate_apr.to_bits(),
            c.lending_rate_apr.to_bits(),
            c.borrowing_rate_apr.to_bits(),
            c.group_fee_apr.to_bits(),
            c.insurance_fee_apr.to_bits(),
            c.protocol_fee_apr.to_bits()
        ),
    };
    format!("ir.calc {} {} => {}", ir.line(), ur, out)
}

pub fn validate_line(ir: &Ir) -> String {
    let cfg = ir.config();
    let r = catch_unwind(AssertUnwindSafe(|| cfg.validate()));
    let out = match r {
        Err(_) => "panic".to_string(),
        Ok(Ok(())) => "ok 1".to_string(),
        Ok(Err(_)) => "ok 0".to_string(),
    };
    format!("ir.validate {} => {}", ir.line(), out)
}

pub fn accrue_line(ir: &Ir, dt: u64, ta: i128, tl: i128, asv: i128, lsv: i128) -> String {
    let cfg = ir.config();
    let g = ir.group();
    let r = catch_unwind(AssertUnwindSafe(|| {
        let calc = cfg.create_interest_rate_calculator(&g);
        calc_interest_rate_accrual_state_changes(
            dt,
            I80F48::from_bits(ta),
            I80F48::from_bits(tl),
            &calc,
            I80F48::from_bits(asv),
            I80F48::from_bits(lsv),
        )
    }));
    let out = match r {
        Err(_) => "panic".to_string(),
        Ok(None) => "none".to_string(),
        Ok(Some(c)) => format!(
            "ok {} {} {} {} {}",
            c.new_asset_share_value.to_bits(),
            c.new_liability_share_value.to_bits(),
            c.insurance_fees_collected.to_bits(),
            c.group_fees_collected.to_bits(),
            c.protocol_fees_collected.to_bits()
        ),
    };
    format!("ir.accrue {} {} {} {} {} {} => {}", ir.line(), dt, ta, tl, asv, lsv, out)
}

pub fn gen_dt(rng: &mut Rng) -> u64 {
    match rng.below(8) {
        0 => 1,
        1 => rng.below(60) + 1,
        2 => rng.below(86400) + 1,
        3 => 31_536_000,
        4 => rng.below(31_536_000 * 5) + 1,
        5 => 3600,
        6 => rng.u64_mixed().max(1),
        _ => rng.below(1_000_000) + 1,
    }
}

pub fn gen_sv(rng: &mut Rng) -> i128 {
    match rng.below(6) {
        0 => ONE,
        1 => ONE + rng.below(ONE as u64) as i128,
        2 => ONE + rng.below(1 << 20) as i128,
        3 => rng.below(ONE as u64) as i128 + 1,
        4 => ONE * (1 + rng.below(1000) as i128) + rng.below(ONE as u64) as i128,
        _ => ONE + rng.below(ONE as u64 / 10) as i128,
    }
}

pub fn gen(rng: &mut Rng, n: usize, out: &mut Vec<String>) {
    // a twentieth: the real (permissionless) migrate_curve instruction through dispatch
    crate::mon_c18::migrate_lines(rng, (n / 20).max(4), out);
    let n = n - out.len().min(n);
    for i in 0..n {
        let ir = gen_ir(rng);
        match i % 4 {
            0 => out.push(validate_line(&ir)),
            1 | 2 => {
                let ur = gen_ur(rng, &ir);
                out.push(calc_line(&ir, ur));
            }
            _ => {
                let ta = rng.fx_amount().max(1);
                let tl = match rng.below(4) {
                    0 => ta,
                    1 => ta / 2,
                    2 => (ta / 100) * rng.below(101) as i128,
                    _ => rng.fx_amount(),
                };
                out.push(accrue_line(&ir, gen_dt(rng), ta, tl, gen_sv(rng), gen_sv(rng)));
            }
        }
    }
}
