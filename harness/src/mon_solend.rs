//! Monitor "SLD" (Level B, real dispatch): lending_pool_add_bank_solend, solend_deposit, solend_withdraw executed for real
//! against a Solend stand-in in the world's CPI dispatcher (world/stubs.rs, `solend_process`; same status as the Kamino and
//! Drift ones). Judged like the KAM monitor: bookings against the obligation's collateral (C02 / C01), token flows (C03), venue
//! answers off the announced conversion (C20), health after a withdrawal with debt (C04), strangers / substitutions (C08),
//! bank-state gates and the stale-reserve constraint of the instruction (C14 / C20).
use crate::mon::Report;
use crate::rng::Rng;
use crate::world::fixtures::{bank_config_fixed, BankHandle};
use crate::world::stubs::{SOLEND_IGNORES_STALENESS, SOLEND_SKEW_COLLATERAL, SOLEND_SKEW_LIQUIDITY};
use crate::world::{ix, TokenKind, World};
use anchor_lang::prelude::Pubkey;
use anchor_lang::{Discriminator, InstructionData, ToAccountMetas};
use fixed::types::I80F48;
use marginfi::constants::{SOLEND_OBLIGATION_SEED, SOLEND_PROGRAM_ID};
use marginfi_type_crate::types::{BankOperationalState, OracleSetup, RiskTier};
use num_bigint::BigInt;
use solana_program::instruction::{AccountMeta, Instruction};
use solend_mocks::state::SolendMinimalReserve;
use std::sync::atomic::Ordering;

const ONE: i128 = 1 << 48;
fn bits(v: marginfi_type_crate::types::WrappedI80F48) -> i128 {
    I80F48::from(v).to_bits()
}

pub struct Sw {
    pub w: World,
    pub group: Pubkey,
    pub admin: Pubkey,
    pub sb: BankHandle,
    pub debt: BankHandle,
    pub reserve: Pubkey,
    pub obligation: Pubkey,
    pub market: Pubkey,
    pub market_auth: Pubkey,
    pub supply_vault: Pubkey,
    pub col_mint: Pubkey,
    pub col_supply: Pubkey,
    pub user_col: Pubkey,
    pub oracle: Pubkey,
    pub users: Vec<(Pubkey, Pubkey, Pubkey, Pubkey)>,
    pub dec: u8,
}

fn read_reserve(w: &World, k: &Pubkey) -> SolendMinimalReserve {
    *bytemuck::from_bytes(&w.get(k).expect("reserve").data[1..1 + std::mem::size_of::<SolendMinimalReserve>()])
}
fn write_reserve(w: &mut World, k: &Pubkey, r: &SolendMinimalReserve) {
    let mut data = Vec::new();
    data.extend_from_slice(<SolendMinimalReserve as Discriminator>::DISCRIMINATOR);
    data.extend_from_slice(bytemuck::bytes_of(r));
    w.put(*k, SOLEND_PROGRAM_ID, data);
}
fn obligation_amount(w: &World, k: &Pubkey) -> u64 {
    u64::from_le_bytes(w.get(k).expect("obligation").data[236..244].try_into().unwrap())
}
fn supplies(r: &SolendMinimalReserve) -> (BigInt, BigInt) {
    let wad = BigInt::from(1_000_000_000_000_000_000u64);
    let (avail, col) = (r.liquidity_available_amount, r.collateral_mint_total_supply);
    let liq = BigInt::from(avail) * &wad + BigInt::from(u128::from_le_bytes(r.liquidity_borrowed_amount_wads)) - BigInt::from(u128::from_le_bytes(r.liquidity_accumulated_protocol_fees_wads));
    (liq, BigInt::from(col))
}

pub fn build(rng: &mut Rng, rep: &mut Report) -> Option<Sw> {
    crate::world::install_stubs();
    SOLEND_SKEW_COLLATERAL.store(0, Ordering::SeqCst);
    SOLEND_SKEW_LIQUIDITY.store(0, Ordering::SeqCst);
    let mut w = World::new();
    w.key_counter = rng.below(1 << 40);
    w.add_program(SOLEND_PROGRAM_ID);
    w.set_clock(1_700_000_000 + rng.range(0, 1_000_000), 1000);
    let fee_admin = w.add_wallet(10_000_000_000);
    let fee_wallet = w.add_wallet(0);
    w.add_fee_state(fee_admin, fee_wallet, Default::default());
    let admin = w.add_wallet(100_000_000_000);
    let group = w.add_group(admin);
    let dec = *rng.pick(&[6u8, 6, 9, 8]);
    let mint = w.add_mint(TokenKind::Spl, dec);
    let (market, market_auth, reserve, col_mint, user_col) = (w.new_key(), w.new_key(), w.new_key(), w.new_key(), w.new_key());
    let available: u64 = match rng.below(3) { 0 => 1_000_000, 1 => 5_000_000_000_000, _ => 1 + rng.below(1_000_000_000_000_000) };
    let supply_vault = w.add_token_account(mint, market_auth, available);
    let cmint = w.add_mint(TokenKind::Spl, dec);
    let col_supply = w.add_token_account(cmint, market_auth, 0);
    let mut r: SolendMinimalReserve = bytemuck::Zeroable::zeroed();
    r.last_update_slot = w.slot;
    r.lending_market = market;
    r.liquidity_mint_pubkey = mint;
    r.liquidity_mint_decimals = dec;
    r.liquidity_supply_pubkey = supply_vault;
    r.liquidity_available_amount = available;
    let wad: u128 = 1_000_000_000_000_000_000;
    let borrowed: u128 = match rng.below(4) { 0 => 0, 1 => available as u128 * wad, _ => rng.below(2 * available.min(1 << 50) + 1) as u128 * wad + rng.below(1 << 59) as u128 };
    r.liquidity_borrowed_amount_wads = borrowed.to_le_bytes();
    r.collateral_mint_pubkey = col_mint;
    r.collateral_supply_pubkey = col_supply;
    let total_now: u128 = available as u128 + borrowed / wad;
    r.collateral_mint_total_supply = match rng.below(5) { 0 => (total_now as u64).max(1), _ => ((total_now as u64) / (1 + rng.below(3))).max(1) + rng.below(1000) };
    write_reserve(&mut w, &reserve, &r);
    let oracle = w.add_pyth_oracle(1_0000_0000, 0, 1_0000_0000, 0, -8, w.clock_ts);
    let seed: u64 = rng.below(1000);
    let (bank, _) = Pubkey::find_program_address(&[group.as_ref(), mint.as_ref(), &seed.to_le_bytes()], &marginfi::ID);
    let pda = |s: &str| Pubkey::find_program_address(&[s.as_bytes(), bank.as_ref()], &marginfi::ID).0;
    use marginfi_type_crate::constants::*;
    let (lv, lva, iv, iva, fv, fva) = (pda(LIQUIDITY_VAULT_SEED), pda(LIQUIDITY_VAULT_AUTHORITY_SEED), pda(INSURANCE_VAULT_SEED), pda(INSURANCE_VAULT_AUTHORITY_SEED), pda(FEE_VAULT_SEED), pda(FEE_VAULT_AUTHORITY_SEED));
    let obligation = pda(SOLEND_OBLIGATION_SEED);
    let cfg = marginfi::state::solend::SolendConfigCompact {
        oracle,
        asset_weight_init: I80F48::from_num(0.5).into(),
        asset_weight_maint: I80F48::from_num(0.6).into(),
        deposit_limit: u64::MAX,
        oracle_setup: OracleSetup::SolendPythPull,
        operational_state: BankOperationalState::Operational,
        risk_tier: RiskTier::Collateral,
        config_flags: 1,
        total_asset_value_init_limit: 0,
        oracle_max_age: 60,
        oracle_max_confidence: 0,
    };
    let mut metas = marginfi::accounts::LendingPoolAddBankSolend {
        group, admin, fee_payer: admin, bank_mint: mint, bank, integration_acc_1: reserve, integration_acc_2: obligation,
        liquidity_vault_authority: lva, liquidity_vault: lv, insurance_vault_authority: iva, insurance_vault: iv,
        fee_vault_authority: fva, fee_vault: fv, token_program: w.token_program_of(&mint), system_program: solana_program::system_program::ID,
    }.to_account_metas(None);
    metas.push(AccountMeta::new_readonly(oracle, false));
    metas.push(AccountMeta::new_readonly(reserve, false));
    let add = Instruction { program_id: marginfi::ID, accounts: metas, data: marginfi::instruction::LendingPoolAddBankSolend { bank_config: cfg, bank_seed: seed }.data() };
    {
        let stranger = w.add_wallet(100_000_000_000);
        let mut bad = add.clone();
        for m in bad.accounts.iter_mut() { if m.pubkey == admin { m.pubkey = stranger; } }
        let before = w.accounts.clone();
        if w.exec(&bad).is_ok() { rep.fail("C08 lending_pool_add_bank_solend succeeded for a signer who is not the group admin".to_string()); w.accounts = before; }
        else if w.accounts != before { rep.fail("C08 a refused lending_pool_add_bank_solend changed the store".to_string()); }
    }
    if let Err(e) = w.exec(&add) {
        rep.fail(format!("C13 lending_pool_add_bank_solend refused a plain valid Solend bank: {}", e));
        return None;
    }
    rep.bump("solend_bank_added");
    let b = w.bank(&bank);
    if b.group != group || b.mint != mint || b.integration_acc_1 != reserve || b.integration_acc_2 != obligation
        || b.config.asset_tag != ASSET_TAG_SOLEND || b.config.oracle_keys[0] != oracle || b.config.oracle_keys[1] != reserve
        || bits(b.asset_share_value) != ONE || bits(b.total_asset_shares) != 0
    {
        rep.fail("C13 the bank created by lending_pool_add_bank_solend is not bound to the given group / mint / reserve / obligation / oracle or does not start empty".to_string());
    }
    let sb = w.bank_handle(&bank);
    // the obligation as Solend's init + seed deposit leave it: version 1, one deposit of a few units in the bank's reserve
    let mut od = vec![0u8; 1300];
    od[0] = 1;
    od[1..9].copy_from_slice(&w.slot.to_le_bytes());
    od[10..42].copy_from_slice(market.as_ref());
    od[42..74].copy_from_slice(lva.as_ref());
    od[202] = 1;
    od[204..236].copy_from_slice(reserve.as_ref());
    od[236..244].copy_from_slice(&10u64.to_le_bytes());
    w.put(obligation, SOLEND_PROGRAM_ID, od);
    let dmint = w.add_mint(TokenKind::Spl, 6);
    let debt = w.add_bank(group, dmint, bank_config_fixed(I80F48::from_num(1)));
    {
        let lw = w.add_wallet(1_000_000_000);
        let la = w.add_marginfi_account(group, lw);
        let t = w.add_token_account(dmint, lw, u64::MAX / 4);
        if w.exec(&ix::deposit(&debt, la, lw, t, 100_000_000_000_000, None)).is_err() { return None; }
    }
    let mut users = vec![];
    for _ in 0..3 {
        let wallet = w.add_wallet(1_000_000_000);
        let acct = w.add_marginfi_account(group, wallet);
        let tk = w.add_token_account(mint, wallet, u64::MAX / 8);
        let td = w.add_token_account(dmint, wallet, 0);
        users.push((wallet, acct, tk, td));
    }
    Some(Sw { w, group, admin, sb, debt, reserve, obligation, market, market_auth, supply_vault, col_mint, col_supply, user_col, oracle, users, dec })
}

impl Sw {
    fn deposit_ix(&self, u: usize, signer: Pubkey, amount: u64) -> Instruction {
        let (_, acct, tk, _) = self.users[u];
        Instruction {
            program_id: marginfi::ID,
            accounts: marginfi::accounts::SolendDeposit {
                group: self.group, marginfi_account: acct, authority: signer, bank: self.sb.bank, signer_token_account: tk,
                liquidity_vault_authority: self.sb.liquidity_vault_authority, liquidity_vault: self.sb.liquidity_vault,
                integration_acc_2: self.obligation, lending_market: self.market, lending_market_authority: self.market_auth,
                integration_acc_1: self.reserve, mint: self.sb.mint, reserve_liquidity_supply: self.supply_vault,
                reserve_collateral_mint: self.col_mint, reserve_collateral_supply: self.col_supply, user_collateral: self.user_col,
                pyth_price: self.oracle, switchboard_feed: self.oracle, solend_program: SOLEND_PROGRAM_ID, token_program: self.sb.token_program,
            }.to_account_metas(None),
            data: marginfi::instruction::SolendDeposit { amount }.data(),
        }
    }
    fn withdraw_ix(&self, u: usize, signer: Pubkey, amount: u64, all: bool) -> Instruction {
        let (_, acct, tk, _) = self.users[u];
        let mut metas = marginfi::accounts::SolendWithdraw {
            group: self.group, marginfi_account: acct, authority: signer, bank: self.sb.bank, destination_token_account: tk,
            liquidity_vault_authority: self.sb.liquidity_vault_authority, liquidity_vault: self.sb.liquidity_vault,
            integration_acc_2: self.obligation, lending_market: self.market, lending_market_authority: self.market_auth,
            integration_acc_1: self.reserve, mint: self.sb.mint, reserve_liquidity_supply: self.supply_vault,
            reserve_collateral_mint: self.col_mint, reserve_collateral_supply: self.col_supply, user_collateral: self.user_col,
            solend_program: SOLEND_PROGRAM_ID, token_program: self.sb.token_program,
        }.to_account_metas(None);
        let risk = if all { self.w.remaining_sorted(&acct, &[], &[self.sb.bank]) } else { self.w.remaining_for(&acct, &[]) };
        metas.extend(risk);
        Instruction { program_id: marginfi::ID, accounts: metas, data: marginfi::instruction::SolendWithdraw { amount, withdraw_all: if all { Some(true) } else { None } }.data() }
    }
    fn refresh(&mut self) {
        let mut r = read_reserve(&self.w, &self.reserve);
        r.last_update_slot = self.w.slot;
        write_reserve(&mut self.w, &self.reserve, &r);
        let ts = self.w.clock_ts;
        self.w.set_pyth_price(&self.oracle.clone(), 1_0000_0000, 0, 1_0000_0000, 0, -8, ts);
    }
    fn position_shares(&self, u: usize) -> i128 {
        let a = self.w.marginfi_account(&self.users[u].1);
        a.lending_account.balances.iter().find(|b| b.is_active() && b.bank_pk == self.sb.bank).map(|b| bits(b.asset_shares)).unwrap_or(0)
    }
    fn backing_check(&self, rep: &mut Report, after: &str) {
        let b = self.w.bank(&self.sb.bank);
        let sum: i128 = (0..self.users.len()).map(|u| self.position_shares(u)).sum();
        let tot = bits(b.total_asset_shares);
        if bits(b.asset_share_value) != ONE {
            rep.fail(format!("C06 the deposit share value of a Solend bank moved away from 1 ({}) after {}", bits(b.asset_share_value), after));
        }
        if sum != tot {
            rep.fail(format!("C02 Solend bank: total deposit shares {} differ from the sum of the positions {} after {}", tot, sum, after));
        }
        if (BigInt::from(obligation_amount(&self.w, &self.obligation)) << 48u32) < BigInt::from(tot) {
            rep.fail(format!("C01 Solend bank: positions hold {} shares (x 2^-48) of collateral but the bank's obligation holds only {} after {}: the bank's claims are not backed", tot, obligation_amount(&self.w, &self.obligation), after));
        }
        if self.w.token_amount(&self.sb.liquidity_vault) != 0 {
            rep.fail(format!("C01 Solend bank: the intermediary liquidity vault keeps {} tokens after {}", self.w.token_amount(&self.sb.liquidity_vault), after));
        }
    }
}

pub fn run(rng: &mut Rng, n: usize, rep: &mut Report) {
    run_with(rng, n, rep, &mut None)
}

/// family `venue` (Solend part): one `vn.sdep` / `vn.swd` line per real solend_deposit / solend_withdraw of this monitor whose
/// outcome the instruction-level model (Mfi/Model/Venue.lean: solendDeposit / solendWithdraw) speaks about
pub fn gen(rng: &mut Rng, n: usize, out: &mut Vec<String>) {
    let mut guard = 0;
    while out.len() < n && guard < 200 {
        guard += 1;
        let mut scratch = Report::default();
        let mut part: Option<Vec<String>> = Some(vec![]);
        run_with(rng, 400, &mut scratch, &mut part);
        out.extend(part.unwrap());
    }
    out.truncate(n);
}

fn pos_of(w: &World, acct: &Pubkey, bank: &Pubkey) -> Option<marginfi_type_crate::types::Balance> {
    w.marginfi_account(acct).lending_account.balances.iter().find(|b| b.is_active() && b.bank_pk == *bank).cloned()
}
fn pos_line(x: &Option<marginfi_type_crate::types::Balance>) -> String {
    match x {
        Some(bal) => format!("1 {}", crate::fam_bank::Bal::from_balance(bal).line()),
        None => "0 0 0 0 0 0 0".to_string(),
    }
}

pub fn run_with(rng: &mut Rng, n: usize, rep: &mut Report, lines: &mut Option<Vec<String>>) {
    let mut done = 0usize;
    while done < n {
        let Some(mut k) = build(rng, rep) else { rep.bump("world_build_failed"); done += 1; continue };
        let stranger = k.w.add_wallet(1_000_000_000);
        let mut tolerated_skew = false; // once the venue took a unit more than asked (which the handler tolerates) the backing rule is off
        for _ in 0..40 {
            done += 1;
            rep.bump("cases");
            SOLEND_SKEW_COLLATERAL.store(0, Ordering::SeqCst);
            SOLEND_SKEW_LIQUIDITY.store(0, Ordering::SeqCst);
            if rng.chance(1, 4) { k.w.advance(*rng.pick(&[1i64, 30, 3600])); }
            let stale = rng.chance(1, 10);
            if !stale { k.refresh(); }
            let u = rng.below(k.users.len() as u64) as usize;
            let (wallet, acct, tk, td) = k.users[u];
            // on a stale reserve the venue itself is lenient half of the time: marginfi's own constraint is then the only guard
            SOLEND_IGNORES_STALENESS.store(rng.chance(1, 2), Ordering::SeqCst);
            let r0 = read_reserve(&k.w, &k.reserve);
            let stale = { let s0 = r0.last_update_slot; s0 < k.w.slot }; // really stale: last refreshed in an earlier slot
            let o0 = obligation_amount(&k.w, &k.obligation) as i128;
            let (liq_w, col) = supplies(&r0);
            let wad = BigInt::from(1_000_000_000_000_000_000u64);
            let sh0 = k.position_shares(u);
            let bank0 = k.w.bank(&k.sb.bank);
            let user0 = k.w.token_amount(&tk);
            let sv0 = k.w.token_amount(&k.supply_vault);
            let before = k.w.accounts.clone();
            let state = bank0.config.operational_state;
            match rng.below(12) {
                0..=3 => {
                    let amount: u64 = match rng.below(5) { 0 => 1, 1 => 1 + rng.below(1000), 2 => 10u64.pow(k.dec as u32) * (1 + rng.below(10_000)), 3 => 0, _ => 1 + rng.below(1_000_000_000_000) };
                    let skew: i64 = if rng.chance(1, 5) { *rng.pick(&[-3i64, -2, -1, 1, 2, 3]) } else { 0 };
                    SOLEND_SKEW_COLLATERAL.store(skew, Ordering::SeqCst);
                    let who = if rng.chance(1, 8) { stranger } else { wallet };
                    let p0 = pos_of(&k.w, &acct, &k.sb.bank);
                    let flags0 = k.w.marginfi_account(&acct).account_flags;
                    let r = k.w.exec(&k.deposit_ix(u, who, amount));
                    SOLEND_SKEW_COLLATERAL.store(0, Ordering::SeqCst);
                    let exact: BigInt = if col == BigInt::from(0) || liq_w <= BigInt::from(0) { BigInt::from(amount) } else { BigInt::from(amount) * &wad * &col / &liq_w };
                    if let (Some(l), true) = (lines.as_mut(), who == wallet && state == BankOperationalState::Operational && !stale && flags0 == 0) {
                        if let Ok(expected) = r0.liquidity_to_collateral(amount) {
                            let post: BigInt = if r.is_ok() { BigInt::from(obligation_amount(&k.w, &k.obligation)) } else { BigInt::from(o0) + &exact + BigInt::from(skew) };
                            let head = format!("vn.sdep {} {} {} {} {} {} {}", crate::fam_bank::B::from_bank(&bank0).line(), bank0.last_update, pos_line(&p0), k.w.clock_ts, expected, o0, post);
                            match &r {
                                Ok(()) => {
                                    let b1 = k.w.bank(&k.sb.bank);
                                    let p1 = pos_of(&k.w, &acct, &k.sb.bank);
                                    l.push(format!("{} => ok {} {} {} {}", head, crate::fam_bank::B::from_bank(&b1).line(), b1.last_update, pos_line(&p1), obligation_amount(&k.w, &k.obligation) as i128 - o0));
                                }
                                Err(e) => match e.code() {
                                    Some(c) if c >= 6000 && (c < 6400 || c == 6412) => l.push(format!("{} => err {}", head, c)),
                                    _ => {}
                                },
                            }
                        }
                    }
                    match r {
                        Err(e) => {
                            rep.bump("deposit_refused");
                            rep.bump(&format!("dep_rej_{}", e.code().map(|c| c.to_string()).unwrap_or_else(|| "other".into())));
                            if k.w.accounts != before { rep.fail("C08 a refused solend_deposit changed the store".to_string()); }
                        }
                        Ok(()) => {
                            rep.bump("deposit_ok");
                            let got = obligation_amount(&k.w, &k.obligation) as i128 - o0;
                            let sh1 = k.position_shares(u);
                            let bank1 = k.w.bank(&k.sb.bank);
                            if who != wallet { rep.fail("C08 solend_deposit succeeded for a signer who is not the account's authority".to_string()); }
                            if state != BankOperationalState::Operational { rep.fail(format!("C14 solend_deposit succeeded on a bank in state {}", state as u8)); }
                            if stale { rep.fail("C20 solend_deposit succeeded on a reserve last refreshed in an earlier slot (the instruction must refuse a stale reserve: the conversion it announces would be outdated)".to_string()); }
                            if let Ok(announced) = r0.liquidity_to_collateral(amount) {
                                if (got - announced as i128).abs() >= 2 {
                                    rep.fail(format!("C20 solend_deposit succeeded although the venue credited {} collateral where marginfi's own conversion announces {} (exact {})", got, announced, exact));
                                }
                            }
                            if sh1 - sh0 != got << 48 || bits(bank1.total_asset_shares) - bits(bank0.total_asset_shares) != got << 48 {
                                rep.fail(format!("C02 solend_deposit of {}: the obligation gained {} collateral but the position gained {} and the bank total {} shares (x 2^-48)", amount, got, sh1 - sh0, bits(bank1.total_asset_shares) - bits(bank0.total_asset_shares)));
                            }
                            if user0 - k.w.token_amount(&tk) != amount {
                                rep.fail(format!("C03 solend_deposit of {} took {} tokens from the depositor", amount, user0 - k.w.token_amount(&tk)));
                            }
                            // (what is booked is what the obligation really gained — checked above; how far a skewed venue can stray from the
                            // exact conversion and still be accepted is the handler's one-unit tolerance around ITS OWN announcement, judged above)
                            if !tolerated_skew { k.backing_check(rep, "solend_deposit"); }
                        }
                    }
                }
                4..=8 => {
                    let all = rng.chance(1, 3);
                    let held = (sh0 >> 48) as u64;
                    let amount: u64 = if all { 0 } else { match rng.below(5) { 0 => 1, 1 => held, 2 => held / 2, 3 => held.saturating_add(1), _ => rng.below(held.max(1)) + 1 } };
                    let (sk_c, sk_l): (i64, i64) = match rng.below(10) { 0 => (*rng.pick(&[-2i64, -1, 1, 2]), 0), 1 => (0, *rng.pick(&[-3i64, -2, -1, 1, 2, 3])), _ => (0, 0) };
                    SOLEND_SKEW_COLLATERAL.store(sk_c, Ordering::SeqCst);
                    SOLEND_SKEW_LIQUIDITY.store(sk_l, Ordering::SeqCst);
                    let who = if rng.chance(1, 8) { stranger } else { wallet };
                    let debt_before = {
                        let a = k.w.marginfi_account(&acct);
                        a.lending_account.balances.iter().find(|b| b.is_active() && b.bank_pk == k.debt.bank).map(|b| bits(b.liability_shares)).unwrap_or(0)
                    };
                    let p0 = pos_of(&k.w, &acct, &k.sb.bank);
                    let flags0 = k.w.marginfi_account(&acct).account_flags;
                    let vault0 = k.w.token_amount(&k.sb.liquidity_vault);
                    let r = k.w.exec(&k.withdraw_ix(u, who, amount, all));
                    SOLEND_SKEW_COLLATERAL.store(0, Ordering::SeqCst);
                    SOLEND_SKEW_LIQUIDITY.store(0, Ordering::SeqCst);
                    if let (Some(l), true) = (lines.as_mut(), who == wallet && state != BankOperationalState::Paused && state != BankOperationalState::KilledByBankruptcy && !stale && flags0 == 0
                        && (r.is_ok() || (sk_c == 0 && sk_l == 0))) {
                        let c: u64 = if all { (sh0 >> 48) as u64 } else { amount };
                        if let Ok(expected) = r0.collateral_to_liquidity(c) {
                            let (ob_post, v_post): (i128, i128) = if r.is_ok() {
                                (obligation_amount(&k.w, &k.obligation) as i128, vault0 as i128 + (sv0 as i128 - k.w.token_amount(&k.supply_vault) as i128))
                            } else { (o0, vault0 as i128) };
                            let head = format!("vn.swd {} {} {} {} {} {} {} {} {} {} {}", crate::fam_bank::B::from_bank(&bank0).line(), bank0.last_update, pos_line(&p0), k.w.clock_ts,
                                amount, all as u8, expected, o0, ob_post, vault0, v_post);
                            match &r {
                                Ok(()) => {
                                    let b1 = k.w.bank(&k.sb.bank);
                                    let p1 = pos_of(&k.w, &acct, &k.sb.bank);
                                    let p1_line = match &p1 { Some(b) => crate::fam_bank::Bal::from_balance(b).line(), None => "0 0 0 0 0 0".to_string() };
                                    let paid = k.w.token_amount(&tk) as i128 - user0 as i128;
                                    l.push(format!("{} => ok {} {} {} {} {}", head, crate::fam_bank::B::from_bank(&b1).line(), b1.last_update, p1_line, c, paid));
                                }
                                Err(e) => match e.code() {
                                    Some(cd) if cd == 6018 || cd == 6020 || cd == 6023 => l.push(format!("{} => err {}", head, cd)),
                                    _ => {}
                                },
                            }
                        }
                    }
                    match r {
                        Err(e) => {
                            rep.bump("withdraw_refused");
                            rep.bump(&format!("wd_rej_{}", e.code().map(|c| c.to_string()).unwrap_or_else(|| "other".into())));
                            if k.w.accounts != before { rep.fail("C08 a refused solend_withdraw changed the store".to_string()); }
                        }
                        Ok(()) => {
                            rep.bump("withdraw_ok");
                            let gone = o0 - obligation_amount(&k.w, &k.obligation) as i128;
                            let sh1 = k.position_shares(u);
                            let bank1 = k.w.bank(&k.sb.bank);
                            let paid = k.w.token_amount(&tk) as i128 - user0 as i128;
                            let released = sv0 as i128 - k.w.token_amount(&k.supply_vault) as i128;
                            if who != wallet { rep.fail("C08 solend_withdraw succeeded for a signer who is not the account's authority (no receivership)".to_string()); }
                            if state == BankOperationalState::Paused { rep.fail("C14 solend_withdraw succeeded on a paused bank".to_string()); }
                            if stale { rep.fail("C20 solend_withdraw succeeded on a reserve last refreshed in an earlier slot".to_string()); }
                            let exp_c: i128 = if all { sh0 >> 48 } else { amount as i128 };
                            if (gone - exp_c).abs() >= 2 {
                                rep.fail(format!("C20 solend_withdraw (all = {}) succeeded although the obligation lost {} collateral where the position gave up {}", all, gone, exp_c));
                            }
                            if gone > exp_c { tolerated_skew = true; }
                            if let Ok(announced) = r0.collateral_to_liquidity(exp_c.max(0) as u64) {
                                if (released - announced as i128).abs() >= 2 {
                                    rep.fail(format!("C20 solend_withdraw succeeded although the venue released {} tokens where marginfi's own conversion of {} collateral announces {}", released, exp_c, announced));
                                }
                            }
                            let dsh = sh0 - sh1;
                            let dtot = bits(bank0.total_asset_shares) - bits(bank1.total_asset_shares);
                            let want = if all { sh0 } else { (amount as i128) << 48 };
                            if dsh != want || (dtot != want && !(all && dtot == (sh0 >> 48) << 48)) {
                                rep.fail(format!("C02 solend_withdraw of {} collateral (all = {}): position lost {} shares, bank total {} (x 2^-48), expected {}", exp_c, all, dsh, dtot, want));
                            }
                            if paid != released {
                                rep.fail(format!("C03 solend_withdraw paid the user {} tokens while the venue released {}", paid, released));
                            }
                            let exact_value: BigInt = if col > BigInt::from(0) { BigInt::from(exp_c) * &liq_w / (&col * &wad) } else { BigInt::from(0) };
                            // (marginfi's own announcement for this collateral: where IT lies one unit above the exact value — the supplies are
                            // truncated by 10^decimals before the division, known finding C20-F2 — the handler's one-unit tolerance lets a venue
                            // that overpays by two units through; that case is named as such, anything beyond it is not)
                            let announced_over: Option<i128> = r0.collateral_to_liquidity(exp_c.max(0) as u64).ok().map(|a| a as i128)
                                .filter(|a| BigInt::from(*a) > exact_value && (paid - *a).abs() <= 1);
                            if BigInt::from(paid) > &exact_value + 1 {
                                match announced_over {
                                    Some(a) => rep.fail(format!("C03 solend_withdraw accepted a venue paying {} tokens for {} collateral whose exact value is {}: marginfi's own conversion announces {} (conversion-announces-above-exact: denominator truncation) and tolerates one unit more", paid, exp_c, exact_value, a)),
                                    None => rep.fail(format!("C03 solend_withdraw paid {} tokens for {} collateral whose exact value is {}", paid, exp_c, exact_value)),
                                }
                            }
                            // C20: … and at most the exact value of the collateral DEBITED FROM THE POSITION
                            {
                                let debited = BigInt::from(dsh >> 48);
                                let v: BigInt = if col > BigInt::from(0) { &debited * &liq_w / (&col * &wad) } else { BigInt::from(0) };
                                if BigInt::from(paid) > &v + 1 {
                                    for tag in ["C20", "C03"] {
                                        match announced_over {
                                            Some(a) if debited == BigInt::from(exp_c) => rep.fail(format!("{} solend_withdraw (all = {}) accepted a venue paying {} tokens while the position was debited {} collateral whose exact value is {}: marginfi's own conversion announces {} (conversion-announces-above-exact: denominator truncation) and tolerates one unit more", tag, all, paid, debited, v, a)),
                                            _ => rep.fail(format!("{} solend_withdraw (all = {}) paid {} tokens while the position was debited {} collateral whose exact value is {}: the conversion overstates what the position is worth", tag, all, paid, debited, v)),
                                        }
                                    }
                                }
                            }
                            if debt_before > 0 {
                                let mut c2 = k.w.clone();
                                let metas = c2.remaining_in_slot_order(&acct);
                                if c2.exec(&ix::pulse_health(acct, metas)).is_ok() {
                                    let h = c2.marginfi_account(&acct).health_cache;
                                    if bits(h.asset_value) < bits(h.liability_value) {
                                        rep.fail(format!("C04 solend_withdraw (all = {}) accepted but the account's weighted assets {} no longer cover its weighted debt {}", all, bits(h.asset_value), bits(h.liability_value)));
                                    }
                                }
                            }
                            if !tolerated_skew { k.backing_check(rep, "solend_withdraw"); }
                        }
                    }
                }
                9 => {
                    let in_debt_units = ((sh0 >> 48) as u128 * 1_000_000 / 10u128.pow(k.dec as u32)) as u64;
                    let amt = 1 + rng.below((in_debt_units / 2).max(1));
                    if stale { k.refresh(); }
                    let risk = k.w.remaining_for(&acct, &[k.debt.bank]);
                    let r = k.w.exec(&ix::borrow(&k.debt, acct, wallet, td, amt, risk));
                    rep.bump(if r.is_ok() { "borrow_ok" } else { "borrow_refused" });
                    if r.is_ok() && !tolerated_skew { k.backing_check(rep, "a borrow from another bank"); }
                }
                10 => {
                    if stale { k.refresh(); }
                    let is_dep = rng.chance(1, 2);
                    let mut ixn = if is_dep { k.deposit_ix(u, wallet, 1000) } else { k.withdraw_ix(u, wallet, 1, false) };
                    let fake_res = k.w.new_key();
                    let fake_obl = k.w.new_key();
                    { let r = read_reserve(&k.w, &k.reserve); write_reserve(&mut k.w, &fake_res, &r); }
                    { let mut d = k.w.get(&k.obligation).unwrap().data.clone(); d[236..244].copy_from_slice(&1_000_000_000u64.to_le_bytes()); k.w.put(fake_obl, SOLEND_PROGRAM_ID, d); }
                    let fake_vault = k.w.add_token_account(k.sb.mint, k.sb.liquidity_vault_authority, 0);
                    let (from, to, what) = match rng.below(4) {
                        0 => (k.reserve, fake_res, "a look-alike reserve"),
                        1 => (k.obligation, fake_obl, "a look-alike obligation (same owner, more collateral)"),
                        2 => (k.sb.liquidity_vault, fake_vault, "a look-alike liquidity vault"),
                        _ => (k.sb.bank, k.debt.bank, "an ordinary (non-Solend) bank"),
                    };
                    for m in ixn.accounts.iter_mut() { if m.pubkey == from { m.pubkey = to; } }
                    let snap = k.w.accounts.clone();
                    let r = k.w.exec(&ixn);
                    rep.bump("substitution_probes");
                    if r.is_ok() { rep.fail(format!("C08 {} succeeded with {} in place of the bank's own", if is_dep { "solend_deposit" } else { "solend_withdraw" }, what)); }
                    else if k.w.accounts != snap { rep.fail("C08 a refused Solend instruction changed the store".to_string()); }
                    k.w.accounts = before;
                }
                _ => {
                    let st = *rng.pick(&[BankOperationalState::Operational, BankOperationalState::Operational, BankOperationalState::Paused, BankOperationalState::ReduceOnly]);
                    let r = k.w.exec(&ix::configure_bank(&k.sb, k.admin, marginfi_type_crate::types::BankConfigOpt { operational_state: Some(st), ..Default::default() }));
                    rep.bump(if r.is_ok() { "state_change_ok" } else { "state_change_refused" });
                }
            }
        }
        rep.sample("solend world".to_string());
    }
    SOLEND_SKEW_COLLATERAL.store(0, Ordering::SeqCst);
    SOLEND_SKEW_LIQUIDITY.store(0, Ordering::SeqCst);
    SOLEND_IGNORES_STALENESS.store(false, Ordering::SeqCst);
}
