//! mfi-harness: runs the REAL marginfi-v2 code (path dependency on /repo, rebuilt from the working
//! tree) on generated operations and prints one line per operation:  `<op line> => <canonical output>`.
//! The Lean driver is fed the `<op line>` part and must print the same `<canonical output>`.
mod consts;
mod fam_account;
mod fam_admin;
mod fam_auth;
mod fam_bank;
mod fam_curve;
mod fam_fees;
mod fam_bkr;
mod fam_fx;
mod fam_liq;
mod fam_oracle;
mod fam_health;
mod fam_tx;
mod fam_xfer;
mod fam_gate;
mod fam_integr;
mod fam_panic;
mod fam_tokenfee;
mod mon;
mod mon_c02;
mod mon_c03;
mod mon_c04;
mod mon_c05;
mod mon_c08;
mod mon_c10;
mod mon_c12;
mod mon_c13;
mod mon_c14;
mod mon_c15;
mod mon_c17;
mod mon_c18;
mod mon_c19;
mod mon_c20;
mod rng;
mod scen;
mod stubs;
mod world;

use rng::Rng;

pub fn errcode(e: anchor_lang::error::Error) -> u32 {
    match e {
        anchor_lang::error::Error::AnchorError(ae) => ae.error_code_number,
        anchor_lang::error::Error::ProgramError(pe) => {
            let p: solana_program::program_error::ProgramError = pe.program_error;
            u64::from(p) as u32
        }
    }
}

fn main() {
    // panics of the code under test are outcomes, not crashes: keep them quiet
    std::panic::set_hook(Box::new(|_| {}));
    stubs::install();
    let args: Vec<String> = std::env::args().collect();
    if args.len() < 2 {
        eprintln!("usage: mfi-harness dump-consts | gen <family> <seed> <n>");
        std::process::exit(2);
    }
    match args[1].as_str() {
        "dump-consts" => consts::dump(),
        "gen" => {
            let fam = args[2].as_str();
            let seed: u64 = args[3].parse().unwrap();
            let n: usize = args[4].parse().unwrap();
            let mut rng = Rng::new(seed ^ fam.bytes().fold(0u64, |a, b| a.wrapping_mul(131).wrapping_add(b as u64)));
            let mut out: Vec<String> = Vec::new();
            match fam {
                "fx" => fam_fx::gen(&mut rng, n, &mut out),
                "wrapper" => fam_bank::gen_wrapper(&mut rng, n, &mut out),
                "bank" => fam_bank::gen_bank_ops(&mut rng, n, &mut out),
                "curve" => fam_curve::gen(&mut rng, n, &mut out),
                "integr" => fam_integr::gen(&mut rng, n, &mut out),
                "tokenfee" => fam_tokenfee::gen(&mut rng, n, &mut out),
                "bankstate" => fam_gate::gen(&mut rng, n, &mut out),
                "signer" => fam_auth::gen(&mut rng, n, &mut out),
                "admin" => fam_admin::gen(&mut rng, n, &mut out),
                "account" => fam_account::gen(&mut rng, n, &mut out),
                "fees" => fam_fees::gen(&mut rng, n, &mut out),
                "tx" => fam_tx::gen(&mut rng, n, &mut out),
                "bkr" => fam_bkr::gen(&mut rng, n, &mut out),
                "xfer" => fam_xfer::gen(&mut rng, n, &mut out),
                "liq" => fam_liq::gen(&mut rng, n, &mut out),
                "oracle" => fam_oracle::gen(&mut rng, n, &mut out),
                "health" => fam_health::gen(&mut rng, n, &mut out),
                "panic" => fam_panic::gen(&mut rng, n, &mut out),
                _ => {
                    eprintln!("unknown family {}", fam);
                    std::process::exit(2);
                }
            }
            use std::io::Write;
            let stdout = std::io::stdout();
            let mut w = std::io::BufWriter::new(stdout.lock());
            for l in out {
                writeln!(w, "@{}", l).unwrap();
            }
        }
        "world-selftest" => match world::selftest() {
            Ok(()) => {}
            Err(e) => {
                eprintln!("{}", e);
                std::process::exit(1);
            }
        },
        "monitor" => {
            let prop = args[2].as_str();
            let seed: u64 = args[3].parse().unwrap();
            let n: usize = args[4].parse().unwrap();
            let mut rng = Rng::new(seed ^ 0x5EED_0000 ^ prop.bytes().fold(0u64, |a, b| a.wrapping_mul(131).wrapping_add(b as u64)));
            let mut rep = mon::Report::default();
            match prop {
                "IX" => scen::run(&mut rng, n, &mut rep),
                "C02" => mon_c02::run(&mut rng, n, &mut rep),
                "C03" => mon_c03::run(&mut rng, n, &mut rep),
                "C08" => mon_c08::run(&mut rng, n, &mut rep),
                "BR" => mon_c10::run(&mut rng, n, &mut rep),
                "GATE" => mon_c04::run(&mut rng, n, &mut rep),
                "LIQ" => mon_c05::run(&mut rng, n, &mut rep),
                "TXS" => fam_tx::monitor(&mut rng, n, &mut rep),
                "BKR" => fam_bkr::monitor(&mut rng, n, &mut rep),
                "XFER" => fam_xfer::monitor(&mut rng, n, &mut rep),
                "ORA" => fam_oracle::monitor(&mut rng, n, &mut rep),
                "C12" => mon_c12::run(&mut rng, n, &mut rep),
                "C13" => mon_c13::run(&mut rng, n, &mut rep),
                "C14" => mon_c14::run(&mut rng, n, &mut rep),
                "C15" => mon_c15::run(&mut rng, n, &mut rep),
                "C17" => mon_c17::run(&mut rng, n, &mut rep),
                "C18" => mon_c18::run(&mut rng, n, &mut rep),
                "C19" => mon_c19::run(&mut rng, n, &mut rep),
                "C20" => mon_c20::run(&mut rng, n, &mut rep),
                _ => {
                    eprintln!("no monitor for {}", prop);
                    std::process::exit(2);
                }
            }
            rep.print(prop);
        }
        _ => {
            eprintln!("unknown command");
            std::process::exit(2);
        }
    }
}
