//! mfi-harness: runs the REAL marginfi-v2 code (path dependency on /repo, rebuilt from the working
//! tree) on generated operations and prints one line per operation:  `<op line> => <canonical output>`.
//! The Lean driver is fed the `<op line>` part and must print the same `<canonical output>`.
mod consts;
mod fam_account;
mod fam_admin;
mod fam_auth;
mod fam_bank;
mod fam_curve;
mod fam_fees;
mod fam_bkr;
mod fam_fx;
mod fam_liq;
mod fam_oracle;
mod fam_health;
mod fam_tx;
mod fam_xfer;
mod fam_world;
mod fam_ixf;
mod fam_gate;
mod fam_integr;
mod fam_panic;
mod fam_tokenfee;
mod mon;
mod mon_c02;
mod mon_c03;
mod mon_c04;
mod mon_c05;
mod mon_c08;
mod mon_c10;
mod mon_c12;
mod mon_c13;
mod mon_c14;
mod mon_c15;
mod mon_c17;
mod mon_c18;
mod mon_c19;
mod mon_c20;
mod mon_kamino;
mod mon_drift;
mod mon_solend;
mod mon_venue;
mod rng;
mod scen;
mod stubs;
mod world;

use rng::Rng;

pub fn errcode(e: anchor_lang::error::Error) -> u32 {
    match e {
        anchor_lang::error::Error::AnchorError(ae) => ae.error_code_number,
        anchor_lang::error::Error::ProgramError(pe) => {
            let p: solana_program::program_error::ProgramError = pe.program_error;
            u64::from(p) as u32
        }
    }
}

fn main() {
    // panics of the code under test are outcomes, not crashes: keep them quiet
    if std::env::var_os("MFI_PANIC_TRACE").is_none() {
        std::panic::set_hook(Box::new(|_| {}));
    }
    stubs::install();
    let args: Vec<String> = std::env::args().collect();
    if args.len() < 2 {
        eprintln!("usage: mfi-harness dump-consts | gen <family> <seed> <n>");
        std::process::exit(2);
    }
    match args[1].as_str() {
        "dump-consts" => consts::dump(),
        "gen" => {
            let fam = args[2].as_str();
            let seed: u64 = args[3].parse().unwrap();
            let n: usize = args[4].parse().unwrap();
            let mut rng = Rng::new(seed ^ fam.bytes().fold(0u64, |a, b| a.wrapping_mul(131).wrapping_add(b as u64)));
            let mut out: Vec<String> = Vec::new();
            // A panic INSIDE a generator (not in the code under test, whose panics are caught per case and are outcomes)
            // must not kill the run for one unlucky seed: keep what was produced, continue with the advanced PRNG state.
            // More than 25 such panics means something systematic: the process then fails as before.
            let known = ["fx", "wrapper", "bank", "curve", "integr", "tokenfee", "bankstate", "signer", "admin", "account", "fees", "tx", "bkr", "xfer", "ixf", "liqix", "cfgix", "liteix", "liq", "oracle", "health", "panic", "venue", "world"];
            if !known.contains(&fam) {
                eprintln!("unknown family {}", fam);
                std::process::exit(2);
            }
            let mut gen_panics = 0usize;
            while out.len() < n {
                let want = n - out.len();
                let mut part: Vec<String> = Vec::new();
                let r = std::panic::catch_unwind(std::panic::AssertUnwindSafe(|| match fam {
                "fx" => fam_fx::gen(&mut rng, want, &mut part),
                "wrapper" => fam_bank::gen_wrapper(&mut rng, want, &mut part),
                "bank" => fam_bank::gen_bank_ops(&mut rng, want, &mut part),
                "curve" => fam_curve::gen(&mut rng, want, &mut part),
                "integr" => fam_integr::gen(&mut rng, want, &mut part),
                "tokenfee" => fam_tokenfee::gen(&mut rng, want, &mut part),
                "bankstate" => fam_gate::gen(&mut rng, want, &mut part),
                "signer" => fam_auth::gen(&mut rng, want, &mut part),
                "admin" => fam_admin::gen(&mut rng, want, &mut part),
                "account" => fam_account::gen(&mut rng, want, &mut part),
                "fees" => fam_fees::gen(&mut rng, want, &mut part),
                "tx" => fam_tx::gen(&mut rng, want, &mut part),
                "bkr" => fam_bkr::gen(&mut rng, want, &mut part),
                "xfer" => fam_xfer::gen(&mut rng, want, &mut part),
                    "ixf" => fam_ixf::gen(&mut rng, want, &mut part),
                    "liqix" => mon_c05::gen(&mut rng, want, &mut part),
                    "cfgix" => mon_c13::gen(&mut rng, want, &mut part),
                    "liteix" => mon_c12::gen(&mut rng, want, &mut part),
                "liq" => fam_liq::gen(&mut rng, want, &mut part),
                "oracle" => fam_oracle::gen(&mut rng, want, &mut part),
                "health" => fam_health::gen(&mut rng, want, &mut part),
                "panic" => fam_panic::gen(&mut rng, want, &mut part),
                "venue" => { let third = (want + 2) / 3; mon_kamino::gen(&mut rng, third, &mut part); let mut d: Vec<String> = Vec::new(); mon_drift::gen(&mut rng, third.min(want.saturating_sub(third)), &mut d); part.extend(d); let mut sl: Vec<String> = Vec::new(); mon_solend::gen(&mut rng, want.saturating_sub(part.len()), &mut sl); part.extend(sl); }
                "world" => fam_world::gen(&mut rng, want, &mut part),
                    _ => unreachable!(),
                }));
                let produced = part.len();
                out.extend(part);
                if r.is_err() {
                    gen_panics += 1;
                    if gen_panics > 25 {
                        eprintln!("generator of family {} panicked {} times", fam, gen_panics);
                        std::process::exit(101);
                    }
                } else if produced == 0 {
                    break;
                }
            }
            if gen_panics > 0 {
                eprintln!("note: {} generator-internal panics in family {} (cases skipped)", gen_panics, fam);
            }
            use std::io::Write;
            let stdout = std::io::stdout();
            let mut w = std::io::BufWriter::new(stdout.lock());
            for l in out {
                writeln!(w, "@{}", l).unwrap();
            }
        }
        "world-selftest" => match world::selftest() {
            Ok(()) => {}
            Err(e) => {
                eprintln!("{}", e);
                std::process::exit(1);
            }
        },
        "monitor" => {
            let prop = args[2].as_str();
            let seed: u64 = args[3].parse().unwrap();
            let n: usize = args[4].parse().unwrap();
            let mut rng = Rng::new(seed ^ 0x5EED_0000 ^ prop.bytes().fold(0u64, |a, b| a.wrapping_mul(131).wrapping_add(b as u64)));
            let mut rep = mon::Report::default();
            let known = ["IX", "C02", "C03", "C08", "BR", "GATE", "LIQ", "TXS", "BKR", "XFER", "VEN", "ORA", "C12", "ADM", "C13", "C14", "C15", "C17", "C18", "C19", "C20", "KAM", "DRF", "SLD"];
            if !known.contains(&prop) {
                eprintln!("no monitor for {}", prop);
                std::process::exit(2);
            }
            // same policy as for the generators: a panic inside the monitor's own scenario construction (the code under
            // test runs behind catch_unwind / the world's dispatch) costs the rest of that attempt, not the run
            let mut budget = n;
            let mut internal_panics = 0usize;
            loop {
                let r = std::panic::catch_unwind(std::panic::AssertUnwindSafe(|| match prop {
                "IX" => scen::run(&mut rng, budget, &mut rep),
                "C02" => mon_c02::run(&mut rng, budget, &mut rep),
                "C03" => mon_c03::run(&mut rng, budget, &mut rep),
                "C08" => mon_c08::run(&mut rng, budget, &mut rep),
                "BR" => mon_c10::run(&mut rng, budget, &mut rep),
                "GATE" => mon_c04::run(&mut rng, budget, &mut rep),
                "LIQ" => mon_c05::run(&mut rng, budget, &mut rep),
                "TXS" => fam_tx::monitor(&mut rng, budget, &mut rep),
                "BKR" => fam_bkr::monitor(&mut rng, budget, &mut rep),
                "XFER" => fam_xfer::monitor(&mut rng, budget, &mut rep),
                "VEN" => mon_venue::run(&mut rng, budget, &mut rep),
                "ORA" => fam_oracle::monitor(&mut rng, budget, &mut rep),
                "C12" | "ADM" => mon_c12::run(&mut rng, budget, &mut rep),
                "C13" => mon_c13::run(&mut rng, budget, &mut rep),
                "C14" => mon_c14::run(&mut rng, budget, &mut rep),
                "C15" => mon_c15::run(&mut rng, budget, &mut rep),
                "C17" => mon_c17::run(&mut rng, budget, &mut rep),
                "C18" => mon_c18::run(&mut rng, budget, &mut rep),
                "C19" => mon_c19::run(&mut rng, budget, &mut rep),
                "C20" => mon_c20::run(&mut rng, budget, &mut rep),
                "KAM" => mon_kamino::run(&mut rng, budget, &mut rep),
                "DRF" => mon_drift::run(&mut rng, budget, &mut rep),
                "SLD" => mon_solend::run(&mut rng, budget, &mut rep),
                    _ => unreachable!(),
                }));
                if r.is_ok() {
                    break;
                }
                internal_panics += 1;
                rep.bump("monitor_internal_panic");
                budget = (budget / 2).max(1);
                if internal_panics > 6 {
                    eprintln!("monitor {} panicked {} times", prop, internal_panics);
                    std::process::exit(101);
                }
            }
            rep.print(prop);
        }
        _ => {
            eprintln!("unknown command");
            std::process::exit(2);
        }
    }
}
