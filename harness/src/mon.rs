//! Monitors: executable versions of the property predicates, written independently of the Lean
//! model, evaluated on the REAL code's state. Output protocol (stdout):
//!   `stat <key> <int>`      counters describing what was explored
//!   `sample <text>`         a few of the cases explored
//!   `FAIL <property> <text>` a concrete input/history on which the property itself fails
use std::collections::BTreeMap;

#[derive(Default)]
pub struct Report {
    pub stats: BTreeMap<String, u64>,
    pub samples: Vec<String>,
    pub fails: Vec<String>,
}

impl Report {
    pub fn bump(&mut self, k: &str) {
        *self.stats.entry(k.to_string()).or_insert(0) += 1;
    }
    pub fn add(&mut self, k: &str, n: u64) {
        *self.stats.entry(k.to_string()).or_insert(0) += n;
    }
    pub fn sample(&mut self, s: String) {
        if self.samples.len() < 6 {
            self.samples.push(s);
        }
    }
    pub fn fail(&mut self, s: String) {
        if self.fails.len() < 20 {
            self.fails.push(s);
        }
    }
    pub fn print(&self, prop: &str) {
        for (k, v) in &self.stats {
            println!("@stat {} {}", k, v);
        }
        for s in &self.samples {
            println!("@sample {}", s);
        }
        for f in &self.fails {
            println!("@FAIL {} {}", prop, f);
        }
    }
}
