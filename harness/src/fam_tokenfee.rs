//! family `tokenfee`: marginfi's pre-fee amount (through the mint-account wrapper the handlers call, so that the harness
//! depends on no helper a refactor may drop) and the real Token-2022 TransferFee::calculate_fee.
use crate::rng::Rng;
use anchor_spl::token_2022::spl_token_2022::extension::transfer_fee::TransferFee;

pub fn tf(bps: u16, max: u64) -> TransferFee {
    TransferFee { epoch: 0.into(), maximum_fee: max.into(), transfer_fee_basis_points: bps.into() }
}

pub fn gen_cfg(rng: &mut Rng) -> (u16, u64) {
    let bps = match rng.below(8) {
        0 => 0,
        1 => 1,
        2 => 9999,
        3 => 10000,
        4 => 10001 + rng.below(100) as u16,
        5 => 100,
        _ => rng.below(10001) as u16,
    };
    let max = match rng.below(6) {
        0 => 0,
        1 => 1,
        2 => u64::MAX,
        3 => rng.below(1000),
        _ => rng.u64_mixed(),
    };
    (bps, max)
}

fn o(x: Option<u64>) -> String {
    x.map(|v| format!("some {}", v)).unwrap_or("none".into())
}

/// a mint account laid out as the token programs lay it out: classic SPL (kind 0), Token-2022 without extensions (1),
/// Token-2022 with a TransferFeeConfig whose older fee is in force and whose newer fee activates at `newer_epoch` (2)
pub fn mint_bytes(kind: u64, older: (u16, u64), newer_epoch: u64, newer: (u16, u64)) -> (anchor_lang::prelude::Pubkey, Vec<u8>) {
    use anchor_spl::token_2022::spl_token_2022 as t22;
    use t22::extension::{transfer_fee::TransferFeeConfig, BaseStateWithExtensionsMut, ExtensionType, StateWithExtensionsMut};
    use solana_program::program_pack::Pack;
    if kind < 2 {
        let mut data = vec![0u8; anchor_spl::token::spl_token::state::Mint::LEN];
        let mint = anchor_spl::token::spl_token::state::Mint { is_initialized: true, decimals: 6, ..Default::default() };
        anchor_spl::token::spl_token::state::Mint::pack(mint, &mut data).unwrap();
        return (if kind == 0 { anchor_spl::token::spl_token::ID } else { t22::ID }, data);
    }
    let len = ExtensionType::try_calculate_account_len::<t22::state::Mint>(&[ExtensionType::TransferFeeConfig]).unwrap();
    let mut data = vec![0u8; len];
    {
        let mut st = StateWithExtensionsMut::<t22::state::Mint>::unpack_uninitialized(&mut data).unwrap();
        st.init_account_type().unwrap();
        let cfg = st.init_extension::<TransferFeeConfig>(false).unwrap();
        *cfg = TransferFeeConfig {
            transfer_fee_config_authority: Default::default(),
            withdraw_withheld_authority: Default::default(),
            withheld_amount: 0.into(),
            older_transfer_fee: TransferFee { epoch: 0.into(), maximum_fee: older.1.into(), transfer_fee_basis_points: older.0.into() },
            newer_transfer_fee: TransferFee { epoch: newer_epoch.into(), maximum_fee: newer.1.into(), transfer_fee_basis_points: newer.0.into() },
        };
        st.base = t22::state::Mint { is_initialized: true, decimals: 6, ..Default::default() };
        st.pack_base();
    }
    (t22::ID, data)
}

/// the pre-fee amount for a transfer fee of `bps` / `max`: `calculate_pre_fee_spl_deposit_amount` on a really laid-out
/// Token-2022 mint whose older and newer fee are both this one (`None`: the wrapper answers an error or aborts)
pub fn pre_fee(bps: u16, max: u64, amt: u64) -> Option<u64> {
    use anchor_lang::prelude::*;
    let (owner, mut data) = mint_bytes(2, (bps, max), 0, (bps, max));
    let key = Pubkey::new_from_array([9u8; 32]);
    let mut lam = 1u64;
    let ai = AccountInfo::new(&key, false, false, &mut lam, &mut data, &owner, false, 0);
    match std::panic::catch_unwind(std::panic::AssertUnwindSafe(|| marginfi::utils::calculate_pre_fee_spl_deposit_amount(ai, amt, 0))) {
        Ok(Ok(v)) => Some(v),
        _ => None,
    }
}

/// `tf.mint` line: the three mint-level helpers of utils/general.rs (REAL functions on a really laid-out mint account) and
/// what the REAL token program's TransferFeeConfig withholds in that epoch
pub fn mint_line(rng: &mut Rng) -> String {
    use anchor_lang::prelude::*;
    use anchor_spl::token_2022::spl_token_2022 as t22;
    use t22::extension::{transfer_fee::TransferFeeConfig, BaseStateWithExtensions, StateWithExtensions};
    let kind = match rng.below(8) { 0 => 0, 1 => 1, _ => 2 };
    let bps_ok = |rng: &mut Rng| -> u16 { match rng.below(6) { 0 => 0, 1 => 1, 2 => 10000, 3 => 100, _ => rng.below(10001) as u16 } };
    let max_of = |rng: &mut Rng| -> u64 { match rng.below(5) { 0 => 0, 1 => u64::MAX, 2 => rng.below(1000), _ => rng.u64_mixed() } };
    let older = (bps_ok(rng), max_of(rng));
    let newer = if rng.chance(1, 5) { older } else { (bps_ok(rng), max_of(rng)) };
    let newer_epoch = match rng.below(4) { 0 => 0, 1 => u64::MAX, _ => rng.below(1000) };
    // the epoch asked about: mostly at / just before / just after the activation epoch
    let epoch = match rng.below(8) { 0 | 1 | 2 => newer_epoch, 3 => newer_epoch.wrapping_sub(1), 4 => newer_epoch.saturating_add(1), 5 => 0, _ => rng.below(2000) };
    let amt = if rng.chance(1, 3) { rng.below(1_000_000_000_000) } else { rng.u64_mixed() };
    let (owner, data) = mint_bytes(kind, older, newer_epoch, newer);
    let key = Pubkey::new_from_array([9u8; 32]);
    let call = |f: &dyn Fn(AccountInfo) -> String| -> String {
        let mut d = data.clone();
        let mut lam = 1u64;
        let ai = AccountInfo::new(&key, false, false, &mut lam, &mut d, &owner, false, 0);
        f(ai)
    };
    let pre = call(&|ai| match std::panic::catch_unwind(std::panic::AssertUnwindSafe(|| marginfi::utils::calculate_pre_fee_spl_deposit_amount(ai, amt, epoch))) {
        Ok(Ok(v)) => format!("some {}", v), _ => "none".into() });
    let post = call(&|ai| match std::panic::catch_unwind(std::panic::AssertUnwindSafe(|| marginfi::utils::calculate_post_fee_spl_deposit_amount(ai, amt, epoch))) {
        Ok(Ok(v)) => format!("some {}", v), _ => "none".into() });
    let nz = call(&|ai| match std::panic::catch_unwind(std::panic::AssertUnwindSafe(|| marginfi::utils::nonzero_fee(ai, epoch))) {
        Ok(Ok(v)) => format!("{}", v as u8), _ => "none".into() });
    // the token program's own arithmetic on the same bytes
    let withheld = if kind < 2 { "some 0".to_string() } else {
        let st = StateWithExtensions::<t22::state::Mint>::unpack(&data).unwrap();
        let cfg = st.get_extension::<TransferFeeConfig>().unwrap();
        o(cfg.calculate_epoch_fee(epoch, amt))
    };
    format!("tf.mint {} {} {} {} {} {} {} {} => {} {} {} {}", kind, older.0, older.1, newer_epoch, newer.0, newer.1, epoch, amt, pre, post, nz, withheld)
}

pub fn gen(rng: &mut Rng, n: usize, out: &mut Vec<String>) {
    for i in 0..n {
        if i % 3 == 2 {
            out.push(mint_line(rng));
            continue;
        }
        let (bps, max) = gen_cfg(rng);
        let amt = rng.u64_mixed();
        let t = tf(bps, max);
        if i % 2 == 0 {
            out.push(format!("tf.fee {} {} {} => {}", bps, max, amt, o(t.calculate_fee(amt))));
        } else {
            out.push(format!("tf.pre {} {} {} => {}", bps, max, amt, o(pre_fee(bps, max, amt))));
        }
    }
}
