//! family `tokenfee`: marginfi's calculate_pre_fee_amount and the real Token-2022 TransferFee::calculate_fee.
use crate::rng::Rng;
use marginfi::utils::calculate_pre_fee_amount;
use anchor_spl::token_2022::spl_token_2022::extension::transfer_fee::TransferFee;

pub fn tf(bps: u16, max: u64) -> TransferFee {
    TransferFee { epoch: 0.into(), maximum_fee: max.into(), transfer_fee_basis_points: bps.into() }
}

pub fn gen_cfg(rng: &mut Rng) -> (u16, u64) {
    let bps = match rng.below(8) {
        0 => 0,
        1 => 1,
        2 => 9999,
        3 => 10000,
        4 => 10001 + rng.below(100) as u16,
        5 => 100,
        _ => rng.below(10001) as u16,
    };
    let max = match rng.below(6) {
        0 => 0,
        1 => 1,
        2 => u64::MAX,
        3 => rng.below(1000),
        _ => rng.u64_mixed(),
    };
    (bps, max)
}

fn o(x: Option<u64>) -> String {
    x.map(|v| format!("some {}", v)).unwrap_or("none".into())
}

pub fn gen(rng: &mut Rng, n: usize, out: &mut Vec<String>) {
    for i in 0..n {
        let (bps, max) = gen_cfg(rng);
        let amt = rng.u64_mixed();
        let t = tf(bps, max);
        if i % 2 == 0 {
            out.push(format!("tf.fee {} {} {} => {}", bps, max, amt, o(t.calculate_fee(amt))));
        } else {
            let r = std::panic::catch_unwind(|| calculate_pre_fee_amount(&t, amt));
            out.push(format!("tf.pre {} {} {} => {}", bps, max, amt, match r { Ok(v) => o(v), Err(_) => "panic".into() }));
        }
    }
}
