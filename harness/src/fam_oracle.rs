//! family `oracle`: the REAL `OraclePriceFeedAdapter::try_from_bank` + `get_price_of_type` on generated
//! Fixed / Pyth push / Switchboard pull accounts (prices, exponents, confidences and std-devs across their
//! integer ranges, publish times around the staleness boundary, wrong key / owner / discriminator).
use crate::fam_health::gen_price;
use crate::rng::Rng;
use anchor_lang::prelude::*;
use anchor_lang::{AnchorSerialize, Discriminator};
use fixed::types::I80F48;
use marginfi::constants::SWITCHBOARD_PULL_ID;
use marginfi::state::price::{OraclePriceFeedAdapter, OraclePriceType, PriceAdapter, PriceBias};
use marginfi_type_crate::types::{Bank, OracleSetup};
use pyth_solana_receiver_sdk::price_update::{PriceFeedMessage, PriceUpdateV2, VerificationLevel};
use std::panic::{catch_unwind, AssertUnwindSafe};
use switchboard_on_demand::PullFeedAccountData;

fn res(r: std::thread::Result<std::result::Result<I80F48, anchor_lang::error::Error>>) -> String {
    match r {
        Err(_) => "panic".to_string(),
        Ok(Ok(v)) => format!("ok {}", v.to_bits()),
        Ok(Err(anchor_lang::error::Error::AnchorError(a))) => format!("err {}", a.error_code_number),
        Ok(Err(anchor_lang::error::Error::ProgramError(p))) => match p.program_error {
            ProgramError::Custom(c) => format!("err {}", c),
            _ => "err 1".to_string(),
        },
    }
}

pub fn gen(rng: &mut Rng, n: usize, out: &mut Vec<String>) {
    crate::stubs::install();
    for i in 0..n {
        let now: i64 = 1_700_000_000 + rng.range(0, 100_000_000);
        let clock = Clock { slot: 1000, epoch_start_timestamp: 0, epoch: 0, leader_schedule_epoch: 0, unix_timestamp: now };
        let age: u16 = *rng.pick(&[0u16, 10, 30, 60, 600]);
        let t_tw = rng.chance(1, 2);
        let bias = rng.below(3);
        let mc: u32 = match rng.below(4) {
            0 => 0,
            1 => u32::MAX,
            2 => rng.below(u32::MAX as u64 / 20) as u32,
            _ => (u32::MAX as u64 / 10 + rng.below(u32::MAX as u64 / 2)) as u32,
        };
        let mut bank = Bank::default();
        bank.config.oracle_max_age = age;
        bank.config.oracle_max_confidence = mc;
        let key = Pubkey::new_from_array([3u8; 32]);
        let other = Pubkey::new_from_array([4u8; 32]);
        bank.config.oracle_keys[0] = key;
        let ptype = if t_tw { OraclePriceType::TimeWeighted } else { OraclePriceType::RealTime };
        let pbias = match bias { 0 => None, 1 => Some(PriceBias::Low), _ => Some(PriceBias::High) };
        let head = format!("risk.price {} {} {} {} {}", now, age, t_tw as u8, bias, mc);
        let age_eff = |is_pyth: bool| -> i64 { if age == 0 && is_pyth { 60 } else { age as i64 } };
        match i % 3 {
            0 => {
                // Switchboard pull
                bank.config.oracle_setup = OracleSetup::SwitchboardPull;
                let value: i128 = match rng.below(9) {
                    0 => 0,
                    1 => (1i128 << 79) + rng.range(-3, 3) as i128,                       // I80F48 integer-range boundary
                    2 => (1i128 << 79) + (rng.u128() >> 50) as i128,
                    3 => -((rng.u128() >> 70) as i128),
                    4 => (rng.below(1_000_000) as i128) * 1_000_000_000_000,             // < $1
                    5 => (rng.below(100_000) as i128 + 1) * 1_000_000_000_000_000_000,   // $1 .. $100k
                    6 => (rng.below(2_000_000) as i128 + 1) * 1_000_000_000_000_000_000, // up to $2M
                    7 => (rng.u128() >> rng.below(100)) as i128,
                    _ => (rng.below(1_000_000_000) as i128) * 1_000_000_000,
                };
                let a = value.unsigned_abs();
                let std_dev: i128 = match rng.below(7) {
                    0 => 0,
                    1 => (a / 1000) as i128,
                    2 => (a / 50) as i128,
                    3 => (a / 42) as i128 + rng.range(-2, 2) as i128,
                    4 => (a / 9) as i128,
                    5 => -1,
                    _ => (rng.u128() >> 64) as i128 % (a.max(1) as i128),
                };
                let last: i64 = match rng.below(7) {
                    0 => now - age_eff(false),
                    1 => now - age_eff(false) - 1,
                    2 => now - 100 * age_eff(false).max(1),
                    3 => now + 3,
                    // ages that only look young after a narrowing conversion (a multiple of 2^16 / 2^32 seconds plus a little)
                    4 => now - (*rng.pick(&[1i64 << 16, 1 << 17, 3 << 16, 1 << 32, 1 << 31])) - rng.below(age_eff(false) as u64 + 2) as i64,
                    _ => now - rng.below(age_eff(false) as u64 + 1) as i64,
                };
                let key_ok = !rng.chance(1, 12);
                let owner_ok = !rng.chance(1, 12);
                let mut feed: PullFeedAccountData = bytemuck::Zeroable::zeroed();
                feed.result.value = value;
                feed.result.std_dev = std_dev;
                feed.last_update_timestamp = last;
                let mut data = Vec::new();
                data.extend_from_slice(&<PullFeedAccountData as switchboard_on_demand::Discriminator>::DISCRIMINATOR);
                data.extend_from_slice(bytemuck::bytes_of(&feed));
                let k = if key_ok { key } else { other };
                let owner = if owner_ok { SWITCHBOARD_PULL_ID } else { solana_program::system_program::ID };
                let mut lam = 1u64;
                let ai = AccountInfo::new(&k, false, false, &mut lam, &mut data, &owner, false, 0);
                let ais = [ai];
                let r = catch_unwind(AssertUnwindSafe(|| {
                    let ad = OraclePriceFeedAdapter::try_from_bank(&bank, &ais, &clock)?;
                    ad.get_price_of_type(ptype, pbias, mc)
                }));
                out.push(format!("{} 2 {} {} {} {} {} => {}", head, key_ok as u8, owner_ok as u8, last, value, std_dev, res(r)));
            }
            1 => {
                bank.config.oracle_setup = OracleSetup::PythPushOracle;
                let (price, expo) = if rng.chance(1, 10) { (rng.next() as i64, *rng.pick(&[-30i32, 25, 12, -18, 3])) } else { gen_price(rng) };
                let ema = if rng.chance(1, 3) { price } else { ((price as i128) * (90 + rng.below(21) as i128) / 100) as i64 };
                let p = price.unsigned_abs();
                let conf: u64 = match rng.below(7) {
                    0 => 0,
                    1 => p / 1000,
                    2 => p / 50,
                    3 => (p / 43).saturating_add(rng.below(3)),
                    4 => p / 9,
                    5 => u64::MAX >> rng.below(40),
                    _ => rng.below(p.max(1)),
                };
                let ema_conf = if rng.chance(1, 2) { conf } else { ema.unsigned_abs() / 60 };
                let publish = match rng.below(9) {
                    0 => now - age_eff(true),
                    1 => now - age_eff(true) - 1,
                    2 => now - age_eff(true) + 1,
                    3 => now - 10 * age_eff(true),
                    4 => now + 5,
                    5 => i64::MAX - rng.below(30) as i64,
                    6 => now - (*rng.pick(&[1i64 << 16, 1 << 17, 3 << 16, 1 << 32, 1 << 31])) - rng.below(age_eff(true) as u64 + 2) as i64,
                    _ => now - rng.below(age_eff(true) as u64 + 1) as i64,
                };
                let (key_ok, owner_ok, disc_ok, full) = (!rng.chance(1, 14), !rng.chance(1, 14), !rng.chance(1, 14), !rng.chance(1, 14));
                let upd = PriceUpdateV2 {
                    write_authority: Pubkey::default(),
                    verification_level: if full { VerificationLevel::Full } else { VerificationLevel::Partial { num_signatures: 7 } },
                    price_message: PriceFeedMessage { feed_id: key.to_bytes(), price, conf, exponent: expo, publish_time: publish, prev_publish_time: publish.saturating_sub(1), ema_price: ema, ema_conf },
                    posted_slot: 1000,
                };
                let mut data = Vec::new();
                data.extend_from_slice(<PriceUpdateV2 as Discriminator>::DISCRIMINATOR);
                upd.serialize(&mut data).unwrap();
                if data.len() < PriceUpdateV2::LEN { data.resize(PriceUpdateV2::LEN, 0); }
                if !disc_ok { data[0] ^= 0x55; }
                let k = if key_ok { key } else { other };
                let owner = if owner_ok { pyth_solana_receiver_sdk::id() } else { solana_program::system_program::ID };
                let mut lam = 1u64;
                let ai = AccountInfo::new(&k, false, false, &mut lam, &mut data, &owner, false, 0);
                let ais = [ai];
                let r = catch_unwind(AssertUnwindSafe(|| {
                    let ad = OraclePriceFeedAdapter::try_from_bank(&bank, &ais, &clock)?;
                    ad.get_price_of_type(ptype, pbias, mc)
                }));
                out.push(format!("{} 1 {} {} {} {} {} {} {} {} {} {} => {}", head, key_ok as u8, owner_ok as u8, disc_ok as u8, full as u8, publish, price, conf, ema, ema_conf, expo, res(r)));
            }
            _ => {
                bank.config.oracle_setup = OracleSetup::Fixed;
                let p: i128 = match rng.below(5) { 0 => 0, 1 => -1, 2 => -(rng.below(1 << 50) as i128), 3 => rng.fx_bits(), _ => rng.below(1u64 << 60) as i128 };
                bank.config.fixed_price = I80F48::from_bits(p).into();
                let ais: [AccountInfo; 0] = [];
                let r = catch_unwind(AssertUnwindSafe(|| {
                    let ad = OraclePriceFeedAdapter::try_from_bank(&bank, &ais, &clock)?;
                    ad.get_price_of_type(ptype, pbias, mc)
                }));
                out.push(format!("{} 0 {} => {}", head, p, res(r)));
            }
        }
    }
}

/// Property predicates on the REAL adapters (written from the property text, exact big-integer
/// arithmetic): an accepted price comes from the configured, correctly owned, verified, fresh account; the
/// low-biased price is at or below and the high-biased at or above the reported price, by at most 5 %;
/// a biased price is never negative.
pub fn monitor(rng: &mut Rng, n: usize, rep: &mut crate::mon::Report) {
    use num_bigint::BigInt;
    let mut out = vec![];
    gen(rng, n, &mut out);
    let one = BigInt::from(1i128 << 48);
    for line in out {
        rep.bump("cases");
        let (lhs, rhs) = line.split_once(" => ").unwrap();
        let t: Vec<BigInt> = lhs.split(' ').skip(1).map(|x| x.parse::<BigInt>().unwrap()).collect();
        let Some(got) = rhs.strip_prefix("ok ") else {
            rep.bump("refused");
            continue;
        };
        rep.bump("accepted");
        let got: BigInt = got.parse().unwrap();
        let (now, age, bias) = (t[0].clone(), t[1].clone(), t[3].clone());
        let kind = &t[5];
        let reported: Option<BigInt>; // reported (unbiased) price in I80F48 bits, truncated toward zero
        if *kind == BigInt::from(1) {
            let (key_ok, owner_ok, disc_ok, full, publish) = (&t[6], &t[7], &t[8], &t[9], &t[10]);
            let age_eff = if age == BigInt::from(0) { BigInt::from(60) } else { age.clone() };
            let mut why = vec![];
            if *key_ok == BigInt::from(0) { why.push("not the configured oracle account") }
            if *owner_ok == BigInt::from(0) { why.push("not owned by the Pyth receiver program") }
            if *disc_ok == BigInt::from(0) { why.push("not a PriceUpdateV2 account") }
            if *full == BigInt::from(0) { why.push("not fully verified") }
            if &now - publish > age_eff { why.push("older than the bank's maximum age") }
            if !why.is_empty() {
                rep.fail(format!("C09 a Pyth price was ACCEPTED although the account is {}: {}", why.join(", "), lhs));
                if *key_ok == BigInt::from(0) || *owner_ok == BigInt::from(0) {
                    rep.fail(format!("C08 a substituted oracle account (another bank's or another program's) was accepted: {}: {}", why.join(", "), lhs));
                }
            }
            let tw = t[2] != BigInt::from(0);
            let raw = if tw { &t[13] } else { &t[11] };
            let expo: i64 = t[15].to_string().parse().unwrap();
            let num = raw * &one;
            reported = Some(if expo >= 0 { num * BigInt::from(10u8).pow(expo as u32) } else {
                let d = BigInt::from(10u8).pow((-expo) as u32);
                // truncation toward zero
                let q = &num / &d;
                q
            });
        } else if *kind == BigInt::from(2) {
            let (key_ok, owner_ok, last) = (&t[6], &t[7], &t[8]);
            let mut why = vec![];
            if *key_ok == BigInt::from(0) { why.push("not the configured oracle account") }
            if *owner_ok == BigInt::from(0) { why.push("not owned by the Switchboard program") }
            if &now - last > age { why.push("older than the bank's maximum age") }
            if !why.is_empty() {
                rep.fail(format!("C09 a Switchboard price was ACCEPTED although the account is {}: {}", why.join(", "), lhs));
                if *key_ok == BigInt::from(0) || *owner_ok == BigInt::from(0) {
                    rep.fail(format!("C08 a substituted oracle account (another bank's or another program's) was accepted: {}: {}", why.join(", "), lhs));
                }
            }
            reported = Some((&t[9] * &one) / BigInt::from(10u8).pow(18));
        } else {
            if t[6] < BigInt::from(0) {
                rep.fail(format!("C09 a negative fixed price was ACCEPTED: {}", lhs));
            }
            reported = None;
        }
        // the reported confidence interval (95 %: 2.12 x conf for Pyth, 1.96 x std-dev for Switchboard) must be
        // within the bank's maximum (default 10 %) of the price whenever a biased price is handed out
        if bias != BigInt::from(0) && *kind != BigInt::from(0) {
            if let Some(p) = &reported {
                let mc = &t[4];
                let conf_bits: BigInt = if *kind == BigInt::from(1) {
                    let tw = t[2] != BigInt::from(0);
                    let raw = if tw { &t[14] } else { &t[12] };
                    let expo: i64 = t[15].to_string().parse().unwrap();
                    let num = raw * &one;
                    let c = if expo >= 0 { num * BigInt::from(10u8).pow(expo as u32) } else { num / BigInt::from(10u8).pow((-expo) as u32) };
                    (c * BigInt::from(596726950626591i128)) >> 48u32
                } else {
                    let c = (&t[10] * &one) / BigInt::from(10u8).pow(18);
                    (c * BigInt::from(551690954352886i128)) >> 48u32
                };
                // max = price * mc / u32::MAX   (mc = 0: 10 %)
                let max_bits: BigInt = if *mc > BigInt::from(0) { (p * mc) / BigInt::from(u32::MAX) } else { p / BigInt::from(10) };
                if conf_bits > &max_bits + BigInt::from(16) {
                    rep.fail(format!("C09 a biased price was handed out although the confidence interval {} exceeds the bank's maximum {} of the price: {}", conf_bits, max_bits, lhs));
                }
                rep.bump("conf_checked");
            }
        }
        if let Some(p) = reported {
            let tol = BigInt::from(4); // truncations of the conversion chain, in ulps
            let five_pct = (&p * BigInt::from(14073748835533i128)) >> 48u32;
            if bias == BigInt::from(0) {
                if (&got - &p).magnitude() > tol.magnitude() {
                    rep.fail(format!("C09 unbiased price {} differs from the reported price {}: {}", got, p, lhs));
                }
            } else if bias == BigInt::from(1) {
                if got > &p + &tol { rep.fail(format!("C09 low-biased price {} ABOVE the reported price {}: {}", got, p, lhs)); }
                if got < &p - &five_pct - &tol { rep.fail(format!("C09 low-biased price {} more than 5% below the reported price {}: {}", got, p, lhs)); }
                if got < BigInt::from(0) { rep.fail(format!("C09 negative collateral price {}: {}", got, lhs)); }
                rep.bump("low");
            } else {
                if got < &p - &tol { rep.fail(format!("C09 high-biased price {} BELOW the reported price {}: {}", got, p, lhs)); }
                if got > &p + &five_pct + &tol { rep.fail(format!("C09 high-biased price {} more than 5% above the reported price {}: {}", got, p, lhs)); }
                rep.bump("high");
            }
        }
    }
}
