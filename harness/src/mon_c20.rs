//! C20 monitor: exact-rational (u128/i128 big-enough integer) expectations vs the real conversion functions.
use crate::fam_integr::{cum_interest, gen_reserve_price, spot_market, supply_fx};
use crate::mon::Report;
use crate::rng::Rng;
use fixed::types::I80F48;
use marginfi_type_crate::types::{collateral_to_liquidity_from_scaled, liquidity_to_collateral_from_scaled, scale_supplies};

const ONE: i128 = 1 << 48;

/// compare a/b vs c/d for non-negative a,c and positive b,d without overflow (256-bit via u128 pairs)
fn mul_u128(a: u128, b: u128) -> (u128, u128) {
    // returns (hi, lo)
    let (a1, a0) = (a >> 64, a & 0xFFFF_FFFF_FFFF_FFFF);
    let (b1, b0) = (b >> 64, b & 0xFFFF_FFFF_FFFF_FFFF);
    let p00 = a0 * b0;
    let p01 = a0 * b1;
    let p10 = a1 * b0;
    let p11 = a1 * b1;
    let mid = (p00 >> 64) + (p01 & 0xFFFF_FFFF_FFFF_FFFF) + (p10 & 0xFFFF_FFFF_FFFF_FFFF);
    let lo = (p00 & 0xFFFF_FFFF_FFFF_FFFF) | (mid << 64);
    let hi = p11 + (p01 >> 64) + (p10 >> 64) + (mid >> 64);
    (hi, lo)
}
/// a*b <= c*d ?
fn prod_le(a: u128, b: u128, c: u128, d: u128) -> bool {
    mul_u128(a, b) <= mul_u128(c, d)
}

/// the witness of known finding C20-F2 / C03-F1 on the REAL functions (scale_supplies + collateral_to_liquidity_from_scaled, as the
/// Solend and Kamino reserves call them): 2 062 747 110 626 collateral of a reserve with 6 188 002 000 001 raw liquidity and
/// 2 062 747 777 319 raw collateral, 9 decimals, is worth 6 187 999 999 999.99999… tokens
pub fn conversion_above_exact(tag: &str, rep: &mut Report) {
    let (liq, col, c, d): (u64, u64, u64, u8) = (6_188_002_000_001, 2_062_747_777_319, 2_062_747_110_626, 9);
    let exact = (c as u128) * (liq as u128) / (col as u128);
    if let Some((l, cc)) = scale_supplies(I80F48::from_num(liq), col, d) {
        if let Some(v) = collateral_to_liquidity_from_scaled(c, l, cc) {
            if (v as u128) > exact {
                rep.fail(format!("{} conversion-announces-above-exact (denominator truncation): collateral_to_liquidity of {} collateral announces {} tokens where the exact value is {} (reserve liquidity {}, collateral supply {}, {} decimals)", tag, c, v, exact, liq, col, d));
            }
        }
    }
}

pub fn run(rng: &mut Rng, n: usize, rep: &mut Report) {
    // directed candidate (DESIGN §7 row 6)
    check_price(6 * ONE, 3, 9, 1_000_000_000_000, rep);
    check_price(6 * ONE, 3, 9, 10_000_000_000, rep);
    // directed candidate (known finding C20-F2): the conversion itself, one unit above the exact value
    conversion_above_exact("C20", rep);
    for i in 0..n {
        rep.bump("cases");
        match i % 4 {
            0 => {
                // Kamino/Solend round trips on the real functions
                let l = supply_fx(rng).max(1);
                let c = supply_fx(rng).max(1);
                let x = rng.u64_mixed();
                let (lf, cf) = (I80F48::from_bits(l), I80F48::from_bits(c));
                if let Some(y) = liquidity_to_collateral_from_scaled(x, lf, cf) {
                    if let Some(z) = collateral_to_liquidity_from_scaled(y, lf, cf) {
                        rep.bump("roundtrip_liq");
                        if z > x {
                            rep.fail(format!("deposit-then-withdraw round trip gains: {} -> {} col -> {} liq, L={} C={}", x, y, z, l, c));
                        }
                    }
                }
                if let Some(y) = collateral_to_liquidity_from_scaled(x, lf, cf) {
                    if let Some(z) = liquidity_to_collateral_from_scaled(y, lf, cf) {
                        rep.bump("roundtrip_col");
                        if z > x {
                            rep.fail(format!("collateral round trip gains: {} -> {} liq -> {} col, L={} C={}", x, y, z, l, c));
                        }
                    }
                }
            }
            1 => {
                let d = rng.below(20) as u32;
                let cum = cum_interest(rng);
                let a = rng.u64_mixed();
                let m = spot_market(d, cum, 0);
                if let (Ok(s), Ok(s2)) = (m.get_scaled_balance_increment(a), m.get_scaled_balance_decrement(a)) {
                    rep.bump("drift_inc_dec");
                    if s2 < s {
                        rep.fail(format!("drift decrement {} < increment {} for amount {} d={} cum={}", s2, s, a, d, cum));
                    }
                    if let Ok(t) = m.get_withdraw_token_amount(s) {
                        rep.bump("drift_roundtrip");
                        if t > a {
                            rep.fail(format!("drift round trip gains: {} -> {} scaled -> {} tokens, d={} cum={}", a, s, t, d, cum));
                        }
                    }
                }
                // price adjust: exactly floor(p*cum/1e10)
                let p = rng.u64_mixed();
                if let Ok(q) = m.adjust_u64(p) {
                    let (hi, lo) = mul_u128(p as u128, cum);
                    let (qh, ql) = mul_u128(q as u128, 10_000_000_000);
                    if (qh, ql) > (hi, lo) {
                        rep.fail(format!("drift adjusted price {} above price {} x rate cum={}", q, p, cum));
                    }
                    rep.bump("drift_adjust");
                }
            }
            2 => {
                // adjust_i128 / adjust_i64 / adjust_u64 directly, raw values biased to the I80F48 integer-range
                // boundary (2^79) where a conversion may wrap: result must be None or floor(raw·ratio)
                use marginfi_type_crate::types::{adjust_i128, adjust_i64, adjust_u64};
                use num_bigint::BigInt;
                let raw: i128 = match rng.below(6) {
                    0 => (1i128 << 79) + rng.range(-3, 3) as i128,
                    1 => (1i128 << 79) + (rng.u128() >> 49) as i128,
                    2 => -(1i128 << 79) + rng.range(-3, 3) as i128,
                    3 => (rng.u128() >> rng.below(60)) as i128,
                    4 => (rng.u64_mixed() as i128) * 1_000_000_000_000,
                    _ => rng.u64_mixed() as i128,
                };
                let rb: i128 = match rng.below(4) {
                    0 => ONE,
                    1 => ONE + rng.below(ONE as u64 / 2) as i128,
                    2 => rng.below(ONE as u64) as i128,
                    _ => rng.below(4 * ONE as u64) as i128,
                };
                let exact = |x: i128| -> BigInt { (BigInt::from(x) * BigInt::from(rb)) >> 48 };
                let lim = BigInt::from(1i128 << 79);
                if let Some(v) = adjust_i128(raw, I80F48::from_bits(rb)) {
                    rep.bump("adjust_i128_some");
                    // the function computes floor(I80F48(raw)·ratio) as an integer; anything else is a wrap
                    if BigInt::from(v) != exact(raw) {
                        rep.fail(format!("adjust_i128({}, ratio_bits {}) = {} but raw x ratio = {} (wrapped conversion instead of failing closed)", raw, rb, v, exact(raw)));
                    }
                } else {
                    rep.bump("adjust_i128_none");
                    if BigInt::from(raw).magnitude() < lim.magnitude() && exact(raw).magnitude() < lim.magnitude() && raw >= 0 {
                        rep.fail(format!("adjust_i128({}, ratio_bits {}) fails although value and product fit", raw, rb));
                    }
                }
                if raw >= 0 && raw <= u64::MAX as i128 {
                    if let Some(v) = adjust_u64(raw as u64, I80F48::from_bits(rb)) {
                        if BigInt::from(v) != exact(raw) {
                            rep.fail(format!("adjust_u64({}, ratio_bits {}) = {} but raw x ratio = {}", raw, rb, v, exact(raw)));
                        }
                    }
                }
                if raw >= 0 && raw <= i64::MAX as i128 {
                    if let Some(v) = adjust_i64(raw as i64, I80F48::from_bits(rb)) {
                        if BigInt::from(v) != exact(raw) {
                            rep.fail(format!("adjust_i64({}, ratio_bits {}) = {} but raw x ratio = {}", raw, rb, v, exact(raw)));
                        }
                    }
                }
            }
            _ => {
                let (l, c, d, p) = gen_reserve_price(rng);
                check_price(l, c, d, p, rep);
            }
        }
    }
}

/// adjusted price vs price × exact rate (exact rate = total_liq_raw / total_col_raw)
fn check_price(l: i128, c: u64, d: u8, p: i128, rep: &mut Report) {
    if l < 0 || p < 0 || c == 0 {
        return;
    }
    let scaled = scale_supplies(I80F48::from_bits(l), c, d);
    let col_positive = matches!(scaled, Some((_, tc)) if tc > I80F48::ZERO);
    if !col_positive {
        rep.bump("price_unadjusted_or_none");
        return;
    }
    let exceeds = |q: u128| -> bool {
        // q ≤ p · (l/2^48) / c  ⇔  q · c · 2^48 ≤ p · l   (all non-negative)
        let (h1, l1) = mul_u128(q, (c as u128) << 48 >> 0);
        let _ = (h1, l1);
        // c·2^48 can exceed u128 for c ≥ 2^80 — c is u64 so c·2^48 < 2^112: fine
        !prod_le(q, (c as u128) << 48, p as u128, l as u128)
    };
    // The known defect (C20-F1): the program truncates BOTH supplies by 10^decimals before dividing,
    // so the used ratio can exceed the exact one by the truncation of the denominator. An excess
    // that this explains satisfies q ≤ p·(liq/10^d)/⌊col·2^48/10^d⌋; anything above that is a
    // different violation and is reported under its own message.
    let pow = 10u128.pow(d as u32);
    let c_s = ((c as u128) << 48) / pow;
    let explained = |q: u128| -> bool { c_s > 0 && prod_le(q, c_s * pow, p as u128, l as u128) };
    let mut report = |kind: &str, q: i128, rep: &mut Report| {
        if q < 0 {
            rep.fail(format!("adjusted price negative for a non-negative price: {} gives {} for price {} with reserve liq_raw_bits={} col_raw={} decimals={}", kind, q, p, l, c, d));
        }
        if q >= 0 && exceeds(q as u128) {
            if explained(q as u128) {
                rep.fail(format!(
                    "kamino-ratio-exceeds-exact (denominator truncation): {} gives {} for price {} with reserve liq_raw_bits={} col_raw={} decimals={} (above price x exact rate)",
                    kind, q, p, l, c, d
                ));
            } else {
                rep.fail(format!(
                    "adjusted price far above price x exact rate: {} gives {} for price {} with reserve liq_raw_bits={} col_raw={} decimals={}",
                    kind, q, p, l, c, d
                ));
            }
        }
    };
    // the adjusted price comes out of the REAL oracle adapter (Kamino + Pyth arm, exponent 0) on a really-laid-out reserve
    if p <= i64::MAX as i128 {
        if let Some(q) = crate::mon_venue::kamino_pyth_adjusted(l, c, d, p as i64) {
            rep.bump("price64");
            report("adjust_i64", q as i128, rep);
        }
    }
    rep.sample(format!("price liq_raw_bits={} col_raw={} d={} p={}", l, c, d, p));
}
