//! C19 monitor (Level B, real dispatch): fee collection / draw-down destinations and emissions.
//!
//! * every SUBSTITUTED account of `lending_pool_collect_bank_fees` (fee ATA of another wallet / another
//!   mint / a non-ATA account of the right wallet, another bank's vaults, swapped vaults) must be refused;
//! * fee and insurance vaults are drawn down only with the group admin's signature; the permissionless
//!   fee sweep pays only the destination the admin stored;
//! * emissions: over generated histories (clock advances, settles, user activity, authorised and
//!   permissionless withdrawals with substituted signers / destinations) the pool equation
//!   `remaining + Σ outstanding + paid = funded` holds exactly, `remaining ≥ 0`, the emissions vault
//!   falls by exactly what was paid, and each credit is ≤ the exact proportional amount.
use crate::mon::Report;
use crate::rng::Rng;
use crate::scen::{Act, Scen, ONE};
use crate::world::{ix, TokenKind};
use anchor_lang::prelude::Pubkey;
use fixed::types::I80F48;
use marginfi_type_crate::constants::{EMISSIONS_FLAG_BORROW_ACTIVE, EMISSIONS_FLAG_LENDING_ACTIVE};
use num_bigint::BigInt;

fn bits(v: marginfi_type_crate::types::WrappedI80F48) -> i128 {
    I80F48::from(v).to_bits()
}

pub fn run(rng: &mut Rng, n: usize, rep: &mut Report) {
    let mut done = 0;
    while done < n {
        let mut s = Scen::build(rng);
        let mut scratch = Report::default();
        for b in 0..s.banks.len() {
            let key = s.banks[b].bank;
            let mut bk = s.w.bank(&key);
            bk.config.deposit_limit = u64::MAX;
            bk.config.borrow_limit = u64::MAX;
            s.w.set_bank(&key, &bk);
            for u in 0..s.users.len() {
                let _ = s.step(&Act::Deposit { u, b, amt: 1_000_000_000 * (1 + rng.below(50)), upto: false }, &mut scratch);
            }
        }
        let nb = s.banks.len();
        for u in 0..s.users.len() {
            let _ = s.step(&Act::Borrow { u, b: (u + 1) % nb, amt: 10_000_000 * (1 + rng.below(20)), }, &mut scratch);
        }
        fees_part(&mut s, rng, rep);
        emissions_part(&mut s, rng, rep);
        done += 1;
        rep.bump("cases");
    }
}

fn must_fail(s: &mut Scen, ixn: &solana_program::instruction::Instruction, what: &str, rep: &mut Report) {
    let before = s.w.accounts.clone();
    match s.w.exec(ixn) {
        Ok(()) => rep.fail(format!("{} was ACCEPTED", what)),
        Err(_) => {
            rep.bump("refused");
            if s.w.accounts != before {
                rep.fail(format!("{}: refused but the account store changed", what));
            }
        }
    }
}

fn fees_part(s: &mut Scen, rng: &mut Rng, rep: &mut Report) {
    let b = rng.below(s.banks.len() as u64) as usize;
    let o = (b + 1) % s.banks.len();
    let (h, ho) = (s.banks[b], s.banks[o]);
    let vault = s.w.token_amount(&h.liquidity_vault);
    // outstanding buckets: fractional, larger than liquidity, zero
    let mut gen_fee = |rng: &mut Rng| -> i128 {
        match rng.below(5) {
            0 => 0,
            1 => rng.below(ONE as u64) as i128,
            2 => (rng.below(1000) as i128 + 1) * ONE + rng.below(ONE as u64) as i128,
            3 => (vault as i128 / 2) * ONE + rng.below(ONE as u64) as i128,
            _ => (1 + rng.below(1_000_000) as i128) * ONE,
        }
    };
    let mut bank = s.w.bank(&h.bank);
    bank.collected_insurance_fees_outstanding = I80F48::from_bits(gen_fee(rng) + ONE).into();
    bank.collected_group_fees_outstanding = I80F48::from_bits(gen_fee(rng) + ONE).into();
    bank.collected_program_fees_outstanding = I80F48::from_bits(gen_fee(rng) + ONE).into();
    s.w.set_bank(&h.bank, &bank);
    let fw = s.fee_wallet;
    let ata = match s.w.get(&s.w.ata(&fw, &h.mint)) {
        Some(_) => s.w.ata(&fw, &h.mint),
        None => s.w.add_ata(fw, h.mint, 0),
    };
    // ---- substituted destinations
    let stranger = s.w.add_wallet(1_000_000_000);
    let stranger_ata = s.w.add_ata(stranger, h.mint, 0);
    let non_ata = s.w.add_token_account(h.mint, fw, 0);
    let other_mint_ata = match s.w.get(&s.w.ata(&fw, &ho.mint)) {
        Some(_) => s.w.ata(&fw, &ho.mint),
        None => s.w.add_ata(fw, ho.mint, 0),
    };
    must_fail(s, &ix::collect_fees(&h, stranger_ata), "collect-accepts-substituted-account: fee_ata = ATA of a wallet that is not the global fee wallet", rep);
    must_fail(s, &ix::collect_fees(&h, non_ata), "collect-accepts-substituted-account: fee_ata = non-ATA token account of the global fee wallet", rep);
    if ho.mint != h.mint {
        must_fail(s, &ix::collect_fees(&h, other_mint_ata), "collect-accepts-substituted-account: fee_ata = fee wallet's ATA for another mint", rep);
    }
    let mut sub = h;
    sub.insurance_vault = ho.insurance_vault;
    must_fail(s, &ix::collect_fees(&sub, ata), "collect-accepts-substituted-account: insurance_vault of another bank", rep);
    let mut sub = h;
    sub.fee_vault = ho.fee_vault;
    must_fail(s, &ix::collect_fees(&sub, ata), "collect-accepts-substituted-account: fee_vault of another bank", rep);
    let mut sub = h;
    sub.fee_vault = h.insurance_vault;
    sub.insurance_vault = h.fee_vault;
    must_fail(s, &ix::collect_fees(&sub, ata), "collect-accepts-substituted-account: fee and insurance vaults swapped", rep);
    let mut sub = h;
    sub.liquidity_vault = ho.liquidity_vault;
    must_fail(s, &ix::collect_fees(&sub, ata), "collect-accepts-substituted-account: liquidity_vault of another bank", rep);
    let mut sub = h;
    sub.insurance_vault = s.users[0].toks[b];
    must_fail(s, &ix::collect_fees(&sub, ata), "collect-accepts-substituted-account: insurance_vault = a user's token account", rep);
    // ---- the genuine call
    let pre = (s.w.token_amount(&h.insurance_vault), s.w.token_amount(&h.fee_vault), s.w.token_amount(&ata));
    if s.w.exec(&ix::collect_fees(&h, ata)).is_ok() {
        rep.bump("collect_ok");
        let post = (s.w.token_amount(&h.insurance_vault), s.w.token_amount(&h.fee_vault), s.w.token_amount(&ata));
        if post.0 < pre.0 || post.1 < pre.1 || post.2 < pre.2 {
            rep.fail("a fee destination lost tokens during collection".to_string());
        }
    }
    // ---- draw-down: admin only
    let admin = s.admin;
    let dst = s.w.add_token_account(h.mint, admin, 0);
    for (name, vault_key, is_fee) in [("fee", h.fee_vault, true), ("insurance", h.insurance_vault, false)] {
        let have = s.w.token_amount(&vault_key);
        if have == 0 {
            continue;
        }
        let amt = 1 + rng.below(have);
        let mk = |signer: Pubkey, d: Pubkey| if is_fee { ix::withdraw_fees(&h, signer, d, amt) } else { ix::withdraw_insurance(&h, signer, d, amt) };
        must_fail(s, &mk(stranger, stranger_ata), &format!("{}-vault draw-down signed by a non-admin", name), rep);
        // somebody who administers a group of HIS OWN passes that group: the vault belongs to a bank of another group
        {
            let own_group = s.w.add_group(stranger);
            let foreign = crate::world::fixtures::BankHandle { group: own_group, ..h };
            let f = if is_fee { ix::withdraw_fees(&foreign, stranger, stranger_ata, amt) } else { ix::withdraw_insurance(&foreign, stranger, stranger_ata, amt) };
            must_fail(s, &f, &format!("{}-vault draw-down signed by the admin of ANOTHER group (passed as the group)", name), rep);
            must_fail(s, &ix::update_fees_destination(&foreign, stranger, stranger_ata), "fees destination set by the admin of ANOTHER group (passed as the group)", rep);
        }
        must_fail(s, &mk(s.users[0].wallet, s.users[0].toks[b]), &format!("{}-vault draw-down signed by a user", name), rep);
        let mut hw = h;
        if is_fee { hw.fee_vault = ho.fee_vault } else { hw.insurance_vault = ho.insurance_vault };
        let wrong = if is_fee { ix::withdraw_fees(&hw, admin, dst, amt) } else { ix::withdraw_insurance(&hw, admin, dst, amt) };
        must_fail(s, &wrong, &format!("{}-vault draw-down through bank A of bank B's vault", name), rep);
        let (pv, pd, pw) = (s.w.token_amount(&vault_key), s.w.token_amount(&dst), s.w.token_withheld(&dst));
        match s.w.exec(&mk(admin, dst)) {
            Ok(()) => {
                rep.bump("admin_drawdown_ok");
                let (v2, d2, w2) = (s.w.token_amount(&vault_key), s.w.token_amount(&dst), s.w.token_withheld(&dst));
                if pv - v2 != amt || (d2 - pd) + (w2 - pw) != amt {
                    rep.fail(format!("admin {}-vault draw-down of {} moved {} out and {} in", name, amt, pv - v2, (d2 - pd) + (w2 - pw)));
                }
            }
            Err(e) => rep.fail(format!("admin {}-vault draw-down of {} (vault {}) refused: {}", name, amt, have, e)),
        }
    }
    // ---- permissionless sweep: only to the stored destination, which only the admin sets
    let have = s.w.token_amount(&h.fee_vault);
    must_fail(s, &ix::withdraw_fees_permissionless(&h, stranger_ata, have.min(5)), "permissionless fee sweep before any destination was fixed", rep);
    let fixed = s.w.add_token_account(h.mint, admin, 0);
    must_fail(s, &ix::update_fees_destination(&h, stranger, stranger_ata), "fees destination set by a non-admin", rep);
    must_fail(s, &ix::update_fees_destination(&h, admin, other_mint_ata), "fees destination of another mint", rep);
    if s.w.exec(&ix::update_fees_destination(&h, admin, fixed)).is_ok() {
        rep.bump("dest_fixed");
        must_fail(s, &ix::withdraw_fees_permissionless(&h, stranger_ata, 1), "permissionless fee sweep to a destination other than the fixed one", rep);
        must_fail(s, &ix::withdraw_fees_permissionless(&h, dst, 1), "permissionless fee sweep to another account of the admin", rep);
        let (pv, pd, pw) = (s.w.token_amount(&h.fee_vault), s.w.token_amount(&fixed), s.w.token_withheld(&fixed));
        let ask = rng.below(pv.saturating_mul(2) + 2);
        if s.w.exec(&ix::withdraw_fees_permissionless(&h, fixed, ask)).is_ok() {
            rep.bump("sweep_ok");
            let moved = pv - s.w.token_amount(&h.fee_vault);
            let got = (s.w.token_amount(&fixed) - pd) + (s.w.token_withheld(&fixed) - pw);
            if moved != ask.min(pv) || got != moved {
                rep.fail(format!("permissionless sweep of {} (vault {}) moved {} out and {} in", ask, pv, moved, got));
            }
        }
    } else {
        rep.fail("admin could not fix the fees destination".to_string());
    }
}

fn emissions_part(s: &mut Scen, rng: &mut Rng, rep: &mut Report) {
    let b = rng.below(s.banks.len() as u64) as usize;
    let h = s.banks[b];
    // the emissions mint: classic SPL, Token-2022, or Token-2022 with a transfer fee (the vault then receives what is left
    // after the fee; "funded" below always means what actually ARRIVED in the emissions vault)
    let kind = match rng.below(4) {
        0 => TokenKind::T22,
        1 => TokenKind::T22Fee { bps: *rng.pick(&[1u16, 100, 500, 999]), max_fee: *rng.pick(&[5_000u64, 1_000_000_000, u64::MAX]) },
        _ => TokenKind::Spl,
    };
    let fee_mint = matches!(kind, TokenKind::T22Fee { .. });
    let dec = *rng.pick(&[6u8, 9, 0]);
    let emint = s.w.add_mint(kind, dec);
    // half of the fee mints have a fee change scheduled: for a later epoch (the old fee keeps being charged) or for the
    // current one (the new fee is the one the token program withholds from exactly now on)
    if let TokenKind::T22Fee { max_fee, .. } = kind {
        if rng.chance(1, 2) {
            s.w.schedule_fee_change(&emint, *rng.pick(&[0u16, 50, 2500, 900]), max_fee, *rng.pick(&[0u64, 0, 3]));
        }
    }
    let tp = s.w.token_program_of(&emint);
    let total: u64 = match rng.below(4) {
        0 => 1 + rng.below(50),                 // small pool: the cap binds
        1 => 1_000 + rng.below(1_000_000),
        _ => 1_000_000_000 + rng.below(1_000_000_000_000),
    };
    let (_auth, _) = ix::emissions_auth_pda(&h.bank, &emint);
    let (vault, _) = ix::emissions_vault_pda(&h.bank, &emint);
    let rate: u64 = match rng.below(4) {
        0 => 1 + rng.below(1000),
        1 => 1_000_000_000 * (1 + rng.below(1000)),
        2 => rng.below(u32::MAX as u64) * 1000,
        _ => 10u64.pow(dec as u32) * (1 + rng.below(100)),
    };
    let fl = *rng.pick(&[EMISSIONS_FLAG_LENDING_ACTIVE, EMISSIONS_FLAG_BORROW_ACTIVE, EMISSIONS_FLAG_LENDING_ACTIVE | EMISSIONS_FLAG_BORROW_ACTIVE]);
    // the REAL lending_pool_setup_emissions, signed by the emissions admin (= group admin in these worlds), funded from its account
    let funding = s.w.add_token_account(emint, s.admin, u64::MAX / 4);
    if s.w.exec(&ix::setup_emissions(&h, s.admin, emint, funding, tp, fl, rate, total)).is_err() {
        rep.bump("setup_emissions_failed");
        return;
    }
    let funded_tokens = s.w.token_amount(&vault);
    {
        let bk = s.w.bank(&h.bank);
        let rem = bits(bk.emissions_remaining);
        if BigInt::from(rem) > BigInt::from(funded_tokens) * BigInt::from(ONE) {
            rep.fail(format!("lending_pool_setup_emissions credited {} bits of rewards but the emissions vault received {} tokens", rem, funded_tokens));
        }
    }
    let mut funded_tokens = funded_tokens;
    let mut paid: u64 = 0;
    // the monitor's OWN record of when each position's rewards were last brought up to date
    let mut last_claim: Vec<Option<i64>> = vec![None; s.users.len()];
    let dsts: Vec<Pubkey> = s.users.iter().map(|u| u.wallet).collect::<Vec<_>>().iter().map(|w| s.w.add_token_account(emint, *w, 0)).collect();
    let dest_wallets: Vec<Pubkey> = (0..s.users.len()).map(|_| s.w.add_wallet(0)).collect();
    let dest_atas: Vec<Pubkey> = dest_wallets.iter().map(|w| s.w.add_ata(*w, emint, 0)).collect();
    let stranger = s.w.add_wallet(1_000_000_000);
    let stranger_tok = s.w.add_token_account(emint, stranger, 0);
    let mut scratch = Report::default();
    let outstanding = |s: &Scen| -> BigInt {
        s.users.iter().map(|u| {
            let a = s.w.marginfi_account(&u.acct);
            a.lending_account.balances.iter().filter(|x| x.is_active() && x.bank_pk == h.bank).map(|x| BigInt::from(bits(x.emissions_outstanding))).sum::<BigInt>()
        }).sum()
    };
    let base0 = outstanding(s); // positions may carry earlier (zero) outstanding
    let check = |s: &Scen, paid: u64, funded_tokens: u64, what: &str, rep: &mut Report| {
        let funded = BigInt::from(funded_tokens) * BigInt::from(ONE);
        let bk = s.w.bank(&h.bank);
        let rem = bits(bk.emissions_remaining);
        if rem < 0 {
            rep.fail(format!("emissions_remaining negative ({}) after {}", rem, what));
        }
        let total = BigInt::from(rem) + outstanding(s) - &base0 + BigInt::from(paid) * BigInt::from(ONE);
        // rewards credited + still creditable + paid out never exceed what arrived in the vault; without a transfer fee
        // they are exactly equal (with one, the vault receives a little more than was credited)
        if total > funded || (!fee_mint && total != funded) {
            rep.fail(format!("emissions pool equation broken after {}: remaining {} + outstanding {} + paid {}·2^48 vs funded {}·2^48 (vault inflows)", what, rem, outstanding(s), paid, funded_tokens));
        }
        let v = s.w.token_amount(&vault);
        if v != funded_tokens - paid {
            rep.fail(format!("emissions vault holds {} but funded {} - paid {} after {}", v, funded_tokens, paid, what));
        }
    };
    for _ in 0..(8 + rng.below(10)) {
        let u = rng.below(s.users.len() as u64) as usize;
        let (acct, wallet) = (s.users[u].acct, s.users[u].wallet);
        match rng.below(13) {
            12 => {
                // the emissions admin tops the campaign up through the REAL lending_pool_update_emissions_parameters
                let add = 1 + rng.below(1_000_000_000);
                let rem0 = bits(s.w.bank(&h.bank).emissions_remaining);
                let v0 = s.w.token_amount(&vault);
                use anchor_lang::{InstructionData, ToAccountMetas};
                let ixn = solana_program::instruction::Instruction {
                    program_id: marginfi::ID,
                    accounts: marginfi::accounts::LendingPoolUpdateEmissionsParameters {
                        group: h.group,
                        delegate_emissions_admin: s.admin,
                        bank: h.bank,
                        emissions_mint: emint,
                        emissions_token_account: vault,
                        emissions_funding_account: funding,
                        token_program: tp,
                    }
                    .to_account_metas(None),
                    data: marginfi::instruction::LendingPoolUpdateEmissionsParameters { emissions_flags: None, emissions_rate: None, additional_emissions: Some(add) }.data(),
                };
                if s.w.exec(&ixn).is_ok() {
                    let arrived = s.w.token_amount(&vault) - v0;
                    let credited = bits(s.w.bank(&h.bank).emissions_remaining) - rem0;
                    funded_tokens += arrived;
                    rep.bump("top_up");
                    if rem0 == 0 { rep.bump("top_up_after_exhaustion"); }
                    if BigInt::from(credited) > BigInt::from(arrived) * BigInt::from(ONE) {
                        rep.fail(format!("emissions top-up credited {} bits of rewards but only {} tokens arrived in the emissions vault (asked {}, transfer-fee mint: {})", credited, arrived, add, fee_mint));
                    }
                    check(s, paid, funded_tokens, "top-up", rep);
                }
            }
            0 | 1 | 10 | 11 => {
                let dt = *rng.pick(&[1i64, 3600, 86400, 604800, 31_536_000, 31_536_000]);
                s.w.advance(dt);
            }
            2 | 3 => {
                // settle: credit ≤ exact proportional amount, ≥ 0
                let pre_acct = s.w.marginfi_account(&acct);
                let pre_bank = s.w.bank(&h.bank);
                let now = s.w.clock_ts;
                if s.w.exec(&ix::settle_emissions(&h, acct)).is_ok() {
                    rep.bump("settle_ok");
                    let post_acct = s.w.marginfi_account(&acct);
                    if let (Some(x0), Some(x1)) = (pre_acct.lending_account.balances.iter().find(|x| x.is_active() && x.bank_pk == h.bank), post_acct.lending_account.balances.iter().find(|x| x.is_active() && x.bank_pk == h.bank)) {
                        let credit = bits(x1.emissions_outstanding) - bits(x0.emissions_outstanding);
                        if credit < 0 {
                            rep.fail(format!("settle_emissions reduced a position's outstanding rewards by {}", -credit));
                        }
                        let (a, l) = (bits(x0.asset_shares), bits(x0.liability_shares));
                        let lend = pre_bank.flags & EMISSIONS_FLAG_LENDING_ACTIVE != 0;
                        let bor = pre_bank.flags & EMISSIONS_FLAG_BORROW_ACTIVE != 0;
                        let amount_bits: BigInt = if a > l && lend { (BigInt::from(a) * BigInt::from(bits(pre_bank.asset_share_value))) >> 48u32 }
                            else if l > a && bor { (BigInt::from(l) * BigInt::from(bits(pre_bank.liability_share_value))) >> 48u32 }
                            else { BigInt::from(0) };
                        if x1.last_update != now as u64 {
                            rep.fail(format!("settle_emissions left the position's last_update at {} (now {})", x1.last_update, now));
                        }
                        // elapsed time since the rewards were last brought up to date, by the monitor's own record
                        let t = match last_claim[u] { Some(t0) => (now - t0) as i128, None => (now as i128 - x0.last_update as i128).max(0) };
                        // credit_bits · 10^d · YEAR ≤ rate · T · amount_bits   (real-number proportionality, rounding only down)
                        let lhs = BigInt::from(credit) * BigInt::from(10u64.pow(pre_bank.mint_decimals as u32)) * BigInt::from(31_536_000u64);
                        let rhs = BigInt::from(pre_bank.emissions_rate) * BigInt::from(t) * amount_bits;
                        if lhs > rhs {
                            rep.fail(format!("credited emissions {} exceed rate x time x size (rate {} t {} shares a={} l={})", credit, pre_bank.emissions_rate, t, a, l));
                        }
                        if credit > 0 { rep.bump("credit_positive"); }
                        if credit == bits(pre_bank.emissions_remaining) && credit > 0 { rep.bump("cap_binds"); }
                    }
                    last_claim[u] = Some(now);
                    check(s, paid, funded_tokens, "settle", rep);
                }
            }
            4 => {
                // user activity (claims inside the wrapper)
                // (a third of the withdrawals take out exactly the whole position WITHOUT closing it: the slot stays active and
                //  empty, and a later deposit lands on it — the accrual clock must be re-stamped then, too)
                let act = match rng.below(3) {
                    0 => Act::Deposit { u, b, amt: 1 + rng.below(1_000_000_000), upto: false },
                    1 => Act::Withdraw { u, b, amt: 1 + rng.below(1_000_000), all: false },
                    _ => {
                        rep.bump("exact_withdraw_tried");
                        Act::Withdraw { u, b, amt: s.position_amount(u, b), all: false }
                    }
                };
                if let Some(Ok(())) = s.step(&act, &mut scratch) {
                    last_claim[u] = Some(s.w.clock_ts);
                    check(s, paid, funded_tokens, "user activity", rep);
                }
            }
            5 | 6 => {
                // authorised withdrawal; first the substitutions that must be refused
                must_fail(s, &ix::withdraw_emissions(&h, acct, stranger, emint, vault, stranger_tok, tp), "withdraw_emissions signed by a stranger", rep);
                let other = s.users[(u + 1) % s.users.len()].wallet;
                if other != wallet {
                    must_fail(s, &ix::withdraw_emissions(&h, acct, other, emint, vault, stranger_tok, tp), "withdraw_emissions signed by another user", rep);
                }
                must_fail(s, &ix::withdraw_emissions(&h, acct, wallet, emint, stranger_tok, dsts[u], tp), "withdraw_emissions from a substituted emissions vault", rep);
                let (pv, pd) = (s.w.token_amount(&vault), s.w.token_amount(&dsts[u]));
                if s.w.exec(&ix::withdraw_emissions(&h, acct, wallet, emint, vault, dsts[u], tp)).is_ok() {
                    rep.bump("withdraw_ok");
                    let moved = pv - s.w.token_amount(&vault);
                    let got = s.w.token_amount(&dsts[u]) - pd;
                    if got > moved || (!fee_mint && got != moved) {
                        rep.fail(format!("withdraw_emissions took {} from the vault but the destination got {}", moved, got));
                    }
                    paid += moved;
                    if moved > 0 { rep.bump("payout_positive"); }
                    last_claim[u] = Some(s.w.clock_ts);
                    check(s, paid, funded_tokens, "withdraw_emissions", rep);
                }
            }
            _ => {
                // permissionless withdrawal
                let a = s.w.marginfi_account(&acct);
                if a.emissions_destination_account == Pubkey::default() {
                    must_fail(s, &ix::withdraw_emissions_permissionless(&h, acct, emint, vault, dest_atas[u], tp), "permissionless emissions withdrawal with no destination chosen", rep);
                    must_fail(s, &ix::update_emissions_destination(acct, stranger, stranger), "emissions destination set by a stranger", rep);
                    if s.w.exec(&ix::update_emissions_destination(acct, wallet, dest_wallets[u])).is_err() {
                        rep.fail("the account authority could not set its emissions destination".to_string());
                        continue;
                    }
                }
                must_fail(s, &ix::withdraw_emissions_permissionless(&h, acct, emint, vault, stranger_tok, tp), "permissionless emissions withdrawal to a stranger's token account", rep);
                must_fail(s, &ix::withdraw_emissions_permissionless(&h, acct, emint, vault, dsts[u], tp), "permissionless emissions withdrawal to a non-ATA account (not the chosen wallet's ATA)", rep);
                let ou = (u + 1) % s.users.len();
                if ou != u {
                    must_fail(s, &ix::withdraw_emissions_permissionless(&h, acct, emint, vault, dest_atas[ou], tp), "permissionless emissions withdrawal to another account's chosen destination", rep);
                }
                let (pv, pd) = (s.w.token_amount(&vault), s.w.token_amount(&dest_atas[u]));
                if s.w.exec(&ix::withdraw_emissions_permissionless(&h, acct, emint, vault, dest_atas[u], tp)).is_ok() {
                    rep.bump("permissionless_ok");
                    let moved = pv - s.w.token_amount(&vault);
                    let got = s.w.token_amount(&dest_atas[u]) - pd;
                    if got > moved || (!fee_mint && got != moved) {
                        rep.fail(format!("permissionless emissions withdrawal took {} but the destination got {}", moved, got));
                    }
                    paid += moved;
                    last_claim[u] = Some(s.w.clock_ts);
                    check(s, paid, funded_tokens, "withdraw_emissions_permissionless", rep);
                }
            }
        }
    }
    rep.sample(format!("emissions bank {} rate {} funded {} paid {}", b, rate, funded_tokens, paid));
}
