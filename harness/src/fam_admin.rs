//! family `admin`: BankConfig::validate, Bank::configure, EmodeSettings::validate_entries_with_liability_weights,
//! Bank::override_emissions_flag, MarginfiGroup::update_withdrawn_equity on generated inputs.
use crate::fam_curve::{gen_legacy, gen_seven, Ir};
use crate::rng::Rng;
use fixed::types::I80F48;
use marginfi::state::bank::BankImpl;
use marginfi::state::bank_config::BankConfigImpl;
use marginfi::state::emode::EmodeSettingsImpl;
use marginfi::state::marginfi_group::MarginfiGroupImpl;
use marginfi_type_crate::types::{
    Bank, BankConfigOpt, BankOperationalState, EmodeEntry, EmodeSettings, InterestRateConfigOpt, MarginfiGroup, RatePoint, RiskTier,
};
use std::panic::{catch_unwind, AssertUnwindSafe};

const ONE: i128 = 1 << 48;

fn fx(b: i128) -> I80F48 {
    I80F48::from_bits(b)
}

pub fn gen_weight(rng: &mut Rng, around: i128) -> i128 {
    match rng.below(8) {
        0 => around,
        1 => around + rng.range(-2, 2) as i128,
        2 => 0,
        3 => ONE,
        4 => 2 * ONE + rng.range(-1, 1) as i128,
        5 => rng.below(ONE as u64 * 2) as i128,
        6 => -(rng.below(1000) as i128),
        _ => around + rng.below(ONE as u64 / 4) as i128 - (ONE / 8),
    }
}

#[derive(Clone)]
pub struct Cfg {
    pub a_init: i128,
    pub a_maint: i128,
    pub l_init: i128,
    pub l_maint: i128,
    pub deposit_limit: u64,
    pub borrow_limit: u64,
    pub op_state: u8,
    pub risk_tier: u8,
    pub asset_tag: u8,
    pub init_limit: u64,
    pub oracle_max_conf: u32,
    pub oracle_max_age: u16,
    pub ir: Ir,
    pub origination: i128,
}

pub fn state_of(n: u8) -> BankOperationalState {
    match n {
        0 => BankOperationalState::Paused,
        1 => BankOperationalState::Operational,
        2 => BankOperationalState::ReduceOnly,
        _ => BankOperationalState::KilledByBankruptcy,
    }
}
pub fn state_num(s: BankOperationalState) -> u8 {
    match s {
        BankOperationalState::Paused => 0,
        BankOperationalState::Operational => 1,
        BankOperationalState::ReduceOnly => 2,
        BankOperationalState::KilledByBankruptcy => 3,
    }
}

impl Cfg {
    pub fn gen(rng: &mut Rng) -> Cfg {
        let valid = rng.chance(3, 4);
        let (a_init, a_maint, l_init, l_maint) = if valid {
            let ai = rng.below(ONE as u64 + 1) as i128;
            let am = ai + rng.below((2 * ONE - ai) as u64 + 1) as i128;
            let lm = ONE + rng.below(ONE as u64) as i128;
            let li = lm + rng.below(ONE as u64) as i128;
            (ai, am, li, lm)
        } else {
            (gen_weight(rng, ONE / 2), gen_weight(rng, ONE), gen_weight(rng, ONE + ONE / 2), gen_weight(rng, ONE + ONE / 4))
        };
        let risk_tier = if rng.chance(1, 5) { 1 } else { 0 };
        let (a_init, a_maint) = if risk_tier == 1 && rng.chance(2, 3) { (0, 0) } else { (a_init, a_maint) };
        let (k, v1, v2) = (rng.chance(5, 6), rng.chance(5, 6), rng.chance(2, 3));
        let ir = if k { gen_seven(rng, v1) } else { gen_legacy(rng, v2) };
        Cfg {
            a_init,
            a_maint,
            l_init,
            l_maint,
            deposit_limit: rng.u64_mixed(),
            borrow_limit: rng.u64_mixed(),
            op_state: rng.below(4) as u8,
            risk_tier,
            asset_tag: rng.below(6) as u8,
            init_limit: rng.u64_mixed(),
            oracle_max_conf: rng.next() as u32,
            oracle_max_age: match rng.below(5) {
                0 => 9,
                1 => 10,
                2 => 0,
                _ => 10 + rng.below(600) as u16,
            },
            ir,
            origination: rng.below(ONE as u64 / 10) as i128,
        }
    }
    pub fn line(&self) -> String {
        let ir = &self.ir;
        format!(
            "{} {} {} {} {} {} {} {} {} {} {} {} {} {} {} {} {} {} {} {} {} {} {} {}",
            self.a_init,
            self.a_maint,
            self.l_init,
            self.l_maint,
            self.deposit_limit,
            self.borrow_limit,
            self.op_state,
            self.risk_tier,
            self.asset_tag,
            self.init_limit,
            self.oracle_max_conf,
            self.oracle_max_age,
            ir.optimal,
            ir.plateau,
            ir.max_ir,
            ir.ins_fixed,
            ir.ins_rate,
            ir.grp_fixed,
            ir.grp_rate,
            self.origination,
            ir.zero,
            ir.hundred,
            ir.pts.iter().map(|(u, r)| format!("{} {}", u, r)).collect::<Vec<_>>().join(" "),
            ir.curve_type
        )
    }
    pub fn to_bank(&self, flags: u64) -> Bank {
        let mut b = Bank::default();
        b.flags = flags;
        let c = &mut b.config;
        c.asset_weight_init = fx(self.a_init).into();
        c.asset_weight_maint = fx(self.a_maint).into();
        c.liability_weight_init = fx(self.l_init).into();
        c.liability_weight_maint = fx(self.l_maint).into();
        c.deposit_limit = self.deposit_limit;
        c.borrow_limit = self.borrow_limit;
        c.operational_state = state_of(self.op_state);
        c.risk_tier = if self.risk_tier == 1 { RiskTier::Isolated } else { RiskTier::Collateral };
        c.asset_tag = self.asset_tag;
        c.total_asset_value_init_limit = self.init_limit;
        c.oracle_max_confidence = self.oracle_max_conf;
        c.oracle_max_age = self.oracle_max_age;
        c.interest_rate_config = self.ir.config();
        c.interest_rate_config.protocol_origination_fee = fx(self.origination).into();
        b
    }
    pub fn from_bank(b: &Bank) -> Cfg {
        let c = &b.config;
        let i = &c.interest_rate_config;
        let mut pts = [(0u32, 0u32); 5];
        for k in 0..5 {
            pts[k] = (i.points[k].util, i.points[k].rate);
        }
        Cfg {
            a_init: I80F48::from(c.asset_weight_init).to_bits(),
            a_maint: I80F48::from(c.asset_weight_maint).to_bits(),
            l_init: I80F48::from(c.liability_weight_init).to_bits(),
            l_maint: I80F48::from(c.liability_weight_maint).to_bits(),
            deposit_limit: c.deposit_limit,
            borrow_limit: c.borrow_limit,
            op_state: state_num(c.operational_state),
            risk_tier: if c.risk_tier == RiskTier::Isolated { 1 } else { 0 },
            asset_tag: c.asset_tag,
            init_limit: c.total_asset_value_init_limit,
            oracle_max_conf: c.oracle_max_confidence,
            oracle_max_age: c.oracle_max_age,
            ir: Ir {
                optimal: I80F48::from(i.optimal_utilization_rate).to_bits(),
                plateau: I80F48::from(i.plateau_interest_rate).to_bits(),
                max_ir: I80F48::from(i.max_interest_rate).to_bits(),
                ins_fixed: I80F48::from(i.insurance_fee_fixed_apr).to_bits(),
                ins_rate: I80F48::from(i.insurance_ir_fee).to_bits(),
                grp_fixed: I80F48::from(i.protocol_fixed_fee_apr).to_bits(),
                grp_rate: I80F48::from(i.protocol_ir_fee).to_bits(),
                prog_fixed: 0,
                prog_rate: 0,
                add_prog: false,
                zero: i.zero_util_rate,
                hundred: i.hundred_util_rate,
                pts,
                curve_type: i.curve_type,
            },
            origination: I80F48::from(i.protocol_origination_fee).to_bits(),
        }
    }
}

fn opt<T: Copy + std::fmt::Display>(o: Option<T>) -> String {
    match o {
        Some(v) => format!("1 {}", v),
        None => "0 0".into(),
    }
}

pub struct OptGen {
    pub opt: BankConfigOpt,
    pub line: String,
}

pub fn gen_opt(rng: &mut Rng, base: &Cfg) -> OptGen {
    let mut some = |rng: &mut Rng| rng.chance(1, 4);
    let w = |rng: &mut Rng, cur: i128| -> i128 {
        match rng.below(4) {
            0 => cur,
            1 => cur + rng.range(-3, 3) as i128,
            _ => gen_weight(rng, cur),
        }
    };
    let a_init = if some(rng) { Some(w(rng, base.a_init)) } else { None };
    let a_maint = if some(rng) { Some(w(rng, base.a_maint)) } else { None };
    let l_init = if some(rng) { Some(w(rng, base.l_init)) } else { None };
    let l_maint = if some(rng) { Some(w(rng, base.l_maint)) } else { None };
    let dl = if some(rng) { Some(rng.u64_mixed()) } else { None };
    let bl = if some(rng) { Some(rng.u64_mixed()) } else { None };
    let st = if some(rng) { Some(rng.below(4) as u8) } else { None };
    let rt = if rng.chance(1, 8) { Some(rng.below(2) as u8) } else { None };
    let tag = if rng.chance(1, 8) { Some(rng.below(6) as u8) } else { None };
    let il = if some(rng) { Some(rng.u64_mixed()) } else { None };
    let omc = if some(rng) { Some(rng.next() as u32) } else { None };
    let oma = if some(rng) { Some(*rng.pick(&[0u16, 9, 10, 11, 60, 600])) } else { None };
    let pbd = if some(rng) { Some(rng.chance(1, 2)) } else { None };
    let frz = if some(rng) { Some(rng.chance(1, 2)) } else { None };
    let tra = if some(rng) { Some(rng.chance(1, 2)) } else { None };
    // interest opt
    let (iro, irline) = if rng.chance(1, 3) {
        let vv = rng.chance(4, 5);
        let src = gen_seven(rng, vv);
        let f = |rng: &mut Rng, v: i128| if rng.chance(1, 2) { Some(v) } else { None };
        let i1 = f(rng, src.ins_fixed);
        let i2 = f(rng, src.ins_rate);
        let i3 = f(rng, src.grp_fixed);
        let i4 = f(rng, src.grp_rate);
        let o5 = rng.below(ONE as u64 / 10) as i128;
        let i5 = f(rng, o5);
        let z = if rng.chance(1, 2) { Some(src.zero) } else { None };
        let h = if rng.chance(1, 2) { Some(src.hundred) } else { None };
        let p = if rng.chance(1, 2) { Some(src.pts) } else { None };
        let o = InterestRateConfigOpt {
            insurance_fee_fixed_apr: i1.map(|v| fx(v).into()),
            insurance_ir_fee: i2.map(|v| fx(v).into()),
            protocol_fixed_fee_apr: i3.map(|v| fx(v).into()),
            protocol_ir_fee: i4.map(|v| fx(v).into()),
            protocol_origination_fee: i5.map(|v| fx(v).into()),
            zero_util_rate: z,
            hundred_util_rate: h,
            points: p.map(|pp| {
                let mut a = [RatePoint::default(); 5];
                for k in 0..5 {
                    a[k] = RatePoint::new(pp[k].0, pp[k].1);
                }
                a
            }),
        };
        let pl = match p {
            Some(pp) => format!("1 {}", pp.iter().map(|(u, r)| format!("{} {}", u, r)).collect::<Vec<_>>().join(" ")),
            None => "0 0 0 0 0 0 0 0 0 0 0".into(),
        };
        (Some(o), format!("1 {} {} {} {} {} {} {} {}", opt(i1), opt(i2), opt(i3), opt(i4), opt(i5), opt(z), opt(h), pl))
    } else {
        (None, "0 0 0 0 0 0 0 0 0 0 0 0 0 0 0 0 0 0 0 0 0 0 0 0 0 0".to_string())
    };
    let o = BankConfigOpt {
        asset_weight_init: a_init.map(|v| fx(v).into()),
        asset_weight_maint: a_maint.map(|v| fx(v).into()),
        liability_weight_init: l_init.map(|v| fx(v).into()),
        liability_weight_maint: l_maint.map(|v| fx(v).into()),
        deposit_limit: dl,
        borrow_limit: bl,
        operational_state: st.map(state_of),
        interest_rate_config: iro,
        risk_tier: rt.map(|v| if v == 1 { RiskTier::Isolated } else { RiskTier::Collateral }),
        asset_tag: tag,
        total_asset_value_init_limit: il,
        oracle_max_confidence: omc,
        oracle_max_age: oma,
        permissionless_bad_debt_settlement: pbd,
        freeze_settings: frz,
        tokenless_repayments_allowed: tra,
    };
    let line = format!(
        "{} {} {} {} {} {} {} {} {} {} {} {} {} {} {} {}",
        opt(a_init),
        opt(a_maint),
        opt(l_init),
        opt(l_maint),
        opt(dl),
        opt(bl),
        opt(st),
        opt(rt),
        opt(tag),
        opt(il),
        opt(omc),
        opt(oma),
        opt(pbd.map(|b| b as u8)),
        opt(frz.map(|b| b as u8)),
        opt(tra.map(|b| b as u8)),
        irline
    );
    OptGen { opt: o, line }
}

pub fn gen_entries(rng: &mut Rng, l_init: i128, l_maint: i128) -> (EmodeSettings, String) {
    let mut s = EmodeSettings::default();
    let n = rng.below(5) as usize;
    let mut tags: Vec<u16> = (0..n).map(|_| 1 + rng.below(6) as u16).collect();
    tags.sort();
    if rng.chance(3, 4) {
        tags.dedup();
    }
    let mut parts = vec![];
    // the program keeps entries sorted by tag with empties first
    let pad = 10 - tags.len();
    for i in 0..10 {
        if i < pad {
            parts.push("0 0 0 0".to_string());
            continue;
        }
        let tag = tags[i - pad];
        let init = match rng.below(5) {
            0 => l_init - rng.range(0, 3) as i128,
            1 => rng.below((l_init.max(1)) as u64) as i128,
            2 => -1,
            _ => rng.below(ONE as u64) as i128,
        };
        let maint = match rng.below(5) {
            0 => init - 1,
            1 => l_maint - rng.range(0, 3) as i128,
            _ => init + rng.below(ONE as u64 / 8) as i128,
        };
        let fl = rng.below(2) as u8;
        s.emode_config.entries[i] = EmodeEntry { collateral_bank_emode_tag: tag, flags: fl, pad0: [0; 5], asset_weight_init: fx(init).into(), asset_weight_maint: fx(maint).into() };
        parts.push(format!("{} {} {} {}", tag, fl, init, maint));
    }
    (s, parts.join(" "))
}

fn res(r: std::thread::Result<anchor_lang::Result<()>>) -> String {
    match r {
        Err(_) => "panic".into(),
        Ok(Err(e)) => format!("err {}", crate::errcode(e)),
        Ok(Ok(())) => "ok".into(),
    }
}

pub fn gen(rng: &mut Rng, n: usize, out: &mut Vec<String>) {
    for i in 0..n {
        match i % 5 {
            0 => {
                let c = Cfg::gen(rng);
                let b = c.to_bank(0);
                let r = catch_unwind(AssertUnwindSafe(|| b.config.validate()));
                out.push(format!("adm.validate {} => {}", c.line(), res(r)));
            }
            1 | 2 => {
                let mut c = Cfg::gen(rng);
                if c.ir.curve_type == 0 && rng.chance(1, 2) {
                    c.ir.curve_type = 1;
                }
                let flags: u64 = rng.below(128);
                let og = gen_opt(rng, &c);
                let mut b = c.to_bank(flags);
                let r = catch_unwind(AssertUnwindSafe(|| b.configure(&og.opt)));
                let o = match r {
                    Err(_) => "panic".to_string(),
                    Ok(Err(e)) => format!("err {}", crate::errcode(e)),
                    Ok(Ok(())) => format!("ok {} {}", Cfg::from_bank(&b).line(), b.flags),
                };
                out.push(format!("adm.configure {} {} {} => {}", c.line(), flags, og.line, o));
            }
            3 => {
                let c = Cfg::gen(rng);
                let (s, line) = gen_entries(rng, c.l_init, c.l_maint);
                let mi = match rng.below(3) { 0 => u32::MAX, 1 => rng.next() as u32, _ => (u32::MAX as u64 * 15 / 100) as u32 };
                let mm = match rng.below(3) { 0 => u32::MAX, 1 => rng.next() as u32, _ => (u32::MAX as u64 * 20 / 100) as u32 };
                let b = c.to_bank(0);
                let r = catch_unwind(AssertUnwindSafe(|| s.validate_entries_with_liability_weights(&b.config, mi, mm)));
                out.push(format!("adm.emode {} {} {} {} {} => {}", c.l_init, c.l_maint, mi, mm, line, res(r)));
            }
            _ => {
                if rng.chance(1, 3) {
                    // the decoder of the group's leverage caps (u32 -> 0..100), on its own
                    let v: u32 = match rng.below(5) {
                        0 => *rng.pick(&[0u32, 1, u32::MAX, u32::MAX - 1, u32::MAX / 2]),
                        1 => marginfi_type_crate::types::basis_to_u32(I80F48::from_num(1 + rng.below(99)) + I80F48::from_bits(rng.below(ONE as u64) as i128)),
                        2 => marginfi_type_crate::types::basis_to_u32(I80F48::from_num(1 + rng.below(99))),
                        _ => rng.next() as u32,
                    };
                    out.push(format!("adm.u32basis {} => {}", v, marginfi_type_crate::types::u32_to_basis(v).to_bits()));
                } else if rng.chance(1, 2) {
                    let flags: u64 = rng.below(128);
                    let f: u64 = if rng.chance(3, 4) { rng.below(4) } else { rng.below(128) };
                    let mut b = Bank::default();
                    b.flags = flags;
                    let r = catch_unwind(AssertUnwindSafe(|| b.override_emissions_flag(f)));
                    out.push(format!("adm.override {} {} => {}", flags, f, match r { Ok(()) => format!("ok {}", b.flags), Err(_) => "panic".into() }));
                } else {
                    let mut g = MarginfiGroup::default();
                    let w = &mut g.deleverage_withdraw_window_cache;
                    w.daily_limit = *rng.pick(&[0u32, 1, 100, 1000, u32::MAX]);
                    w.withdrawn_today = rng.below(1200) as u32;
                    w.last_daily_reset_timestamp = 1_700_000_000 + rng.range(0, 100_000);
                    let pre = (w.daily_limit, w.withdrawn_today, w.last_daily_reset_timestamp);
                    let now = pre.2 + *rng.pick(&[0i64, 1, 86399, 86400, 86401, 200_000]);
                    let v: i128 = match rng.below(6) {
                        0 => (rng.below(1200) as i128) * ONE + rng.below(ONE as u64) as i128,
                        1 => ((1u128 << 32) as i128 + rng.range(-2, 5) as i128) * ONE,
                        2 => rng.below(ONE as u64) as i128,
                        3 => (rng.u64_mixed() as i128) * ONE,
                        _ => (rng.below(300) as i128) * ONE,
                    };
                    let r = catch_unwind(AssertUnwindSafe(|| g.update_withdrawn_equity(fx(v), now)));
                    let w = &g.deleverage_withdraw_window_cache;
                    let o = match r {
                        Err(_) => "panic".to_string(),
                        Ok(Err(e)) => format!("err {}", crate::errcode(e)),
                        Ok(Ok(())) => format!("ok {} {} {}", w.daily_limit, w.withdrawn_today, w.last_daily_reset_timestamp),
                    };
                    out.push(format!("adm.window {} {} {} {} {} => {}", pre.0, pre.1, pre.2, v, now, o));
                }
            }
        }
    }
}
