//! family `tx`: the REAL `validate_instructions` (receivership bracket) and `check_flashloan_can_start`
//! on generated transaction shapes over the alphabet of relevant programs / discriminators, with the
//! Instructions sysvar serialized exactly as the runtime does.
use crate::rng::Rng;
use anchor_lang::prelude::*;
use anchor_lang::Discriminator;
use marginfi::constants::{ASSOCIATED_TOKEN_KEY, COMPUTE_PROGRAM_KEY, DRIFT_PROGRAM_ID, JUP_KEY, TITAN_KEY};
use marginfi::instructions::marginfi_account::{check_flashloan_can_start, validate_instructions};
use marginfi_type_crate::constants::ix_discriminators as D;
use marginfi_type_crate::types::{MarginfiAccount, ACCOUNT_DISABLED, ACCOUNT_FROZEN, ACCOUNT_IN_FLASHLOAN, ACCOUNT_IN_RECEIVERSHIP};
use solana_program::instruction::{AccountMeta, Instruction};
use solana_program::sysvar::instructions::{construct_instructions_data, store_current_index, BorrowedAccountMeta, BorrowedInstruction};
use std::panic::{catch_unwind, AssertUnwindSafe};

pub fn prog_key(code: u64) -> Pubkey {
    match code {
        0 => COMPUTE_PROGRAM_KEY,
        1 => marginfi::ID,
        2 => kamino_mocks::kamino_lending::ID,
        3 => DRIFT_PROGRAM_ID,
        4 => JUP_KEY,
        5 => TITAN_KEY,
        6 => ASSOCIATED_TOKEN_KEY,
        7 => solana_program::system_program::ID,
        n => Pubkey::new_from_array([n as u8; 32]),
    }
}

pub fn disc_bytes(code: u64) -> [u8; 8] {
    use drift_mocks::drift::client::args as drift;
    use kamino_mocks::kamino_lending::client::args as kamino;
    match code {
        0 => D::START_LIQUIDATION,
        1 => D::END_LIQUIDATION,
        2 => D::START_DELEVERAGE,
        3 => D::END_DELEVERAGE,
        4 => D::INIT_LIQUIDATION_RECORD,
        5 => D::LENDING_ACCOUNT_WITHDRAW,
        6 => D::LENDING_ACCOUNT_REPAY,
        7 => D::KAMINO_WITHDRAW,
        8 => D::DRIFT_WITHDRAW,
        9 => D::START_FLASHLOAN,
        10 => D::END_FLASHLOAN,
        11 => kamino::RefreshReserve::DISCRIMINATOR.try_into().unwrap(),
        12 => kamino::RefreshObligation::DISCRIMINATOR.try_into().unwrap(),
        13 => drift::UpdateSpotMarketCumulativeInterest::DISCRIMINATOR.try_into().unwrap(),
        14 => marginfi::instruction::LendingAccountDeposit::DISCRIMINATOR.try_into().unwrap(),
        15 => marginfi::instruction::LendingAccountBorrow::DISCRIMINATOR.try_into().unwrap(),
        16 => D::LENDING_SETTLE_EMISSIONS,
        17 => D::LENDING_WITHDRAW_EMISSIONS,
        n => [n as u8; 8],
    }
}

pub fn acct_key(k: u64) -> Pubkey {
    let mut b = [7u8; 32];
    b[0] = k as u8;
    b[1] = (k >> 8) as u8;
    Pubkey::new_from_array(b)
}

#[derive(Clone, Debug)]
pub struct SIx {
    /// bytes of instruction data after the 8-byte discriminator (arguments; Anchor ignores surplus bytes of an instruction
    /// without arguments). Not part of the op line: which instruction a list entry IS does not depend on it.
    pub extra: u8,
    pub prog: u64,
    pub disc: i64, // -1: data shorter than 8 bytes
    pub acct0: i64, // -1: no accounts
    pub acct1: i64, // key code of the SECOND account meta (99 = an unrelated signer)
}

pub fn build(ixs: &[SIx]) -> Vec<Instruction> {
    ixs.iter()
        .map(|s| {
            let data = if s.disc < 0 { vec![1, 2, 3] } else { let mut d = disc_bytes(s.disc as u64).to_vec(); d.extend(std::iter::repeat(0u8).take(s.extra as usize)); d };
            let accounts = if s.acct0 < 0 { vec![] } else { vec![AccountMeta::new(acct_key(s.acct0 as u64), false), AccountMeta::new_readonly(acct_key(s.acct1 as u64), true)] };
            Instruction { program_id: prog_key(s.prog), accounts, data }
        })
        .collect()
}

pub fn sysvar_data(ixs: &[Instruction], cur: u16) -> Vec<u8> {
    let borrowed: Vec<BorrowedInstruction> = ixs
        .iter()
        .map(|ix| BorrowedInstruction {
            program_id: &ix.program_id,
            accounts: ix.accounts.iter().map(|m| BorrowedAccountMeta { pubkey: &m.pubkey, is_signer: m.is_signer, is_writable: m.is_writable }).collect(),
            data: &ix.data,
        })
        .collect();
    let mut data = construct_instructions_data(&borrowed);
    store_current_index(&mut data, cur);
    data
}

fn code_of(e: &anchor_lang::error::Error) -> String {
    match e {
        anchor_lang::error::Error::AnchorError(a) => format!("err {}", a.error_code_number),
        anchor_lang::error::Error::ProgramError(p) => match p.program_error {
            ProgramError::Custom(c) => format!("err {}", c),
            _ => "err 1".to_string(),
        },
    }
}

fn gen_shape(rng: &mut Rng, liq: bool) -> (Vec<SIx>, usize) {
    // mostly-valid bracket with mutations
    let (s, e) = if liq { (0i64, 1i64) } else { (2, 3) };
    let mut v: Vec<SIx> = vec![];
    let a = rng.below(3) as i64;
    for _ in 0..rng.below(3) {
        v.push(match rng.below(6) {
            0 | 1 => SIx { extra: 8, prog: 0, disc: if rng.chance(1, 3) { -1 } else { 30 }, acct0: -1, acct1: 99 },
            2 => SIx { extra: 8, prog: 2, disc: *rng.pick(&[11i64, 12]), acct0: 5, acct1: 99 },
            3 => SIx { extra: 8, prog: 1, disc: 4, acct0: a, acct1: 99 },
            4 => SIx { extra: 8, prog: 3, disc: 13, acct0: 6, acct1: 99 },
            _ => SIx { extra: 8, prog: *rng.pick(&[1u64, 2, 3, 4, 6, 7]), disc: *rng.pick(&[5i64, 11, 13, 14, 4, 0, 2]), acct0: a, acct1: 99 },
        });
    }
    let start_pos = v.len();
    v.push(SIx { extra: 8, prog: 1, disc: s, acct0: a, acct1: 99 });
    for _ in 0..rng.below(5) {
        v.push(match rng.below(12) {
            0 | 1 | 2 => SIx { extra: 8, prog: 1, disc: 5, acct0: a, acct1: 99 },
            3 | 4 => SIx { extra: 8, prog: 1, disc: 6, acct0: a, acct1: 99 },
            5 => SIx { extra: 8, prog: 1, disc: *rng.pick(&[7i64, 8, 4]), acct0: a, acct1: 99 },
            6 => SIx { extra: 8, prog: *rng.pick(&[4u64, 5, 6, 0, 2, 3]), disc: *rng.pick(&[40i64, 11, 13, -1]), acct0: 9, acct1: 99 },
            7 => SIx { extra: 8, prog: 1, disc: *rng.pick(&[14i64, 15, 9, 10, 16, 17, 2, 3, 0, 1]), acct0: a, acct1: 99 },
            8 => SIx { extra: 8, prog: *rng.pick(&[7u64, 8]), disc: 41, acct0: 9, acct1: 99 },
            9 => SIx { extra: 8, prog: 1, disc: -1, acct0: a, acct1: 99 },
            _ => SIx { extra: 8, prog: 1, disc: *rng.pick(&[5i64, 6]), acct0: rng.below(3) as i64, acct1: 99 },
        });
    }
    match rng.below(8) {
        0 => {}                                                   // missing end
        1 => v.push(SIx { extra: 8, prog: 1, disc: if liq { 3 } else { 1 }, acct0: a, acct1: 99 }), // wrong kind of end
        2 => { v.push(SIx { extra: 8, prog: 1, disc: e, acct0: a, acct1: 99 }); v.push(SIx { extra: 8, prog: *rng.pick(&[0u64, 4, 1]), disc: *rng.pick(&[30i64, 5]), acct0: a, acct1: 99 }); }
        3 => v.push(SIx { extra: 8, prog: *rng.pick(&[2u64, 4]), disc: e, acct0: a, acct1: 99 }),      // end discriminator under another program
        _ => v.push(SIx { extra: 8, prog: 1, disc: e, acct0: a, acct1: 99 }),
    }
    // occasionally a second start
    if rng.chance(1, 8) {
        let p = rng.below(v.len() as u64 + 1) as usize;
        v.insert(p, SIx { extra: 8, prog: 1, disc: *rng.pick(&[0i64, 2]), acct0: rng.below(3) as i64, acct1: 99 });
        // ... now and then with an instruction WITHOUT a discriminator (the ATA program's create carries 0-1 bytes of data, a
        // compute-budget or aggregator call can be short too) right in front of the later of the two starts
        if rng.chance(1, 3) {
            let later = v.iter().rposition(|x| x.prog == 1 && (x.disc == 0 || x.disc == 2)).unwrap();
            v.insert(later, SIx { extra: 8, prog: *rng.pick(&[6u64, 6, 0, 4, 5]), disc: -1, acct0: 9, acct1: 99 });
        }
    }
    // argument bytes after the discriminator: none (what a client sends for an instruction without arguments), one, or eight
    for x in v.iter_mut() {
        x.extra = *rng.pick(&[0u8, 0, 0, 8, 8, 1]);
    }
    let cur = match rng.below(6) {
        0 => rng.below(v.len() as u64) as usize,
        _ => v.iter().position(|x| x.prog == 1 && x.disc == s).unwrap_or(start_pos.min(v.len() - 1)),
    };
    (v, cur)
}

fn show(v: &[SIx]) -> String {
    v.iter().map(|s| format!("{} {} {}", s.prog, if s.disc >= 0 { s.disc + 1000 * s.extra as i64 } else { s.disc }, s.acct0)).collect::<Vec<_>>().join(" ")
}

pub fn gen(rng: &mut Rng, n: usize, out: &mut Vec<String>) {
    crate::stubs::install();
    let sys_key = solana_program::sysvar::instructions::ID;
    let sys_owner = solana_program::sysvar::ID;
    for i in 0..n {
        if i % 3 != 2 {
            let liq = rng.chance(2, 3);
            let (v, cur) = gen_shape(rng, liq);
            let (s, e) = if liq { (0u64, 1u64) } else { (2, 3) };
            // sometimes validate with the other pair than the shape was built for
            let (s, e) = if rng.chance(1, 10) { (2 - s, 4 - e) } else { (s, e) };
            let stack = if rng.chance(1, 12) { 2u64 } else { 1 };
            crate::stubs::STACK_HEIGHT.store(stack, std::sync::atomic::Ordering::SeqCst);
            let ixs = build(&v);
            let mut data = sysvar_data(&ixs, cur as u16);
            let mut lamports = 1u64;
            let ai = AccountInfo::new(&sys_key, false, false, &mut lamports, &mut data, &sys_owner, false, 0);
            let r = catch_unwind(AssertUnwindSafe(|| validate_instructions(&ai, &marginfi::ID, &disc_bytes(s), &disc_bytes(e))));
            let o = match r {
                Err(_) => "panic".to_string(),
                Ok(Ok(())) => "ok".to_string(),
                Ok(Err(e)) => code_of(&e),
            };
            out.push(format!("tx.validate {} {} {} {} {} => {}", s, e, cur, stack, show(&v), o));
        } else {
            // flash loan start
            let key = rng.below(3);
            let mut v: Vec<SIx> = vec![];
            for _ in 0..rng.below(3) {
                v.push(SIx { extra: 8, prog: *rng.pick(&[0u64, 1, 4]), disc: *rng.pick(&[30i64, 14, 15, 10]), acct0: rng.below(3) as i64, acct1: 99 });
            }
            let cur = v.len();
            v.push(SIx { extra: 8, prog: 1, disc: 9, acct0: key as i64, acct1: 99 });
            for _ in 0..rng.below(4) {
                v.push(SIx { extra: 8, prog: *rng.pick(&[1u64, 1, 4, 0]), disc: *rng.pick(&[15i64, 5, 14, 30, 9, -1]), acct0: rng.below(3) as i64, acct1: 99 });
            }
            let end_pos = v.len();
            match rng.below(8) {
                0 => v.push(SIx { extra: 8, prog: 1, disc: 10, acct0: ((key + 1) % 3) as i64, acct1: if rng.chance(1, 2) { key as i64 } else { 99 } }), // another account's end (sometimes with this account further down its list)
                1 => v.push(SIx { extra: 8, prog: 4, disc: 10, acct0: key as i64, acct1: 99 }),              // end bytes under another program
                2 => v.push(SIx { extra: 8, prog: 1, disc: 10, acct0: -1, acct1: 99 }),                      // no accounts
                3 => v.push(SIx { extra: 8, prog: 1, disc: -1, acct0: key as i64, acct1: 99 }),              // short data
                4 => v.push(SIx { extra: 8, prog: 1, disc: 15, acct0: key as i64, acct1: 99 }),              // not an end
                _ => v.push(SIx { extra: 8, prog: 1, disc: 10, acct0: key as i64, acct1: 99 }),
            }
            for _ in 0..rng.below(2) {
                v.push(SIx { extra: 8, prog: *rng.pick(&[1u64, 0]), disc: *rng.pick(&[14i64, 30]), acct0: key as i64, acct1: 99 });
            }
            let end_idx = match rng.below(10) {
                0 => rng.below(v.len() as u64 + 2) as usize,
                1 => cur,
                2 => v.len(),
                // indices that only differ from a real instruction's in the bits above 16 / 32: the instruction list is
                // addressed by a u16 in the sysvar, the argument is a u64
                3 => 65536 * (1 + rng.below(3) as usize) + rng.below(v.len() as u64 + 1) as usize,
                4 => (1usize << 32) * (1 + rng.below(2) as usize) + end_pos,
                _ => end_pos,
            };
            let cur = if rng.chance(1, 10) { rng.below(v.len() as u64) as usize } else { cur };
            let stack = if rng.chance(1, 12) { 2u64 } else { 1 };
            crate::stubs::STACK_HEIGHT.store(stack, std::sync::atomic::Ordering::SeqCst);
            let (fd, ff, fr, fz) = (rng.chance(1, 8), rng.chance(1, 8), rng.chance(1, 8), rng.chance(1, 8));
            let mut acct: MarginfiAccount = bytemuck::Zeroable::zeroed();
            if fd { acct.account_flags |= ACCOUNT_DISABLED }
            if ff { acct.account_flags |= ACCOUNT_IN_FLASHLOAN }
            if fr { acct.account_flags |= ACCOUNT_IN_RECEIVERSHIP }
            if fz { acct.account_flags |= ACCOUNT_FROZEN }
            let mut adata = Vec::with_capacity(8 + std::mem::size_of::<MarginfiAccount>());
            adata.extend_from_slice(&MarginfiAccount::DISCRIMINATOR);
            adata.extend_from_slice(bytemuck::bytes_of(&acct));
            let akey = acct_key(key);
            let mut alam = 1u64;
            let aai = AccountInfo::new(&akey, false, true, &mut alam, &mut adata, &marginfi::ID, false, 0);
            let ixs = build(&v);
            let mut data = sysvar_data(&ixs, cur as u16);
            let mut lamports = 1u64;
            let ai = AccountInfo::new(&sys_key, false, false, &mut lamports, &mut data, &sys_owner, false, 0);
            let r = catch_unwind(AssertUnwindSafe(|| {
                let loader: AccountLoader<MarginfiAccount> = AccountLoader::try_from(&aai).unwrap();
                check_flashloan_can_start(&loader, &ai, end_idx)
            }));
            let o = match r {
                Err(_) => "panic".to_string(),
                Ok(Ok(())) => "ok".to_string(),
                Ok(Err(e)) => code_of(&e),
            };
            out.push(format!("tx.canstart {} {} {} {} {} {} {} {} {} => {}", cur, stack, end_idx, key, fd as u8, ff as u8, fr as u8, fz as u8, show(&v), o));
        }
    }
    crate::stubs::STACK_HEIGHT.store(1, std::sync::atomic::Ordering::SeqCst);
}


/// Property predicates (written from the property text) on the REAL introspection functions: whatever
/// shape `validate_instructions` / `check_flashloan_can_start` ACCEPT must be a proper bracket.
pub fn monitor(rng: &mut Rng, n: usize, rep: &mut crate::mon::Report) {
    let mut out = vec![];
    gen(rng, n, &mut out);
    for line in out {
        rep.bump("cases");
        let (lhs, rhs) = line.split_once(" => ").unwrap();
        if rhs != "ok" {
            rep.bump("refused");
            continue;
        }
        rep.bump("accepted");
        let toks: Vec<i64> = lhs.split(' ').skip(1).map(|t| t.parse().unwrap()).collect();
        if lhs.starts_with("tx.validate") {
            let (s, e, cur, stack) = (toks[0], toks[1], toks[2] as usize, toks[3]);
            let ixs: Vec<(i64, i64, i64)> = toks[4..].chunks(3).map(|c| (c[0], if c[1] >= 0 { c[1] % 1000 } else { c[1] }, c[2])).collect();
            let mut why: Vec<String> = vec![];
            if stack != 1 { why.push("accepted inside a CPI".into()) }
            if ixs.get(cur).map(|x| x.0) != Some(1) { why.push("the running instruction is not this program's".into()) }
            let starts: Vec<usize> = ixs.iter().enumerate().filter(|(_, x)| x.0 == 1 && (x.1 == 0 || x.1 == 2)).map(|(i, _)| i).collect();
            if starts.len() != 1 { why.push(format!("{} start instructions in one transaction", starts.len())) }
            if let Some(&p) = starts.first() {
                if ixs[p].1 != s { why.push("the start is of the other kind".into()) }
                for x in &ixs[..p] {
                    let wl = [(2i64, 11i64), (2, 12), (1, 4), (3, 13)];
                    if !(x.0 == 0 || wl.contains(&(x.0, x.1))) { why.push(format!("({},{}) precedes the start", x.0, x.1)) }
                }
                if p + 1 >= ixs.len() { why.push("start is the last instruction".into()) }
            }
            match ixs.last() {
                Some(l) if l.0 == 1 && l.1 == e && e == s + 1 => {}
                other => why.push(format!("last instruction {:?} is not the matching end", other)),
            }
            for x in &ixs {
                if !(0..=6).contains(&x.0) { why.push(format!("program {} is not on the allowed list", x.0)) }
                if x.0 == 1 && ![s, e, 4, 5, 6, 7, 8].contains(&x.1) { why.push(format!("this program's instruction {} inside the transaction", x.1)) }
            }
            if !why.is_empty() {
                rep.fail(format!("C10 validate_instructions ACCEPTED a transaction that is not a proper bracket ({}): {}", why.join("; "), lhs));
                // the same acceptance seen from the authority side: control over an account is taken (and, with a second start,
                // kept past the transaction) outside the one bracket that the rule allows
                rep.fail(format!("C08 a receivership is started by a transaction that is not a proper bracket ({}), so a non-owner acts on the account outside an active, properly closed receivership: {}", why.join("; "), lhs));
            }
        } else {
            let (cur, stack, end_idx, key) = (toks[0] as usize, toks[1], toks[2] as usize, toks[3]);
            let flags = &toks[4..8];
            let ixs: Vec<(i64, i64, i64)> = toks[8..].chunks(3).map(|c| (c[0], if c[1] >= 0 { c[1] % 1000 } else { c[1] }, c[2])).collect();
            let mut why: Vec<String> = vec![];
            if stack != 1 { why.push("accepted inside a CPI".into()) }
            if ixs.get(cur).map(|x| x.0) != Some(1) { why.push("the running instruction is not this program's".into()) }
            if end_idx <= cur { why.push("the named end is not later".into()) }
            match ixs.get(end_idx) {
                Some(x) if x.0 == 1 && x.1 == 10 && x.2 == key => {}
                other => why.push(format!("the named instruction {:?} is not this program's end_flashloan for account {}", other, key)),
            }
            if flags.iter().any(|f| *f != 0) { why.push(format!("account flags (disabled, in-flashloan, in-receivership, frozen) = {:?}", flags)) }
            if !why.is_empty() {
                rep.fail(format!("C11 check_flashloan_can_start ACCEPTED an improper bracket ({}): {}", why.join("; "), lhs));
            }
        }
    }
}
