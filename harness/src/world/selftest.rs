//! End-to-end self test of the `world` module: real dispatch through `marginfi::entry`, real
//! spl-token / token-2022 CPI, atomicity, Instructions sysvar, fixtures and builders.
use super::fixtures::{bank_config_fixed, bank_config_pyth, FeeStateParams};
use super::{ix, ExecErr, TokenKind, World};
use fixed::types::I80F48;
use marginfi::errors::MarginfiError;
use marginfi_type_crate::types::{BankConfigOpt, ACCOUNT_FROZEN, ACCOUNT_IN_FLASHLOAN};

macro_rules! ck {
    ($cond:expr, $($arg:tt)*) => {
        if !($cond) {
            return Err(format!("selftest: {} [{}:{}]", format!($($arg)*), file!(), line!()));
        }
    };
}

fn code(e: MarginfiError) -> u32 {
    u32::from(e)
}

fn expect_ok(r: Result<(), ExecErr>, what: &str) -> Result<(), String> {
    r.map_err(|e| format!("selftest: {} failed: {}", what, e))
}

fn expect_code(r: Result<(), ExecErr>, want: MarginfiError, what: &str) -> Result<(), String> {
    let want_n = code(want);
    match r {
        Err(ExecErr::Custom(n)) if n == want_n => Ok(()),
        other => Err(format!("selftest: {}: expected Custom({}), got {:?}", what, want_n, other)),
    }
}

fn i(v: marginfi_type_crate::types::WrappedI80F48) -> I80F48 {
    v.into()
}

pub fn selftest() -> Result<(), String> {
    super::install_stubs();
    let verbose = std::env::var("WORLD_VERBOSE").is_ok();
    super::stubs::set_verbose(verbose);

    let mut w = World::new();

    // ---------------------------------------------------------------- fixtures
    let fee_admin = w.add_wallet(10_000_000_000);
    let fee_wallet = w.add_wallet(0);
    let fee_state = w.add_fee_state(
        fee_admin,
        fee_wallet,
        FeeStateParams {
            program_fee_rate: I80F48::from_num(0.1),
            liquidation_flat_sol_fee: 5_000,
            ..Default::default()
        },
    );
    let admin = w.add_wallet(10_000_000_000);
    let group = w.add_group(admin);
    let other_admin = w.add_wallet(10_000_000_000);
    let group2 = w.add_group(other_admin);

    let mint1 = w.add_mint(TokenKind::Spl, 6);
    let mint2 = w.add_mint(TokenKind::T22Fee { bps: 100, max_fee: 5_000_000_000 }, 9);
    let bank1 = w.add_bank(group, mint1, bank_config_fixed(I80F48::from_num(1)));
    let bank2 = w.add_bank(group, mint2, bank_config_fixed(I80F48::from_num(10)));
    let foreign_bank = w.add_bank(group2, mint1, bank_config_fixed(I80F48::from_num(1)));
    ck!(w.group(&group).banks == 2, "group.banks");
    ck!(w.fee_state(&fee_state).global_fee_wallet == fee_wallet, "fee state reader");

    let user_a = w.add_wallet(1_000_000_000);
    let user_b = w.add_wallet(1_000_000_000);
    let acc_a = w.add_marginfi_account(group, user_a);
    let acc_b = w.add_marginfi_account(group, user_b);
    let a_tok1 = w.add_token_account(mint1, user_a, 10_000_000_000); // 10_000 tokens
    let b_tok1 = w.add_token_account(mint1, user_b, 0);
    let b_tok2 = w.add_token_account(mint2, user_b, 1_000_000_000_000); // 1000 tokens

    // ---------------------------------------------------------------- 1. A deposits 1000 into bank 1
    expect_ok(
        w.exec(&ix::deposit(&bank1, acc_a, user_a, a_tok1, 1_000_000_000, None)),
        "deposit A",
    )?;
    ck!(w.token_amount(&bank1.liquidity_vault) == 1_000_000_000, "vault +1000");
    ck!(w.token_amount(&a_tok1) == 9_000_000_000, "wallet A -1000");
    let b1 = w.bank(&bank1.bank);
    ck!(i(b1.total_asset_shares) == I80F48::from_num(1_000_000_000u64), "bank1 total asset shares");
    ck!(b1.lending_position_count == 1, "lending position count");
    let a = w.marginfi_account(&acc_a);
    let bal = a.lending_account.get_balance(&bank1.bank).ok_or("no balance for A")?;
    ck!(i(bal.asset_shares) == I80F48::from_num(1_000_000_000u64), "A asset shares");

    // ---------------------------------------------------------------- 2. B deposits 100 T22-fee tokens into bank 2
    expect_ok(
        w.exec(&ix::deposit(&bank2, acc_b, user_b, b_tok2, 100_000_000_000, None)),
        "deposit B (token-2022 with transfer fee)",
    )?;
    ck!(
        w.token_amount(&bank2.liquidity_vault) == 100_000_000_000,
        "T22 vault received exactly the post-fee amount, got {}",
        w.token_amount(&bank2.liquidity_vault)
    );
    ck!(
        w.token_amount(&b_tok2) == 1_000_000_000_000 - 101_010_101_011,
        "B paid the pre-fee amount, has {}",
        w.token_amount(&b_tok2)
    );
    ck!(w.token_withheld(&bank2.liquidity_vault) == 1_010_101_011, "withheld fee on vault");

    // a deposit into a T22 bank without the mint in remaining accounts is rejected
    {
        let mut bad = ix::deposit(&bank2, acc_b, user_b, b_tok2, 1_000, None);
        bad.accounts.pop();
        expect_code(w.exec(&bad), MarginfiError::T22MintRequired, "T22 mint missing")?;
    }

    // ---------------------------------------------------------------- 3. B borrows 500 from bank 1
    let risk = w.remaining_for(&acc_b, &[bank1.bank]);
    ck!(risk.len() == 2, "risk accounts for 2 fixed-price banks: {}", risk.len());
    expect_ok(w.exec(&ix::borrow(&bank1, acc_b, user_b, b_tok1, 500_000_000, risk)), "borrow B")?;
    ck!(w.token_amount(&b_tok1) == 500_000_000, "B received 500");
    ck!(w.token_amount(&bank1.liquidity_vault) == 500_000_000, "vault -500");
    let b = w.marginfi_account(&acc_b);
    let lb = b.lending_account.get_balance(&bank1.bank).ok_or("no liab balance for B")?;
    ck!(i(lb.liability_shares) == I80F48::from_num(500_000_000u64), "B liability shares");
    ck!(
        i(w.bank(&bank1.bank).total_liability_shares) == I80F48::from_num(500_000_000u64),
        "bank1 total liability shares"
    );
    // balances are kept sorted descending by bank key
    {
        let act: Vec<_> = b.lending_account.balances.iter().filter(|x| x.is_active()).collect();
        ck!(act.len() == 2 && act[0].bank_pk > act[1].bank_pk, "balances sorted descending");
    }

    // over-borrow is rejected by the risk engine and leaves the store untouched
    {
        let before = w.accounts.clone();
        let risk = w.remaining_for(&acc_b, &[]);
        expect_code(
            w.exec(&ix::borrow(&bank1, acc_b, user_b, b_tok1, 400_000_000, risk)),
            MarginfiError::RiskEngineInitRejected,
            "over-borrow",
        )?;
        ck!(w.accounts == before, "store unchanged after failed borrow");
    }

    // ---------------------------------------------------------------- 4. one hour passes, accrue
    let before = w.bank(&bank1.bank);
    w.advance(3600);
    expect_ok(w.exec(&ix::accrue(&bank1)), "accrue")?;
    let after = w.bank(&bank1.bank);
    ck!(i(after.asset_share_value) > i(before.asset_share_value), "asset share value grew");
    ck!(i(after.liability_share_value) > i(before.liability_share_value), "liab share value grew");
    ck!(after.last_update == w.clock_ts, "bank last_update = clock");
    ck!(i(after.collected_group_fees_outstanding) > I80F48::ZERO, "group fees accrued");
    ck!(i(after.collected_program_fees_outstanding) > I80F48::ZERO, "program fees accrued");

    // ---------------------------------------------------------------- 5. B repays all, A withdraws all
    w.set_token_amount(&b_tok1, 501_000_000); // interest money
    expect_ok(w.exec(&ix::repay(&bank1, acc_b, user_b, b_tok1, 0, Some(true))), "repay all")?;
    let b = w.marginfi_account(&acc_b);
    ck!(b.lending_account.get_balance(&bank1.bank).is_none(), "B liability closed");
    ck!(w.token_amount(&b_tok1) < 501_000_000 - 500_000_000 + 1_000_000, "B paid interest");
    ck!(w.token_amount(&b_tok1) < 1_000_000, "B paid > 500");
    ck!(
        i(w.bank(&bank1.bank).total_liability_shares) < I80F48::from_num(1),
        "no liabilities left"
    );

    let risk = w.remaining_sorted(&acc_a, &[], &[bank1.bank]);
    ck!(risk.is_empty(), "no risk accounts after closing the only balance");
    expect_ok(
        w.exec(&ix::withdraw(&bank1, acc_a, user_a, a_tok1, 0, Some(true), risk)),
        "withdraw all",
    )?;
    ck!(w.marginfi_account(&acc_a).lending_account.get_balance(&bank1.bank).is_none(), "A closed");
    ck!(w.token_amount(&a_tok1) > 10_000_000_000, "A earned interest: {}", w.token_amount(&a_tok1));

    // fee collection (group fee vault, insurance vault, program fee ATA)
    {
        let fee_ata = w.add_ata(fee_wallet, mint1, 0);
        let vault_before = w.token_amount(&bank1.liquidity_vault);
        expect_ok(w.exec(&ix::collect_fees(&bank1, fee_ata)), "collect fees")?;
        let moved = w.token_amount(&bank1.fee_vault)
            + w.token_amount(&bank1.insurance_vault)
            + w.token_amount(&fee_ata);
        ck!(vault_before - w.token_amount(&bank1.liquidity_vault) == moved, "fees conserved");
    }

    // ---------------------------------------------------------------- 6. authorisation failures are atomic
    {
        let before = w.accounts.clone();
        // user B signs for A's account
        expect_code(
            w.exec(&ix::deposit(&bank1, acc_a, user_b, b_tok1, 1_000, None)),
            MarginfiError::Unauthorized,
            "wrong authority",
        )?;
        ck!(w.accounts == before, "store byte-identical after Unauthorized");

        // foreign-group bank substituted into an instruction for `group`
        let mut subst = foreign_bank;
        subst.group = group;
        expect_code(
            w.exec(&ix::deposit(&subst, acc_a, user_a, a_tok1, 1_000, None)),
            MarginfiError::InvalidGroup,
            "foreign bank",
        )?;
        ck!(code(MarginfiError::InvalidGroup) == 6093, "InvalidGroup == 6093");
        ck!(code(MarginfiError::Unauthorized) == 6042, "Unauthorized == 6042");
        ck!(w.accounts == before, "store byte-identical after InvalidGroup");

        // missing signature: Anchor's AccountNotSigner (3010)
        let mut unsigned = ix::deposit(&bank1, acc_a, user_a, a_tok1, 1_000, None);
        for m in unsigned.accounts.iter_mut() {
            m.is_signer = false;
        }
        ck!(w.exec(&unsigned) == Err(ExecErr::Custom(3010)), "AccountNotSigner");
        ck!(w.accounts == before, "store byte-identical after AccountNotSigner");
    }

    // ---------------------------------------------------------------- 7. transactions and flash loans
    expect_ok(
        w.exec(&ix::deposit(&bank1, acc_a, user_a, a_tok1, 2_000_000_000, None)),
        "deposit A again",
    )?;
    // duplicate pubkeys in one instruction alias the same AccountInfo (no RefCell double-borrow
    // surprises): source == destination == the vault; spl-token rejects (authority is not the owner)
    {
        let before = w.accounts.clone();
        let r = w.exec(&ix::deposit(&bank1, acc_a, user_a, bank1.liquidity_vault, 1_000, None));
        ck!(r == Err(ExecErr::Custom(4)), "self-transfer by non-owner: TokenError::OwnerMismatch, got {:?}", r);
        ck!(w.accounts == before, "store unchanged after CPI failure");
    }

    {
        // [ok, failing] rolls back the first instruction too
        let before = w.accounts.clone();
        let risk = w.remaining_for(&acc_b, &[bank1.bank]);
        let r = w.exec_tx(&[
            ix::deposit(&bank1, acc_a, user_a, a_tok1, 1_000_000, None),
            ix::borrow(&bank1, acc_b, user_b, b_tok1, 900_000_000, risk),
        ]);
        ck!(
            r == Err((1, ExecErr::Custom(code(MarginfiError::RiskEngineInitRejected)))),
            "tx fails at ix 1: {:?}",
            r
        );
        ck!(w.accounts == before, "tx rolled back");
    }
    {
        // [start(end=2), borrow, end]
        let risk = w.remaining_for(&acc_b, &[bank1.bank]);
        let tok_before = w.token_amount(&b_tok1);
        let r = w.exec_tx(&[
            ix::start_flashloan(acc_b, user_b, 2),
            ix::borrow(&bank1, acc_b, user_b, b_tok1, 100_000_000, vec![]),
            ix::end_flashloan(acc_b, user_b, risk),
        ]);
        ck!(r.is_ok(), "flashloan tx: {:?}", r);
        ck!(w.token_amount(&b_tok1) == tok_before + 100_000_000, "flashloan borrow landed");
        ck!(
            w.marginfi_account(&acc_b).account_flags & ACCOUNT_IN_FLASHLOAN == 0,
            "flashloan flag cleared"
        );
        ck!(
            !w.accounts.contains_key(&solana_program::sysvar::instructions::ID),
            "instructions sysvar is transient"
        );
    }
    {
        // inside a flash loan the account may be temporarily unhealthy:
        // [start(end=3), borrow 1500 (too much), repay 1500, end]
        let risk = w.remaining_for(&acc_b, &[]);
        let r = w.exec_tx(&[
            ix::start_flashloan(acc_b, user_b, 3),
            ix::borrow(&bank1, acc_b, user_b, b_tok1, 1_500_000_000, vec![]),
            ix::repay(&bank1, acc_b, user_b, b_tok1, 1_500_000_000, None),
            ix::end_flashloan(acc_b, user_b, risk),
        ]);
        ck!(r.is_ok(), "flashloan with temporary over-borrow: {:?}", r);
    }
    {
        // [start(end=2), borrow] : no end instruction -> start fails, everything rolled back
        let before = w.accounts.clone();
        let r = w.exec_tx(&[
            ix::start_flashloan(acc_b, user_b, 2),
            ix::borrow(&bank1, acc_b, user_b, b_tok1, 100_000_000, vec![]),
        ]);
        ck!(matches!(r, Err((0, _))), "flashloan without end must fail at start: {:?}", r);
        ck!(w.accounts == before, "failed flashloan rolled back");
        // end index pointing at a non-end instruction
        let r = w.exec_tx(&[
            ix::start_flashloan(acc_b, user_b, 1),
            ix::borrow(&bank1, acc_b, user_b, b_tok1, 100_000_000, vec![]),
        ]);
        ck!(
            r == Err((0, ExecErr::Custom(code(MarginfiError::IllegalFlashloan)))),
            "IllegalFlashloan: {:?}",
            r
        );
        // end that leaves the account unhealthy fails at the end and rolls back the borrow
        let risk = w.remaining_for(&acc_b, &[]);
        let r = w.exec_tx(&[
            ix::start_flashloan(acc_b, user_b, 2),
            ix::borrow(&bank1, acc_b, user_b, b_tok1, 1_500_000_000, vec![]),
            ix::end_flashloan(acc_b, user_b, risk),
        ]);
        ck!(
            r == Err((2, ExecErr::Custom(code(MarginfiError::RiskEngineInitRejected)))),
            "unhealthy flashloan end: {:?}",
            r
        );
        ck!(w.accounts == before, "unhealthy flashloan rolled back");
    }

    // ---------------------------------------------------------------- 8. admin / pause / freeze
    {
        let opt = BankConfigOpt { deposit_limit: Some(123_456_789_000), ..Default::default() };
        expect_code(
            w.exec(&ix::configure_bank(&bank1, user_a, opt.clone())),
            MarginfiError::Unauthorized,
            "configure_bank by non-admin",
        )?;
        expect_ok(w.exec(&ix::configure_bank(&bank1, admin, opt)), "configure_bank")?;
        ck!(w.bank(&bank1.bank).config.deposit_limit == 123_456_789_000, "deposit limit set");
        expect_ok(
            w.exec(&ix::configure_bank_limits_only(&bank1, admin, None, Some(777_000_000_000), None)),
            "configure limits only",
        )?;
        ck!(w.bank(&bank1.bank).config.borrow_limit == 777_000_000_000, "borrow limit set");

        expect_ok(w.exec(&ix::panic_pause(fee_admin)), "panic_pause")?;
        expect_ok(w.exec(&ix::propagate_fee_state(group)), "propagate")?;
        expect_code(
            w.exec(&ix::deposit(&bank1, acc_a, user_a, a_tok1, 1_000, None)),
            MarginfiError::ProtocolPaused,
            "deposit while paused",
        )?;
        expect_ok(w.exec(&ix::panic_unpause(fee_admin)), "panic_unpause")?;
        expect_ok(w.exec(&ix::propagate_fee_state(group)), "propagate 2")?;
        expect_ok(w.exec(&ix::deposit(&bank1, acc_a, user_a, a_tok1, 1_000, None)), "deposit unpaused")?;

        expect_ok(w.exec(&ix::set_freeze(group, acc_a, admin, true)), "freeze")?;
        ck!(w.marginfi_account(&acc_a).account_flags & ACCOUNT_FROZEN != 0, "frozen flag");
        expect_code(
            w.exec(&ix::deposit(&bank1, acc_a, user_a, a_tok1, 1_000, None)),
            MarginfiError::AccountFrozen,
            "deposit while frozen",
        )?;
        expect_ok(w.exec(&ix::set_freeze(group, acc_a, admin, false)), "unfreeze")?;
    }

    // ---------------------------------------------------------------- 9. system-program CPI (init via CreateAccount)
    {
        let payer_before = w.lamports(&user_a);
        expect_ok(w.exec(&ix::init_liq_record(acc_a, user_a)), "init liquidation record")?;
        let rec_key = w.marginfi_account(&acc_a).liquidation_record;
        let rec = w.liquidation_record(&rec_key);
        ck!(rec.marginfi_account == acc_a && rec.record_payer == user_a, "liq record content");
        ck!(w.get(&rec_key).unwrap().owner == marginfi::ID, "liq record owner");
        ck!(
            payer_before - w.lamports(&user_a) == w.lamports(&rec_key),
            "rent paid by payer"
        );
        // the fixture produces the same bytes
        let mut w2 = w.clone();
        w2.accounts.remove(&rec_key);
        w2.add_liquidation_record(acc_a, user_a);
        ck!(w2.get(&rec_key).unwrap().data == w.get(&rec_key).unwrap().data, "fixture == real init");
    }

    // real init + close of a marginfi account (CreateAccount CPI, Anchor `close`, zero-lamport purge)
    {
        let new_acc = w.new_key();
        let payer_before = w.lamports(&user_a);
        expect_ok(
            w.exec(&ix::initialize_account(group, new_acc, user_a, user_a)),
            "marginfi_account_initialize",
        )?;
        let fixture = {
            let mut w2 = w.clone();
            let k = w2.add_marginfi_account(group, user_a);
            w2.get(&k).unwrap().clone()
        };
        ck!(*w.get(&new_acc).unwrap() == fixture, "fixture account == really initialised account");
        ck!(w.lamports(&user_a) == payer_before - fixture.lamports, "payer paid rent");
        expect_ok(w.exec(&ix::close_account(new_acc, user_a, user_a)), "marginfi_account_close")?;
        ck!(w.get(&new_acc).is_none(), "closed account purged");
        ck!(w.lamports(&user_a) == payer_before, "rent refunded");
    }

    // a panicking program aborts the instruction: Panic + untouched store
    {
        let prev_hook = std::panic::take_hook();
        std::panic::set_hook(Box::new(|_| {}));
        let mut w2 = w.clone();
        let mut bk = w2.bank(&bank2.bank);
        bk.config.oracle_setup = marginfi_type_crate::types::OracleSetup::PythLegacy;
        bk.config.oracle_keys[0] = user_a; // any account
        w2.set_bank(&bank2.bank, &bk);
        let before = w2.accounts.clone();
        let risk = w2.remaining_for(&acc_b, &[]);
        let r = w2.exec(&ix::borrow(&bank1, acc_b, user_b, b_tok1, 1_000, risk));
        std::panic::set_hook(prev_hook);
        ck!(r == Err(ExecErr::Panic), "deprecated oracle setup panics: {:?}", r);
        ck!(w2.accounts == before, "store untouched after panic");
        // the harness is still usable afterwards
        let risk = w.remaining_for(&acc_b, &[]);
        expect_ok(w.exec(&ix::borrow(&bank1, acc_b, user_b, b_tok1, 1_000, risk)), "borrow after panic")?;
    }

    // ---------------------------------------------------------------- 10. Pyth push oracle bank
    {
        let mint3 = w.add_mint(TokenKind::T22, 8);
        // $25.00 with exponent -8
        let oracle = w.add_pyth_oracle(2_500_000_000, 1_000_000, 2_500_000_000, 1_000_000, -8, w.clock_ts);
        let bank3 = w.add_bank(group, mint3, bank_config_pyth(oracle));
        let user_c = w.add_wallet(1_000_000_000);
        let acc_c = w.add_marginfi_account(group, user_c);
        let c_tok3 = w.add_token_account(mint3, user_c, 10_000_000_000); // 100 tokens
        let c_tok1 = w.add_token_account(mint1, user_c, 0);
        expect_ok(
            w.exec(&ix::deposit(&bank3, acc_c, user_c, c_tok3, 4_000_000_000, None)),
            "deposit into pyth bank",
        )?;
        // 40 tokens * $25 * 0.8 = $800 (minus confidence) of collateral
        let risk = w.remaining_for(&acc_c, &[bank1.bank]);
        ck!(risk.len() == 3, "bank1 + (bank3, oracle): {}", risk.len());
        expect_ok(
            w.exec(&ix::borrow(&bank1, acc_c, user_c, c_tok1, 600_000_000, risk.clone())),
            "borrow against pyth collateral",
        )?;
        // price drop -> further borrowing rejected
        w.set_pyth_price(&oracle, 1_000_000_000, 1_000_000, 1_000_000_000, 1_000_000, -8, w.clock_ts);
        expect_code(
            w.exec(&ix::borrow(&bank1, acc_c, user_c, c_tok1, 1_000_000, risk.clone())),
            MarginfiError::RiskEngineInitRejected,
            "borrow after price drop",
        )?;
        // stale oracle (on a throw-away copy of the world)
        {
            let mut w2 = w.clone();
            w2.advance(600);
            let r = w2.exec(&ix::borrow(&bank1, acc_c, user_c, c_tok1, 1_000_000, risk));
            ck!(
                r == Err(ExecErr::Custom(code(MarginfiError::RiskEngineInitRejected))),
                "stale oracle must reject borrow: {:?}",
                r
            );
        }

        // ------------------------------------------------------------ 10b. classic liquidation
        // price is $10 now: maint assets 40*10*0.9 = 360 < maint liabs 600*1.1 = 660
        let user_d = w.add_wallet(1_000_000_000);
        let acc_d = w.add_marginfi_account(group, user_d);
        let d_tok1 = w.add_token_account(mint1, user_d, 5_000_000_000);
        let d_tok3 = w.add_token_account(mint3, user_d, 0);
        expect_ok(
            w.exec(&ix::deposit(&bank1, acc_d, user_d, d_tok1, 2_000_000_000, None)),
            "liquidator deposit",
        )?;
        let c_before = w.marginfi_account(&acc_c);
        let liq = ix::liquidate(
            &bank3,
            &bank1,
            acc_d,
            user_d,
            acc_c,
            1_000_000_000, // 10 tokens of collateral
            w.oracle_metas_for(&bank3.bank),
            w.oracle_metas_for(&bank1.bank),
            w.remaining_for(&acc_d, &[bank3.bank, bank1.bank]),
            w.remaining_for(&acc_c, &[]),
        );
        expect_ok(w.exec(&liq), "lending_account_liquidate")?;
        let c_after = w.marginfi_account(&acc_c);
        let d_after = w.marginfi_account(&acc_d);
        let seized = i(c_before.lending_account.get_balance(&bank3.bank).unwrap().asset_shares)
            - i(c_after.lending_account.get_balance(&bank3.bank).unwrap().asset_shares);
        ck!(seized == I80F48::from_num(1_000_000_000u64), "liquidatee lost 10 tokens: {}", seized);
        ck!(
            i(d_after.lending_account.get_balance(&bank3.bank).ok_or("D has no bank3")?.asset_shares)
                == I80F48::from_num(1_000_000_000u64),
            "liquidator got 10 tokens"
        );
        ck!(
            i(c_after.lending_account.get_balance(&bank1.bank).unwrap().liability_shares)
                < i(c_before.lending_account.get_balance(&bank1.bank).unwrap().liability_shares),
            "liquidatee debt reduced"
        );
        // a healthy account cannot be liquidated
        {
            let liq = ix::liquidate(
                &bank2,
                &bank1,
                acc_d,
                user_d,
                acc_b,
                1_000_000_000,
                w.oracle_metas_for(&bank2.bank),
                w.oracle_metas_for(&bank1.bank),
                w.remaining_for(&acc_d, &[bank2.bank, bank1.bank]),
                w.remaining_for(&acc_b, &[]),
            );
            expect_code(w.exec(&liq), MarginfiError::HealthyAccount, "liquidate healthy account")?;
        }

        // ------------------------------------------------------------ 10c. receivership liquidation (tx introspection)
        w.add_liquidation_record(acc_c, user_d);
        let risk_c = w.remaining_in_slot_order(&acc_c);
        let fee_wallet_before = w.lamports(&fee_wallet);
        let tx = vec![
            ix::start_liquidation(acc_c, user_d, risk_c.clone()),
            // receiver seizes 5 tokens ($50) ...
            ix::withdraw(&bank3, acc_c, user_d, d_tok3, 500_000_000, None, w.bank_and_oracle_metas(&bank3.bank)),
            // ... and repays $48 of debt (premium 4.2% <= 5%)
            ix::repay(&bank1, acc_c, user_d, d_tok1, 48_000_000, None),
            ix::end_liquidation(acc_c, user_d, fee_wallet, risk_c.clone()),
        ];
        let r = w.exec_tx(&tx);
        ck!(r.is_ok(), "receivership liquidation tx: {:?}", r);
        ck!(w.token_amount(&d_tok3) == 500_000_000, "receiver got the collateral");
        ck!(w.lamports(&fee_wallet) == fee_wallet_before + 5_000, "flat SOL fee paid (system transfer CPI)");
        let rec = w.liquidation_record(&w.marginfi_account(&acc_c).liquidation_record);
        ck!(rec.entries[3].timestamp == w.clock_ts, "liquidation record entry written");
        ck!(rec.liquidation_receiver == Default::default(), "receiver cleared");
        // too greedy: seize $50, repay only $44 (health improves but premium is 13.6%) -> LiquidationPremiumTooHigh at the end ix, all rolled back
        {
            let before = w.accounts.clone();
            let mut tx2 = tx.clone();
            tx2[2] = ix::repay(&bank1, acc_c, user_d, d_tok1, 44_000_000, None);
            let r = w.exec_tx(&tx2);
            ck!(
                r == Err((3, ExecErr::Custom(code(MarginfiError::LiquidationPremiumTooHigh)))),
                "greedy receivership: {:?}",
                r
            );
            ck!(w.accounts == before, "greedy receivership rolled back");
            // start without end
            let r = w.exec_tx(&tx[..3]);
            ck!(
                r == Err((0, ExecErr::Custom(code(MarginfiError::EndNotLast)))),
                "start without end: {:?}",
                r
            );
            // a borrow inside receivership is forbidden by introspection
            let mut tx3 = tx.clone();
            tx3[1] = ix::borrow(&bank1, acc_c, user_d, d_tok1, 1_000, vec![]);
            let r = w.exec_tx(&tx3);
            ck!(
                r == Err((0, ExecErr::Custom(code(MarginfiError::ForbiddenIx)))),
                "borrow in receivership: {:?}",
                r
            );
        }

        // ------------------------------------------------------------ 10d. bankruptcy
        {
            // doctor C: drop the collateral balance so that only bad debt remains
            let mut c = w.marginfi_account(&acc_c);
            for bal in c.lending_account.balances.iter_mut() {
                if bal.is_active() && bal.bank_pk == bank3.bank {
                    *bal = marginfi_type_crate::types::Balance::empty_deactivated();
                }
            }
            c.lending_account.balances.sort_by(|x, y| y.bank_pk.cmp(&x.bank_pk));
            w.set_marginfi_account(&acc_c, &c);
            let asv_before = i(w.bank(&bank1.bank).asset_share_value);
            let risk = w.remaining_in_slot_order(&acc_c);
            expect_code(
                w.exec(&ix::handle_bankruptcy(&bank1, user_a, acc_c, risk.clone())),
                MarginfiError::Unauthorized,
                "bankruptcy by random signer",
            )?;
            expect_ok(
                w.exec(&ix::handle_bankruptcy(&bank1, admin, acc_c, risk)),
                "handle bankruptcy",
            )?;
            ck!(
                w.marginfi_account(&acc_c).lending_account.get_balance(&bank1.bank).is_none()
                    || i(w.marginfi_account(&acc_c).lending_account.get_balance(&bank1.bank).unwrap().liability_shares)
                        < I80F48::from_num(1),
                "bad debt cleared"
            );
            ck!(i(w.bank(&bank1.bank).asset_share_value) < asv_before, "loss socialised");
        }
    }

    // ---------------------------------------------------------------- 11. clone = snapshot
    {
        let snap = w.clone();
        expect_ok(w.exec(&ix::deposit(&bank1, acc_a, user_a, a_tok1, 5_000, None)), "deposit")?;
        ck!(w.accounts != snap.accounts, "state moved");
        w = snap.clone();
        ck!(w.accounts == snap.accounts, "restored");
    }

    // ---------------------------------------------------------------- optional throughput probe
    if let Ok(n) = std::env::var("WORLD_BENCH") {
        let n: u32 = n.parse().unwrap_or(1000);
        let t0 = std::time::Instant::now();
        for _ in 0..n {
            expect_ok(w.exec(&ix::deposit(&bank1, acc_a, user_a, a_tok1, 1_000, None)), "bench deposit")?;
            let risk = w.remaining_for(&acc_a, &[]);
            expect_ok(
                w.exec(&ix::withdraw(&bank1, acc_a, user_a, a_tok1, 1_000, None, risk)),
                "bench withdraw",
            )?;
        }
        let dt = t0.elapsed().as_secs_f64();
        println!("bench: {} instructions in {:.3}s ({:.0} ix/s)", 2 * n, dt, (2 * n) as f64 / dt);
    }

    println!("world: {} instructions executed, {} transactions rejected", w.ix_ok, w.ix_err);
    println!("selftest ok");
    Ok(())
}
