//! Pure data fabrication for the `World`: fee state, groups, mints, token accounts, banks (with real
//! PDA vaults), Pyth push oracles, marginfi accounts, liquidation records; typed readers / writers;
//! and the remaining-account lists the risk engine expects.
use super::{Acct, World};
use anchor_lang::{prelude::Pubkey, AnchorSerialize, Discriminator};
use anchor_spl::associated_token::get_associated_token_address_with_program_id;
use bytemuck::{Pod, Zeroable};
use fixed::types::I80F48;
use marginfi::state::{
    bank::{BankImpl, BankVaultType},
    marginfi_account::MarginfiAccountImpl,
    marginfi_group::MarginfiGroupImpl,
};
use marginfi::utils::{find_bank_vault_authority_pda, find_bank_vault_pda};
use marginfi_type_crate::{
    constants::{
        ASSET_TAG_DEFAULT, ASSET_TAG_DRIFT, ASSET_TAG_KAMINO, ASSET_TAG_SOL, ASSET_TAG_SOLEND,
        ASSET_TAG_STAKED, FEE_STATE_SEED, LIQUIDATION_RECORD_SEED, PYTH_PUSH_MIGRATED_DEPRECATED,
    },
    types::{
        centi_to_u32, make_points, milli_to_u32, Bank, BankConfig, BankOperationalState, FeeState,
        InterestRateConfig, LiquidationRecord, MarginfiAccount, MarginfiGroup, OracleSetup,
        RatePoint, RiskTier, INTEREST_CURVE_SEVEN_POINT,
    },
};
use pyth_solana_receiver_sdk::price_update::{PriceFeedMessage, PriceUpdateV2, VerificationLevel};
use solana_program::{instruction::AccountMeta, program_pack::Pack, rent::Rent};
use spl_token_2022::extension::{
    transfer_fee::{TransferFee, TransferFeeConfig},
    BaseStateWithExtensions, BaseStateWithExtensionsMut, ExtensionType, StateWithExtensions,
    StateWithExtensionsMut,
};

#[derive(Clone, Copy, Debug, PartialEq, Eq)]
pub enum TokenKind {
    /// Classic SPL token (Tokenkeg)
    Spl,
    /// Token-2022 without extensions
    T22,
    /// Token-2022 with the TransferFeeConfig extension
    T22Fee { bps: u16, max_fee: u64 },
}

#[derive(Clone, Copy, Debug, PartialEq, Eq)]
pub struct BankHandle {
    pub bank: Pubkey,
    pub group: Pubkey,
    pub liquidity_vault: Pubkey,
    pub liquidity_vault_authority: Pubkey,
    pub insurance_vault: Pubkey,
    pub insurance_vault_authority: Pubkey,
    pub fee_vault: Pubkey,
    pub fee_vault_authority: Pubkey,
    pub mint: Pubkey,
    pub token_program: Pubkey,
}

impl BankHandle {
    pub fn is_t22(&self) -> bool {
        self.token_program == spl_token_2022::ID
    }
}

/// Parameters of the global fee state fixture.
#[derive(Clone, Copy, Debug)]
pub struct FeeStateParams {
    pub bank_init_flat_sol_fee: u32,
    pub liquidation_flat_sol_fee: u32,
    pub program_fee_fixed: I80F48,
    pub program_fee_rate: I80F48,
    pub liquidation_max_fee: I80F48,
}

impl Default for FeeStateParams {
    fn default() -> Self {
        FeeStateParams {
            bank_init_flat_sol_fee: 0,
            liquidation_flat_sol_fee: 0,
            program_fee_fixed: I80F48::ZERO,
            program_fee_rate: I80F48::ZERO,
            liquidation_max_fee: I80F48::ZERO,
        }
    }
}

fn rent_min(len: usize) -> u64 {
    Rent::default().minimum_balance(len)
}

fn zc_bytes<T: Pod + Discriminator>(v: &T) -> Vec<u8> {
    let mut d = Vec::with_capacity(8 + std::mem::size_of::<T>());
    d.extend_from_slice(T::DISCRIMINATOR);
    d.extend_from_slice(bytemuck::bytes_of(v));
    d
}

pub fn fee_state_pda() -> (Pubkey, u8) {
    Pubkey::find_program_address(&[FEE_STATE_SEED.as_bytes()], &marginfi::ID)
}

pub fn liquidation_record_pda(marginfi_account: &Pubkey) -> (Pubkey, u8) {
    Pubkey::find_program_address(
        &[LIQUIDATION_RECORD_SEED.as_bytes(), marginfi_account.as_ref()],
        &marginfi::ID,
    )
}

/// A valid seven-point interest-rate curve: 0% at zero utilisation, 10% APR at the 80% kink, 300% APR
/// at full utilisation; small protocol/insurance fees so that fee collection is non-trivial.
pub fn default_interest_rate_config() -> InterestRateConfig {
    InterestRateConfig {
        insurance_fee_fixed_apr: I80F48::ZERO.into(),
        insurance_ir_fee: I80F48::from_num(0.05).into(),
        protocol_fixed_fee_apr: I80F48::from_num(0.01).into(),
        protocol_ir_fee: I80F48::from_num(0.05).into(),
        protocol_origination_fee: I80F48::ZERO.into(),
        zero_util_rate: 0,
        hundred_util_rate: milli_to_u32(I80F48::from_num(3)),
        points: make_points(&[RatePoint::new(
            centi_to_u32(I80F48::from_num(0.8)),
            milli_to_u32(I80F48::from_num(0.1)),
        )]),
        curve_type: INTEREST_CURVE_SEVEN_POINT,
        ..InterestRateConfig::default()
    }
}

/// A valid operational collateral-tier bank config priced by `OracleSetup::Fixed` at `price`
/// (USD per whole token). Weights: asset 0.8 / 0.9 (init / maint), liability 1.2 / 1.1.
pub fn bank_config_fixed(price: I80F48) -> BankConfig {
    BankConfig {
        asset_weight_init: I80F48::from_num(0.8).into(),
        asset_weight_maint: I80F48::from_num(0.9).into(),
        liability_weight_init: I80F48::from_num(1.2).into(),
        liability_weight_maint: I80F48::from_num(1.1).into(),
        deposit_limit: 1_000_000_000_000_000,
        borrow_limit: 1_000_000_000_000_000,
        interest_rate_config: default_interest_rate_config(),
        operational_state: BankOperationalState::Operational,
        oracle_setup: OracleSetup::Fixed,
        risk_tier: RiskTier::Collateral,
        asset_tag: ASSET_TAG_DEFAULT,
        config_flags: PYTH_PUSH_MIGRATED_DEPRECATED,
        oracle_max_age: 60,
        fixed_price: price.into(),
        ..BankConfig::default()
    }
}

/// Same as `bank_config_fixed` but priced by a Pyth push oracle account (`oracle_keys[0]`).
pub fn bank_config_pyth(oracle: Pubkey) -> BankConfig {
    let mut c = bank_config_fixed(I80F48::ZERO);
    c.oracle_setup = OracleSetup::PythPushOracle;
    c.oracle_keys[0] = oracle;
    c
}

impl World {
    // ------------------------------------------------------------------ raw helpers

    pub fn put(&mut self, key: Pubkey, owner: Pubkey, data: Vec<u8>) {
        let lamports = rent_min(data.len());
        self.accounts.insert(key, Acct { lamports, data, owner, executable: false });
    }

    pub fn put_zc<T: Pod + Discriminator>(&mut self, key: Pubkey, v: &T) {
        self.put(key, marginfi::ID, zc_bytes(v));
    }

    /// Read a zero-copy marginfi account (panics if absent / wrong size / wrong discriminator).
    pub fn read_zc<T: Pod + Discriminator>(&self, key: &Pubkey) -> T {
        let a = self.accounts.get(key).unwrap_or_else(|| panic!("no account {}", key));
        assert!(a.data.len() >= 8 + std::mem::size_of::<T>(), "account {} too small", key);
        assert_eq!(&a.data[..8], T::DISCRIMINATOR, "bad discriminator for {}", key);
        bytemuck::pod_read_unaligned(&a.data[8..8 + std::mem::size_of::<T>()])
    }

    /// Overwrite the body of an existing zero-copy account (keeps lamports / owner / discriminator).
    pub fn write_zc<T: Pod + Discriminator>(&mut self, key: &Pubkey, v: &T) {
        let a = self.accounts.get_mut(key).unwrap_or_else(|| panic!("no account {}", key));
        assert_eq!(&a.data[..8], T::DISCRIMINATOR, "bad discriminator for {}", key);
        a.data[8..8 + std::mem::size_of::<T>()].copy_from_slice(bytemuck::bytes_of(v));
    }

    // ------------------------------------------------------------------ typed readers / writers

    pub fn bank(&self, key: &Pubkey) -> Bank {
        self.read_zc::<Bank>(key)
    }
    pub fn set_bank(&mut self, key: &Pubkey, v: &Bank) {
        self.write_zc(key, v)
    }
    pub fn marginfi_account(&self, key: &Pubkey) -> MarginfiAccount {
        self.read_zc::<MarginfiAccount>(key)
    }
    pub fn set_marginfi_account(&mut self, key: &Pubkey, v: &MarginfiAccount) {
        self.write_zc(key, v)
    }
    pub fn group(&self, key: &Pubkey) -> MarginfiGroup {
        self.read_zc::<MarginfiGroup>(key)
    }
    pub fn set_group(&mut self, key: &Pubkey, v: &MarginfiGroup) {
        self.write_zc(key, v)
    }
    pub fn fee_state(&self, key: &Pubkey) -> FeeState {
        self.read_zc::<FeeState>(key)
    }
    pub fn set_fee_state(&mut self, key: &Pubkey, v: &FeeState) {
        self.write_zc(key, v)
    }
    pub fn liquidation_record(&self, key: &Pubkey) -> LiquidationRecord {
        self.read_zc::<LiquidationRecord>(key)
    }
    pub fn set_liquidation_record(&mut self, key: &Pubkey, v: &LiquidationRecord) {
        self.write_zc(key, v)
    }

    /// `amount` of an spl-token / token-2022 token account (0 if the account does not exist).
    pub fn token_amount(&self, token_account: &Pubkey) -> u64 {
        match self.accounts.get(token_account) {
            Some(a) if a.data.len() >= 72 => u64::from_le_bytes(a.data[64..72].try_into().unwrap()),
            _ => 0,
        }
    }

    /// Overwrite the `amount` of a token account (test doctoring; does not touch mint supply).
    pub fn set_token_amount(&mut self, token_account: &Pubkey, amount: u64) {
        let a = self.accounts.get_mut(token_account).expect("no token account");
        a.data[64..72].copy_from_slice(&amount.to_le_bytes());
    }

    /// Withheld transfer fees recorded on a Token-2022 token account (0 if no such extension).
    pub fn token_withheld(&self, token_account: &Pubkey) -> u64 {
        use spl_token_2022::extension::transfer_fee::TransferFeeAmount;
        let a = match self.accounts.get(token_account) {
            Some(a) => a,
            None => return 0,
        };
        match StateWithExtensions::<spl_token_2022::state::Account>::unpack(&a.data) {
            Ok(st) => st
                .get_extension::<TransferFeeAmount>()
                .map(|e| u64::from(e.withheld_amount))
                .unwrap_or(0),
            Err(_) => 0,
        }
    }

    pub fn mint_decimals(&self, mint: &Pubkey) -> u8 {
        self.accounts.get(mint).expect("no mint").data[44]
    }

    // ------------------------------------------------------------------ fee state / group

    /// The global `FeeState` PDA (`[FEE_STATE_SEED]`).
    pub fn add_fee_state(
        &mut self,
        global_fee_admin: Pubkey,
        global_fee_wallet: Pubkey,
        p: FeeStateParams,
    ) -> Pubkey {
        let (key, bump) = fee_state_pda();
        let mut fs = FeeState::zeroed();
        fs.key = key;
        fs.global_fee_admin = global_fee_admin;
        fs.global_fee_wallet = global_fee_wallet;
        fs.bump_seed = bump;
        fs.bank_init_flat_sol_fee = p.bank_init_flat_sol_fee;
        fs.liquidation_flat_sol_fee = p.liquidation_flat_sol_fee;
        fs.program_fee_fixed = p.program_fee_fixed.into();
        fs.program_fee_rate = p.program_fee_rate.into();
        fs.liquidation_max_fee = p.liquidation_max_fee.into();
        self.put_zc(key, &fs);
        // the fee wallet must exist as a system account to receive SOL fees
        self.accounts.entry(global_fee_wallet).or_insert_with(Acct::empty_system);
        key
    }

    /// A `MarginfiGroup` initialised like `marginfi_group_initialize` does (program fees enabled,
    /// default emode leverage caps, fee-state cache copied from the fee state if it exists). All
    /// delegate admins default to `admin`; change them with `set_group_admins` or `set_group`.
    pub fn add_group(&mut self, admin: Pubkey) -> Pubkey {
        let key = self.new_key();
        let mut g = MarginfiGroup::zeroed();
        g.set_initial_configuration(admin);
        g.emode_admin = admin;
        g.delegate_curve_admin = admin;
        g.delegate_limit_admin = admin;
        g.delegate_emissions_admin = admin;
        g.risk_admin = admin;
        g.metadata_admin = admin;
        let (fs_key, _) = fee_state_pda();
        if self.accounts.contains_key(&fs_key) {
            let fs = self.fee_state(&fs_key);
            g.fee_state_cache.global_fee_wallet = fs.global_fee_wallet;
            g.fee_state_cache.program_fee_fixed = fs.program_fee_fixed;
            g.fee_state_cache.program_fee_rate = fs.program_fee_rate;
            g.fee_state_cache.last_update = self.clock_ts;
        }
        self.put_zc(key, &g);
        key
    }

    /// Set the delegate admins of a group (all fields are plain `pub` fields of `MarginfiGroup`).
    #[allow(clippy::too_many_arguments)]
    pub fn set_group_admins(
        &mut self,
        group: &Pubkey,
        emode_admin: Pubkey,
        delegate_curve_admin: Pubkey,
        delegate_limit_admin: Pubkey,
        delegate_emissions_admin: Pubkey,
        risk_admin: Pubkey,
        metadata_admin: Pubkey,
    ) {
        let mut g = self.group(group);
        g.emode_admin = emode_admin;
        g.delegate_curve_admin = delegate_curve_admin;
        g.delegate_limit_admin = delegate_limit_admin;
        g.delegate_emissions_admin = delegate_emissions_admin;
        g.risk_admin = risk_admin;
        g.metadata_admin = metadata_admin;
        self.set_group(group, &g);
    }

    // ------------------------------------------------------------------ mints / token accounts

    pub fn add_mint(&mut self, kind: TokenKind, decimals: u8) -> Pubkey {
        let key = self.new_key();
        match kind {
            TokenKind::Spl | TokenKind::T22 => {
                let mut data = vec![0u8; spl_token::state::Mint::LEN];
                let mint = spl_token::state::Mint {
                    is_initialized: true,
                    decimals,
                    ..Default::default()
                };
                spl_token::state::Mint::pack(mint, &mut data).unwrap();
                let owner = if kind == TokenKind::Spl { spl_token::ID } else { spl_token_2022::ID };
                self.put(key, owner, data);
            }
            TokenKind::T22Fee { bps, max_fee } => {
                let len = ExtensionType::try_calculate_account_len::<spl_token_2022::state::Mint>(&[
                    ExtensionType::TransferFeeConfig,
                ])
                .unwrap();
                let mut data = vec![0u8; len];
                {
                    let mut st = StateWithExtensionsMut::<spl_token_2022::state::Mint>::unpack_uninitialized(
                        &mut data,
                    )
                    .unwrap();
                    st.init_account_type().unwrap();
                    let cfg = st.init_extension::<TransferFeeConfig>(false).unwrap();
                    let fee = TransferFee {
                        epoch: 0.into(),
                        maximum_fee: max_fee.into(),
                        transfer_fee_basis_points: bps.into(),
                    };
                    *cfg = TransferFeeConfig {
                        transfer_fee_config_authority: Default::default(),
                        withdraw_withheld_authority: Default::default(),
                        withheld_amount: 0.into(),
                        older_transfer_fee: fee,
                        newer_transfer_fee: fee,
                    };
                    st.base = spl_token_2022::state::Mint {
                        is_initialized: true,
                        decimals,
                        ..Default::default()
                    };
                    st.pack_base();
                }
                self.put(key, spl_token_2022::ID, data);
            }
        }
        key
    }

    /// The token program that owns `mint`.
    pub fn token_program_of(&self, mint: &Pubkey) -> Pubkey {
        self.accounts.get(mint).expect("no mint").owner
    }

    /// A token account for `mint` at a fresh key.
    pub fn add_token_account(&mut self, mint: Pubkey, owner: Pubkey, amount: u64) -> Pubkey {
        let key = self.new_key();
        self.add_token_account_at(key, mint, owner, amount);
        key
    }

    /// A token account at a chosen address (vault PDAs, ATAs). Gets the account-side extensions the
    /// mint requires (TransferFeeAmount for transfer-fee mints). Also bumps the mint supply.
    pub fn add_token_account_at(&mut self, key: Pubkey, mint: Pubkey, owner: Pubkey, amount: u64) {
        let mint_acct = self.accounts.get(&mint).expect("no mint").clone();
        let required = {
            let st = StateWithExtensions::<spl_token_2022::state::Mint>::unpack(&mint_acct.data)
                .expect("bad mint");
            let mint_ext = st.get_extension_types().unwrap();
            ExtensionType::get_required_init_account_extensions(&mint_ext)
        };
        let len = ExtensionType::try_calculate_account_len::<spl_token_2022::state::Account>(&required)
            .unwrap();
        let mut data = vec![0u8; len];
        {
            let mut st =
                StateWithExtensionsMut::<spl_token_2022::state::Account>::unpack_uninitialized(&mut data)
                    .unwrap();
            for e in &required {
                st.init_account_extension_from_type(*e).unwrap();
            }
            st.base = spl_token_2022::state::Account {
                mint,
                owner,
                amount,
                state: spl_token_2022::state::AccountState::Initialized,
                ..Default::default()
            };
            st.pack_base();
            if !required.is_empty() {
                st.init_account_type().unwrap();
            }
        }
        self.put(key, mint_acct.owner, data);
        // keep the mint supply consistent (bytes 36..44 of the base mint)
        let m = self.accounts.get_mut(&mint).unwrap();
        let supply = u64::from_le_bytes(m.data[36..44].try_into().unwrap()).saturating_add(amount);
        m.data[36..44].copy_from_slice(&supply.to_le_bytes());
    }

    /// Associated token address of `wallet` for `mint` (under the mint's token program).
    pub fn ata(&self, wallet: &Pubkey, mint: &Pubkey) -> Pubkey {
        get_associated_token_address_with_program_id(wallet, mint, &self.token_program_of(mint))
    }

    /// Create the ATA of `wallet` for `mint` with `amount` tokens.
    pub fn add_ata(&mut self, wallet: Pubkey, mint: Pubkey, amount: u64) -> Pubkey {
        let key = self.ata(&wallet, &mint);
        self.add_token_account_at(key, mint, wallet, amount);
        key
    }

    // ------------------------------------------------------------------ oracles

    /// A Pyth `PriceUpdateV2` account (owner = pyth receiver program, verification level Full). The
    /// feed id is the account key. `price`/`conf` are in units of 10^`exponent` USD.
    #[allow(clippy::too_many_arguments)]
    pub fn add_pyth_oracle(
        &mut self,
        price: i64,
        conf: u64,
        ema_price: i64,
        ema_conf: u64,
        exponent: i32,
        publish_time: i64,
    ) -> Pubkey {
        let key = self.new_key();
        self.put(key, pyth_solana_receiver_sdk::id(), Vec::new());
        self.set_pyth_price(&key, price, conf, ema_price, ema_conf, exponent, publish_time);
        key
    }

    #[allow(clippy::too_many_arguments)]
    pub fn set_pyth_price(
        &mut self,
        oracle: &Pubkey,
        price: i64,
        conf: u64,
        ema_price: i64,
        ema_conf: u64,
        exponent: i32,
        publish_time: i64,
    ) {
        let upd = PriceUpdateV2 {
            write_authority: Pubkey::default(),
            verification_level: VerificationLevel::Full,
            price_message: PriceFeedMessage {
                feed_id: oracle.to_bytes(),
                price,
                conf,
                exponent,
                publish_time,
                prev_publish_time: publish_time.saturating_sub(1),
                ema_price,
                ema_conf,
            },
            posted_slot: self.slot,
        };
        let mut data = Vec::new();
        data.extend_from_slice(<PriceUpdateV2 as Discriminator>::DISCRIMINATOR);
        upd.serialize(&mut data).unwrap();
        // real accounts are PriceUpdateV2::LEN (134) bytes; Full verification serialises 1 byte
        // shorter than Partial, pad to the real size
        if data.len() < PriceUpdateV2::LEN {
            data.resize(PriceUpdateV2::LEN, 0);
        }
        self.put(*oracle, pyth_solana_receiver_sdk::id(), data);
    }

    /// Read back a fabricated Pyth oracle.
    pub fn pyth_price(&self, oracle: &Pubkey) -> PriceUpdateV2 {
        use anchor_lang::AnchorDeserialize;
        let a = self.accounts.get(oracle).expect("no oracle");
        PriceUpdateV2::deserialize(&mut &a.data[8..]).expect("bad PriceUpdateV2")
    }

    // ------------------------------------------------------------------ banks

    /// A bank at a fresh key, built with the program's own `Bank::new`, real PDA bumps, and vault
    /// token accounts owned by the vault-authority PDAs. `config` is stored verbatim (oracle setup
    /// and keys included): use `bank_config_fixed` / `bank_config_pyth`.
    pub fn add_bank(&mut self, group: Pubkey, mint: Pubkey, config: BankConfig) -> BankHandle {
        let key = self.new_key();
        self.add_bank_at(key, group, mint, config)
    }

    pub fn add_bank_at(
        &mut self,
        bank: Pubkey,
        group: Pubkey,
        mint: Pubkey,
        config: BankConfig,
    ) -> BankHandle {
        let decimals = self.mint_decimals(&mint);
        let token_program = self.token_program_of(&mint);
        let (lv, lv_b) = find_bank_vault_pda(&bank, BankVaultType::Liquidity);
        let (lva, lva_b) = find_bank_vault_authority_pda(&bank, BankVaultType::Liquidity);
        let (iv, iv_b) = find_bank_vault_pda(&bank, BankVaultType::Insurance);
        let (iva, iva_b) = find_bank_vault_authority_pda(&bank, BankVaultType::Insurance);
        let (fv, fv_b) = find_bank_vault_pda(&bank, BankVaultType::Fee);
        let (fva, fva_b) = find_bank_vault_authority_pda(&bank, BankVaultType::Fee);

        let b = Bank::new(
            group, config, mint, decimals, lv, iv, fv, self.clock_ts, lv_b, lva_b, iv_b, iva_b, fv_b,
            fva_b,
        );
        self.put_zc(bank, &b);
        self.add_token_account_at(lv, mint, lva, 0);
        self.add_token_account_at(iv, mint, iva, 0);
        self.add_token_account_at(fv, mint, fva, 0);

        if self.accounts.contains_key(&group) {
            let mut g = self.group(&group);
            g.banks = g.banks.saturating_add(1);
            self.set_group(&group, &g);
        }

        BankHandle {
            bank,
            group,
            liquidity_vault: lv,
            liquidity_vault_authority: lva,
            insurance_vault: iv,
            insurance_vault_authority: iva,
            fee_vault: fv,
            fee_vault_authority: fva,
            mint,
            token_program,
        }
    }

    /// Rebuild the handle of an existing bank from its stored state.
    pub fn bank_handle(&self, bank: &Pubkey) -> BankHandle {
        let b = self.bank(bank);
        BankHandle {
            bank: *bank,
            group: b.group,
            liquidity_vault: b.liquidity_vault,
            liquidity_vault_authority: find_bank_vault_authority_pda(bank, BankVaultType::Liquidity).0,
            insurance_vault: b.insurance_vault,
            insurance_vault_authority: find_bank_vault_authority_pda(bank, BankVaultType::Insurance).0,
            fee_vault: b.fee_vault,
            fee_vault_authority: find_bank_vault_authority_pda(bank, BankVaultType::Fee).0,
            mint: b.mint,
            token_program: self.token_program_of(&b.mint),
        }
    }

    // ------------------------------------------------------------------ users

    pub fn add_marginfi_account(&mut self, group: Pubkey, authority: Pubkey) -> Pubkey {
        let key = self.new_key();
        let mut a = MarginfiAccount::zeroed();
        a.initialize(group, authority, self.clock_ts as u64);
        self.put_zc(key, &a);
        key
    }

    /// (basis points, maximum fee) of the Token-2022 transfer fee IN FORCE for `mint` at the world's epoch (0);
    /// (0, 0) for classic SPL mints and Token-2022 mints without the extension.
    pub fn transfer_fee_in_force(&self, mint: &Pubkey) -> (u16, u64) {
        let acct = match self.get(mint) {
            Some(a) => a,
            None => return (0, 0),
        };
        if acct.owner != spl_token_2022::ID {
            return (0, 0);
        }
        match StateWithExtensions::<spl_token_2022::state::Mint>::unpack(&acct.data) {
            Ok(st) => match st.get_extension::<TransferFeeConfig>() {
                Ok(cfg) => {
                    let f = cfg.get_epoch_fee(0);
                    (u16::from(f.transfer_fee_basis_points), u64::from(f.maximum_fee))
                }
                Err(_) => (0, 0),
            },
            Err(_) => (0, 0),
        }
    }

    /// Schedule a transfer-fee change on a Token-2022 fee mint like `SetTransferFee` does: the fee in force stays in
    /// `older_transfer_fee`, the new one goes to `newer_transfer_fee` with an activation epoch in the future (the world's
    /// clock epoch is 0), so the OLD fee keeps being charged.
    pub fn schedule_fee_change(&mut self, mint: &Pubkey, newer_bps: u16, newer_max_fee: u64, activation_epoch: u64) {
        let mut acct = self.get(mint).expect("mint").clone();
        {
            let mut st = StateWithExtensionsMut::<spl_token_2022::state::Mint>::unpack(&mut acct.data).unwrap();
            let cfg = st.get_extension_mut::<TransferFeeConfig>().unwrap();
            cfg.newer_transfer_fee = TransferFee {
                epoch: activation_epoch.into(),
                maximum_fee: newer_max_fee.into(),
                transfer_fee_basis_points: newer_bps.into(),
            };
        }
        self.accounts.insert(*mint, acct);
    }

    /// The liquidation-record PDA of `marginfi_account`, initialised like
    /// `marginfi_account_init_liq_record` does, and linked from the account.
    pub fn add_liquidation_record(&mut self, marginfi_account: Pubkey, payer: Pubkey) -> Pubkey {
        let (key, _) = liquidation_record_pda(&marginfi_account);
        let mut r = LiquidationRecord::zeroed();
        r.key = key;
        r.marginfi_account = marginfi_account;
        r.record_payer = payer;
        self.put_zc(key, &r);
        let mut a = self.marginfi_account(&marginfi_account);
        a.liquidation_record = key;
        self.set_marginfi_account(&marginfi_account, &a);
        key
    }

    // ------------------------------------------------------------------ risk-engine accounts

    /// The oracle accounts the price adapter expects for `bank` (none for `Fixed`, `oracle_keys[0]`
    /// for Pyth push / Switchboard pull, more for staked / integration banks).
    pub fn oracle_metas_for(&self, bank: &Pubkey) -> Vec<AccountMeta> {
        let b = self.bank(bank);
        let n_total = if b.config.oracle_setup == OracleSetup::Fixed {
            1
        } else {
            match b.config.asset_tag {
                ASSET_TAG_DEFAULT | ASSET_TAG_SOL => 2,
                ASSET_TAG_KAMINO | ASSET_TAG_DRIFT | ASSET_TAG_SOLEND => 3,
                ASSET_TAG_STAKED => 4,
                _ => 2,
            }
        };
        (0..n_total - 1)
            .map(|i| AccountMeta::new_readonly(b.config.oracle_keys[i], false))
            .collect()
    }

    /// `[bank, oracle(s)...]` for one bank (the unit the risk engine consumes per active balance).
    pub fn bank_and_oracle_metas(&self, bank: &Pubkey) -> Vec<AccountMeta> {
        let mut v = vec![AccountMeta::new_readonly(*bank, false)];
        v.extend(self.oracle_metas_for(bank));
        v
    }

    /// Remaining accounts for instructions whose handler calls `sort_balances()` BEFORE running the
    /// risk engine (borrow, withdraw, liquidate in this program version): the account's active
    /// balances plus `extra_banks` (positions the instruction will open), minus `exclude_banks`
    /// (positions it will close, e.g. `withdraw_all`), in DESCENDING bank-pubkey order; each bank is
    /// followed by its oracle account(s).
    pub fn remaining_sorted(
        &self,
        marginfi_account: &Pubkey,
        extra_banks: &[Pubkey],
        exclude_banks: &[Pubkey],
    ) -> Vec<AccountMeta> {
        let a = self.marginfi_account(marginfi_account);
        let mut banks: Vec<Pubkey> = a
            .lending_account
            .balances
            .iter()
            .filter(|b| b.is_active())
            .map(|b| b.bank_pk)
            .collect();
        for e in extra_banks {
            if !banks.contains(e) {
                banks.push(*e);
            }
        }
        banks.retain(|b| !exclude_banks.contains(b));
        banks.sort_by(|x, y| y.cmp(x));
        banks.iter().flat_map(|b| self.bank_and_oracle_metas(b)).collect()
    }

    /// Shorthand for `remaining_sorted(account, extra_banks, &[])`.
    pub fn remaining_for(&self, marginfi_account: &Pubkey, extra_banks: &[Pubkey]) -> Vec<AccountMeta> {
        self.remaining_sorted(marginfi_account, extra_banks, &[])
    }

    /// Remaining accounts in the account's CURRENT stored slot order, for handlers that run the risk
    /// engine without sorting first (end_flashloan, pulse_health, handle_bankruptcy,
    /// start/end_liquidation, start/end_deleverage). After any program-executed handler the stored
    /// order is already the sorted order, so this differs from `remaining_for` only for doctored
    /// accounts.
    pub fn remaining_in_slot_order(&self, marginfi_account: &Pubkey) -> Vec<AccountMeta> {
        let a = self.marginfi_account(marginfi_account);
        a.lending_account
            .balances
            .iter()
            .filter(|b| b.is_active())
            .flat_map(|b| self.bank_and_oracle_metas(&b.bank_pk))
            .collect()
    }
}
