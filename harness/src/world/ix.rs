//! Thin instruction builders: Anchor-generated account structs (`marginfi::accounts::*`) +
//! instruction data (`marginfi::instruction::*`), plus the remaining accounts each handler expects.
//!
//! Conventions
//! * Token-2022 banks need the mint as the FIRST remaining account (`utils::maybe_take_bank_mint`);
//!   the builders add it automatically from the `BankHandle`.
//! * `risk` = the risk-engine accounts, normally `world.remaining_for(account, &[new_bank])` /
//!   `world.remaining_sorted(..)` / `world.remaining_in_slot_order(account)`.
use super::fixtures::{fee_state_pda, BankHandle};
use anchor_lang::{prelude::Pubkey, InstructionData, ToAccountMetas};
use marginfi_type_crate::types::{
    BankConfigOpt, InterestRateConfigOpt, WrappedI80F48,
};
use solana_program::{
    instruction::{AccountMeta, Instruction},
    system_program, sysvar,
};

fn build(
    accounts: impl ToAccountMetas,
    data: impl InstructionData,
    remaining: Vec<AccountMeta>,
) -> Instruction {
    let mut metas = accounts.to_account_metas(None);
    metas.extend(remaining);
    Instruction { program_id: marginfi::ID, accounts: metas, data: data.data() }
}

fn with_mint(b: &BankHandle, rest: Vec<AccountMeta>) -> Vec<AccountMeta> {
    let mut v = Vec::with_capacity(rest.len() + 1);
    if b.is_t22() {
        v.push(AccountMeta::new_readonly(b.mint, false));
    }
    v.extend(rest);
    v
}

// ---------------------------------------------------------------------- user instructions

pub fn deposit(
    b: &BankHandle,
    marginfi_account: Pubkey,
    authority: Pubkey,
    signer_token_account: Pubkey,
    amount: u64,
    deposit_up_to_limit: Option<bool>,
) -> Instruction {
    build(
        marginfi::accounts::LendingAccountDeposit {
            group: b.group,
            marginfi_account,
            authority,
            bank: b.bank,
            signer_token_account,
            liquidity_vault: b.liquidity_vault,
            token_program: b.token_program,
        },
        marginfi::instruction::LendingAccountDeposit { amount, deposit_up_to_limit },
        with_mint(b, vec![]),
    )
}

pub fn repay(
    b: &BankHandle,
    marginfi_account: Pubkey,
    authority: Pubkey,
    signer_token_account: Pubkey,
    amount: u64,
    repay_all: Option<bool>,
) -> Instruction {
    build(
        marginfi::accounts::LendingAccountRepay {
            group: b.group,
            marginfi_account,
            authority,
            bank: b.bank,
            signer_token_account,
            liquidity_vault: b.liquidity_vault,
            token_program: b.token_program,
        },
        marginfi::instruction::LendingAccountRepay { amount, repay_all },
        with_mint(b, vec![]),
    )
}

pub fn withdraw(
    b: &BankHandle,
    marginfi_account: Pubkey,
    authority: Pubkey,
    destination_token_account: Pubkey,
    amount: u64,
    withdraw_all: Option<bool>,
    risk: Vec<AccountMeta>,
) -> Instruction {
    build(
        marginfi::accounts::LendingAccountWithdraw {
            group: b.group,
            marginfi_account,
            authority,
            bank: b.bank,
            destination_token_account,
            bank_liquidity_vault_authority: b.liquidity_vault_authority,
            liquidity_vault: b.liquidity_vault,
            token_program: b.token_program,
        },
        marginfi::instruction::LendingAccountWithdraw { amount, withdraw_all },
        with_mint(b, risk),
    )
}

pub fn borrow(
    b: &BankHandle,
    marginfi_account: Pubkey,
    authority: Pubkey,
    destination_token_account: Pubkey,
    amount: u64,
    risk: Vec<AccountMeta>,
) -> Instruction {
    build(
        marginfi::accounts::LendingAccountBorrow {
            group: b.group,
            marginfi_account,
            authority,
            bank: b.bank,
            destination_token_account,
            bank_liquidity_vault_authority: b.liquidity_vault_authority,
            liquidity_vault: b.liquidity_vault,
            token_program: b.token_program,
        },
        marginfi::instruction::LendingAccountBorrow { amount },
        with_mint(b, risk),
    )
}

pub fn close_balance(b: &BankHandle, marginfi_account: Pubkey, authority: Pubkey) -> Instruction {
    build(
        marginfi::accounts::LendingAccountCloseBalance {
            group: b.group,
            marginfi_account,
            authority,
            bank: b.bank,
        },
        marginfi::instruction::LendingAccountCloseBalance {},
        vec![],
    )
}

/// `remaining` layout (see `lending_account_liquidate`): `[liab mint if T22] ++ asset oracle(s) ++
/// liab oracle(s) ++ liquidator risk accounts ++ liquidatee risk accounts`. The two `u8` counts are
/// derived from the slices.
#[allow(clippy::too_many_arguments)]
pub fn liquidate(
    asset_bank: &BankHandle,
    liab_bank: &BankHandle,
    liquidator_marginfi_account: Pubkey,
    authority: Pubkey,
    liquidatee_marginfi_account: Pubkey,
    asset_amount: u64,
    asset_oracles: Vec<AccountMeta>,
    liab_oracles: Vec<AccountMeta>,
    liquidator_risk: Vec<AccountMeta>,
    liquidatee_risk: Vec<AccountMeta>,
) -> Instruction {
    let liquidator_accounts = liquidator_risk.len() as u8;
    let liquidatee_accounts = liquidatee_risk.len() as u8;
    let mut rest = asset_oracles;
    rest.extend(liab_oracles);
    rest.extend(liquidator_risk);
    rest.extend(liquidatee_risk);
    build(
        marginfi::accounts::LendingAccountLiquidate {
            group: liab_bank.group,
            asset_bank: asset_bank.bank,
            liab_bank: liab_bank.bank,
            liquidator_marginfi_account,
            authority,
            liquidatee_marginfi_account,
            bank_liquidity_vault_authority: liab_bank.liquidity_vault_authority,
            bank_liquidity_vault: liab_bank.liquidity_vault,
            bank_insurance_vault: liab_bank.insurance_vault,
            token_program: liab_bank.token_program,
        },
        marginfi::instruction::LendingAccountLiquidate {
            asset_amount,
            liquidatee_accounts,
            liquidator_accounts,
        },
        with_mint(liab_bank, rest),
    )
}

pub fn start_flashloan(marginfi_account: Pubkey, authority: Pubkey, end_index: u64) -> Instruction {
    build(
        marginfi::accounts::LendingAccountStartFlashloan {
            marginfi_account,
            authority,
            ixs_sysvar: sysvar::instructions::ID,
        },
        marginfi::instruction::LendingAccountStartFlashloan { end_index },
        vec![],
    )
}

/// `risk`: `world.remaining_in_slot_order(account)` as of the END of the flash loan (the handler does
/// not sort; earlier handlers in the tx leave the balances sorted).
pub fn end_flashloan(marginfi_account: Pubkey, authority: Pubkey, risk: Vec<AccountMeta>) -> Instruction {
    build(
        marginfi::accounts::LendingAccountEndFlashloan { marginfi_account, authority },
        marginfi::instruction::LendingAccountEndFlashloan {},
        risk,
    )
}

pub fn pulse_health(marginfi_account: Pubkey, risk: Vec<AccountMeta>) -> Instruction {
    build(
        marginfi::accounts::PulseHealth { marginfi_account },
        marginfi::instruction::LendingAccountPulseHealth {},
        risk,
    )
}

pub fn set_freeze(group: Pubkey, marginfi_account: Pubkey, admin: Pubkey, frozen: bool) -> Instruction {
    build(
        marginfi::accounts::SetAccountFreeze { group, marginfi_account, admin },
        marginfi::instruction::MarginfiAccountSetFreeze { frozen },
        vec![],
    )
}

pub fn close_account(marginfi_account: Pubkey, authority: Pubkey, fee_payer: Pubkey) -> Instruction {
    build(
        marginfi::accounts::MarginfiAccountClose { marginfi_account, authority, fee_payer },
        marginfi::instruction::MarginfiAccountClose {},
        vec![],
    )
}

/// Real `init` of a marginfi account at `marginfi_account` (a fresh key that must sign).
pub fn initialize_account(
    marginfi_group: Pubkey,
    marginfi_account: Pubkey,
    authority: Pubkey,
    fee_payer: Pubkey,
) -> Instruction {
    build(
        marginfi::accounts::MarginfiAccountInitialize {
            marginfi_group,
            marginfi_account,
            authority,
            fee_payer,
            system_program: system_program::ID,
        },
        marginfi::instruction::MarginfiAccountInitialize {},
        vec![],
    )
}

/// Real `init` of the liquidation record (exercises the System Program CPI stub: CreateAccount).
pub fn init_liq_record(marginfi_account: Pubkey, fee_payer: Pubkey) -> Instruction {
    let (liquidation_record, _) = super::fixtures::liquidation_record_pda(&marginfi_account);
    build(
        marginfi::accounts::InitLiquidationRecord {
            marginfi_account,
            fee_payer,
            liquidation_record,
            system_program: system_program::ID,
        },
        marginfi::instruction::MarginfiAccountInitLiqRecord {},
        vec![],
    )
}

/// Receivership liquidation start. `risk`: `world.remaining_in_slot_order(account)`.
pub fn start_liquidation(
    marginfi_account: Pubkey,
    liquidation_receiver: Pubkey,
    risk: Vec<AccountMeta>,
) -> Instruction {
    let (liquidation_record, _) = super::fixtures::liquidation_record_pda(&marginfi_account);
    build(
        marginfi::accounts::StartLiquidation {
            marginfi_account,
            liquidation_record,
            liquidation_receiver,
            instruction_sysvar: sysvar::instructions::ID,
        },
        marginfi::instruction::StartLiquidation {},
        risk,
    )
}

pub fn end_liquidation(
    marginfi_account: Pubkey,
    liquidation_receiver: Pubkey,
    global_fee_wallet: Pubkey,
    risk: Vec<AccountMeta>,
) -> Instruction {
    let (liquidation_record, _) = super::fixtures::liquidation_record_pda(&marginfi_account);
    build(
        marginfi::accounts::EndLiquidation {
            marginfi_account,
            liquidation_record,
            liquidation_receiver,
            fee_state: fee_state_pda().0,
            global_fee_wallet,
            system_program: system_program::ID,
        },
        marginfi::instruction::EndLiquidation {},
        risk,
    )
}

pub fn start_deleverage(
    group: Pubkey,
    marginfi_account: Pubkey,
    risk_admin: Pubkey,
    risk: Vec<AccountMeta>,
) -> Instruction {
    let (liquidation_record, _) = super::fixtures::liquidation_record_pda(&marginfi_account);
    build(
        marginfi::accounts::StartDeleverage {
            marginfi_account,
            liquidation_record,
            group,
            risk_admin,
            instruction_sysvar: sysvar::instructions::ID,
        },
        marginfi::instruction::StartDeleverage {},
        risk,
    )
}

pub fn end_deleverage(
    group: Pubkey,
    marginfi_account: Pubkey,
    risk_admin: Pubkey,
    risk: Vec<AccountMeta>,
) -> Instruction {
    let (liquidation_record, _) = super::fixtures::liquidation_record_pda(&marginfi_account);
    build(
        marginfi::accounts::EndDeleverage { marginfi_account, liquidation_record, group, risk_admin },
        marginfi::instruction::EndDeleverage {},
        risk,
    )
}

// ---------------------------------------------------------------------- pool / admin instructions

pub fn accrue(b: &BankHandle) -> Instruction {
    build(
        marginfi::accounts::LendingPoolAccrueBankInterest { group: b.group, bank: b.bank },
        marginfi::instruction::LendingPoolAccrueBankInterest {},
        vec![],
    )
}

/// `fee_ata` must be the ATA of `fee_state.global_fee_wallet` for the bank mint
/// (`world.ata(&wallet, &mint)` / `world.add_ata(..)`).
pub fn collect_fees(b: &BankHandle, fee_ata: Pubkey) -> Instruction {
    build(
        marginfi::accounts::LendingPoolCollectBankFees {
            group: b.group,
            bank: b.bank,
            liquidity_vault_authority: b.liquidity_vault_authority,
            liquidity_vault: b.liquidity_vault,
            insurance_vault: b.insurance_vault,
            fee_vault: b.fee_vault,
            fee_state: fee_state_pda().0,
            fee_ata,
            token_program: b.token_program,
        },
        marginfi::instruction::LendingPoolCollectBankFees {},
        with_mint(b, vec![]),
    )
}

pub fn withdraw_fees(b: &BankHandle, admin: Pubkey, dst_token_account: Pubkey, amount: u64) -> Instruction {
    build(
        marginfi::accounts::LendingPoolWithdrawFees {
            group: b.group,
            bank: b.bank,
            admin,
            fee_vault: b.fee_vault,
            fee_vault_authority: b.fee_vault_authority,
            dst_token_account,
            token_program: b.token_program,
        },
        marginfi::instruction::LendingPoolWithdrawFees { amount },
        with_mint(b, vec![]),
    )
}

pub fn withdraw_insurance(
    b: &BankHandle,
    admin: Pubkey,
    dst_token_account: Pubkey,
    amount: u64,
) -> Instruction {
    build(
        marginfi::accounts::LendingPoolWithdrawInsurance {
            group: b.group,
            bank: b.bank,
            admin,
            insurance_vault: b.insurance_vault,
            insurance_vault_authority: b.insurance_vault_authority,
            dst_token_account,
            token_program: b.token_program,
        },
        marginfi::instruction::LendingPoolWithdrawInsurance { amount },
        with_mint(b, vec![]),
    )
}

/// `risk`: `world.remaining_in_slot_order(marginfi_account)` (the handler does not sort).
pub fn handle_bankruptcy(
    b: &BankHandle,
    signer: Pubkey,
    marginfi_account: Pubkey,
    risk: Vec<AccountMeta>,
) -> Instruction {
    build(
        marginfi::accounts::LendingPoolHandleBankruptcy {
            group: b.group,
            signer,
            bank: b.bank,
            marginfi_account,
            liquidity_vault: b.liquidity_vault,
            insurance_vault: b.insurance_vault,
            insurance_vault_authority: b.insurance_vault_authority,
            token_program: b.token_program,
        },
        marginfi::instruction::LendingPoolHandleBankruptcy {},
        with_mint(b, risk),
    )
}

pub fn configure_bank(b: &BankHandle, admin: Pubkey, bank_config_opt: BankConfigOpt) -> Instruction {
    build(
        marginfi::accounts::LendingPoolConfigureBank { group: b.group, admin, bank: b.bank },
        marginfi::instruction::LendingPoolConfigureBank { bank_config_opt },
        vec![],
    )
}

pub fn configure_bank_interest_only(
    b: &BankHandle,
    delegate_curve_admin: Pubkey,
    interest_rate_config: InterestRateConfigOpt,
) -> Instruction {
    build(
        marginfi::accounts::LendingPoolConfigureBankInterestOnly {
            group: b.group,
            delegate_curve_admin,
            bank: b.bank,
        },
        marginfi::instruction::LendingPoolConfigureBankInterestOnly { interest_rate_config },
        vec![],
    )
}

pub fn configure_bank_limits_only(
    b: &BankHandle,
    delegate_limit_admin: Pubkey,
    deposit_limit: Option<u64>,
    borrow_limit: Option<u64>,
    total_asset_value_init_limit: Option<u64>,
) -> Instruction {
    build(
        marginfi::accounts::LendingPoolConfigureBankLimitsOnly {
            group: b.group,
            delegate_limit_admin,
            bank: b.bank,
        },
        marginfi::instruction::LendingPoolConfigureBankLimitsOnly {
            deposit_limit,
            borrow_limit,
            total_asset_value_init_limit,
        },
        vec![],
    )
}

/// `oracle_account`: passed as the single remaining account the handler validates (omit for Fixed).
pub fn configure_bank_oracle(
    b: &BankHandle,
    admin: Pubkey,
    setup: u8,
    oracle: Pubkey,
    remaining: Vec<AccountMeta>,
) -> Instruction {
    build(
        marginfi::accounts::LendingPoolConfigureBankOracle { group: b.group, admin, bank: b.bank },
        marginfi::instruction::LendingPoolConfigureBankOracle { setup, oracle },
        remaining,
    )
}

pub fn set_fixed_oracle_price(b: &BankHandle, admin: Pubkey, price: WrappedI80F48) -> Instruction {
    build(
        marginfi::accounts::LendingPoolSetFixedOraclePrice { group: b.group, admin, bank: b.bank },
        marginfi::instruction::LendingPoolSetFixedOraclePrice { price },
        vec![],
    )
}

pub fn force_tokenless_repay_complete(b: &BankHandle, risk_admin: Pubkey) -> Instruction {
    build(
        marginfi::accounts::LendingPoolForceTokenlessRepayComplete {
            group: b.group,
            risk_admin,
            bank: b.bank,
        },
        marginfi::instruction::LendingPoolForceTokenlessRepayComplete {},
        vec![],
    )
}

#[allow(clippy::too_many_arguments)]
pub fn group_configure(
    marginfi_group: Pubkey,
    admin: Pubkey,
    new_admin: Pubkey,
    new_emode_admin: Pubkey,
    new_curve_admin: Pubkey,
    new_limit_admin: Pubkey,
    new_emissions_admin: Pubkey,
    new_metadata_admin: Pubkey,
    new_risk_admin: Pubkey,
    emode_max_init_leverage: Option<WrappedI80F48>,
    emode_max_maint_leverage: Option<WrappedI80F48>,
) -> Instruction {
    build(
        marginfi::accounts::MarginfiGroupConfigure { marginfi_group, admin },
        marginfi::instruction::MarginfiGroupConfigure {
            new_admin,
            new_emode_admin,
            new_curve_admin,
            new_limit_admin,
            new_emissions_admin,
            new_metadata_admin,
            new_risk_admin,
            emode_max_init_leverage,
            emode_max_maint_leverage,
        },
        vec![],
    )
}

// ---------------------------------------------------------------------- global fee state / panic

pub fn panic_pause(global_fee_admin: Pubkey) -> Instruction {
    build(
        marginfi::accounts::PanicPause { global_fee_admin, fee_state: fee_state_pda().0 },
        marginfi::instruction::PanicPause {},
        vec![],
    )
}

pub fn panic_unpause(global_fee_admin: Pubkey) -> Instruction {
    build(
        marginfi::accounts::PanicUnpause { global_fee_admin, fee_state: fee_state_pda().0 },
        marginfi::instruction::PanicUnpause {},
        vec![],
    )
}

pub fn panic_unpause_permissionless() -> Instruction {
    build(
        marginfi::accounts::PanicUnpausePermissionless { fee_state: fee_state_pda().0 },
        marginfi::instruction::PanicUnpausePermissionless {},
        vec![],
    )
}

pub fn propagate_fee_state(marginfi_group: Pubkey) -> Instruction {
    build(
        marginfi::accounts::PropagateFee { fee_state: fee_state_pda().0, marginfi_group },
        marginfi::instruction::PropagateFeeState {},
        vec![],
    )
}

pub fn config_group_fee(marginfi_group: Pubkey, global_fee_admin: Pubkey, enable_program_fee: bool) -> Instruction {
    build(
        marginfi::accounts::ConfigGroupFee {
            marginfi_group,
            global_fee_admin,
            fee_state: fee_state_pda().0,
        },
        marginfi::instruction::ConfigGroupFee { enable_program_fee },
        vec![],
    )
}

#[allow(clippy::too_many_arguments)]
pub fn edit_global_fee_state(
    global_fee_admin: Pubkey,
    admin: Pubkey,
    fee_wallet: Pubkey,
    bank_init_flat_sol_fee: u32,
    liquidation_flat_sol_fee: u32,
    program_fee_fixed: WrappedI80F48,
    program_fee_rate: WrappedI80F48,
    liquidation_max_fee: WrappedI80F48,
) -> Instruction {
    build(
        marginfi::accounts::EditFeeState { global_fee_admin, fee_state: fee_state_pda().0 },
        marginfi::instruction::EditGlobalFeeState {
            admin,
            fee_wallet,
            bank_init_flat_sol_fee,
            liquidation_flat_sol_fee,
            program_fee_fixed,
            program_fee_rate,
            liquidation_max_fee,
        },
        vec![],
    )
}

// ---------------------------------------------------------------------- long-name aliases
#[allow(unused_imports)]
pub use self::{
    accrue as lending_pool_accrue_bank_interest, borrow as lending_account_borrow,
    close_balance as lending_account_close_balance, collect_fees as lending_pool_collect_bank_fees,
    configure_bank as lending_pool_configure_bank,
    configure_bank_interest_only as lending_pool_configure_bank_interest_only,
    configure_bank_limits_only as lending_pool_configure_bank_limits_only,
    deposit as lending_account_deposit, end_flashloan as lending_account_end_flashloan,
    handle_bankruptcy as lending_pool_handle_bankruptcy, liquidate as lending_account_liquidate,
    repay as lending_account_repay, set_freeze as marginfi_account_set_freeze,
    start_flashloan as lending_account_start_flashloan, withdraw as lending_account_withdraw,
};

// ---------------------------------------------------------------------- fees destination / emissions

pub fn withdraw_fees_permissionless(b: &BankHandle, fees_destination_account: Pubkey, amount: u64) -> Instruction {
    build(
        marginfi::accounts::LendingPoolWithdrawFeesPermissionless {
            group: b.group,
            bank: b.bank,
            fee_vault: b.fee_vault,
            fee_vault_authority: b.fee_vault_authority,
            fees_destination_account,
            token_program: b.token_program,
        },
        marginfi::instruction::LendingPoolWithdrawFeesPermissionless { amount },
        with_mint(b, vec![]),
    )
}

pub fn update_fees_destination(b: &BankHandle, admin: Pubkey, destination_account: Pubkey) -> Instruction {
    build(
        marginfi::accounts::LendingPoolUpdateFeesDestinationAccount { group: b.group, bank: b.bank, admin, destination_account },
        marginfi::instruction::LendingPoolUpdateFeesDestinationAccount {},
        vec![],
    )
}

pub fn emissions_auth_pda(bank: &Pubkey, mint: &Pubkey) -> (Pubkey, u8) {
    Pubkey::find_program_address(
        &[marginfi_type_crate::constants::EMISSIONS_AUTH_SEED.as_bytes(), bank.as_ref(), mint.as_ref()],
        &marginfi::ID,
    )
}
pub fn emissions_vault_pda(bank: &Pubkey, mint: &Pubkey) -> (Pubkey, u8) {
    Pubkey::find_program_address(
        &[marginfi_type_crate::constants::EMISSIONS_TOKEN_ACCOUNT_SEED.as_bytes(), bank.as_ref(), mint.as_ref()],
        &marginfi::ID,
    )
}

pub fn settle_emissions(b: &BankHandle, marginfi_account: Pubkey) -> Instruction {
    build(
        marginfi::accounts::LendingAccountSettleEmissions { marginfi_account, bank: b.bank },
        marginfi::instruction::LendingAccountSettleEmissions {},
        vec![],
    )
}

#[allow(clippy::too_many_arguments)]
pub fn withdraw_emissions(
    b: &BankHandle,
    marginfi_account: Pubkey,
    authority: Pubkey,
    emissions_mint: Pubkey,
    emissions_vault: Pubkey,
    destination_account: Pubkey,
    token_program: Pubkey,
) -> Instruction {
    build(
        marginfi::accounts::LendingAccountWithdrawEmissions {
            group: b.group,
            marginfi_account,
            authority,
            bank: b.bank,
            emissions_mint,
            emissions_auth: emissions_auth_pda(&b.bank, &emissions_mint).0,
            emissions_vault,
            destination_account,
            token_program,
        },
        marginfi::instruction::LendingAccountWithdrawEmissions {},
        vec![],
    )
}

pub fn withdraw_emissions_permissionless(
    b: &BankHandle,
    marginfi_account: Pubkey,
    emissions_mint: Pubkey,
    emissions_vault: Pubkey,
    destination_account: Pubkey,
    token_program: Pubkey,
) -> Instruction {
    build(
        marginfi::accounts::LendingAccountWithdrawEmissionsPermissionless {
            group: b.group,
            marginfi_account,
            bank: b.bank,
            emissions_mint,
            emissions_auth: emissions_auth_pda(&b.bank, &emissions_mint).0,
            emissions_vault,
            destination_account,
            token_program,
        },
        marginfi::instruction::LendingAccountWithdrawEmissionsPermissionless {},
        vec![],
    )
}

pub fn update_emissions_destination(marginfi_account: Pubkey, authority: Pubkey, destination_account: Pubkey) -> Instruction {
    build(
        marginfi::accounts::MarginfiAccountUpdateEmissionsDestinationAccount { marginfi_account, authority, destination_account },
        marginfi::instruction::MarginfiAccountUpdateEmissionsDestinationAccount {},
        vec![],
    )
}

/// Real `transfer_to_new_account` (new account `init`ed through the System Program CPI stub).
#[allow(clippy::too_many_arguments)]
pub fn transfer_to_new_account(
    group: Pubkey,
    old_marginfi_account: Pubkey,
    new_marginfi_account: Pubkey,
    authority: Pubkey,
    fee_payer: Pubkey,
    new_authority: Pubkey,
    global_fee_wallet: Pubkey,
) -> Instruction {
    build(
        marginfi::accounts::TransferToNewAccount {
            group,
            old_marginfi_account,
            new_marginfi_account,
            authority,
            fee_payer,
            new_authority,
            global_fee_wallet,
            system_program: system_program::ID,
        },
        marginfi::instruction::TransferToNewAccount {},
        vec![],
    )
}

/// Real `lending_pool_setup_emissions` (the emissions token account is `init`ed by the instruction: System Program
/// CreateAccount with the PDA as signer + the token program's InitializeAccount3, both through the CPI stubs).
#[allow(clippy::too_many_arguments)]
pub fn setup_emissions(
    b: &BankHandle,
    delegate_emissions_admin: Pubkey,
    emissions_mint: Pubkey,
    emissions_funding_account: Pubkey,
    token_program: Pubkey,
    emissions_flags: u64,
    emissions_rate: u64,
    total_emissions: u64,
) -> Instruction {
    let (emissions_auth, _) = emissions_auth_pda(&b.bank, &emissions_mint);
    let (emissions_token_account, _) = emissions_vault_pda(&b.bank, &emissions_mint);
    build(
        marginfi::accounts::LendingPoolSetupEmissions {
            group: b.group,
            delegate_emissions_admin,
            bank: b.bank,
            emissions_mint,
            emissions_auth,
            emissions_token_account,
            emissions_funding_account,
            token_program,
            system_program: system_program::ID,
        },
        marginfi::instruction::LendingPoolSetupEmissions { flags: emissions_flags, rate: emissions_rate, total_emissions },
        vec![],
    )
}

/// Real `configure_deleverage_withdrawal_limit` (group admin).
pub fn configure_deleverage_withdrawal_limit(marginfi_group: Pubkey, admin: Pubkey, daily_withdrawal_limit: u32) -> Instruction {
    build(
        marginfi::accounts::ConfigureDeleverageWithdrawalLimit { marginfi_group, admin },
        marginfi::instruction::ConfigureDeleverageWithdrawalLimit { limit: daily_withdrawal_limit },
        vec![],
    )
}

/// The PDA a `transfer_to_new_account_pda` / `marginfi_account_initialize_pda` account lives at.
pub fn marginfi_account_pda(group: &Pubkey, authority: &Pubkey, account_index: u16, third_party_id: u16) -> (Pubkey, u8) {
    Pubkey::find_program_address(
        &[
            marginfi_type_crate::constants::MARGINFI_ACCOUNT_SEED.as_bytes(),
            group.as_ref(),
            authority.as_ref(),
            &account_index.to_le_bytes(),
            &third_party_id.to_le_bytes(),
        ],
        &marginfi::ID,
    )
}

/// Real `transfer_to_new_account_pda` (free-tier third-party id or none).
#[allow(clippy::too_many_arguments)]
pub fn transfer_to_new_account_pda(
    group: Pubkey,
    old_marginfi_account: Pubkey,
    authority: Pubkey,
    fee_payer: Pubkey,
    new_authority: Pubkey,
    global_fee_wallet: Pubkey,
    account_index: u16,
    third_party_id: Option<u16>,
) -> Instruction {
    let (new_marginfi_account, _) = marginfi_account_pda(&group, &new_authority, account_index, third_party_id.unwrap_or(0));
    build(
        marginfi::accounts::TransferToNewAccountPda {
            group,
            old_marginfi_account,
            new_marginfi_account,
            authority,
            fee_payer,
            new_authority,
            global_fee_wallet,
            instructions_sysvar: sysvar::instructions::ID,
            system_program: system_program::ID,
        },
        marginfi::instruction::TransferToNewAccountPda { account_index, third_party_id },
        vec![],
    )
}
