//! Syscall stubs for the in-memory `World`: settable Clock/Rent, silent logs, stack height, and a
//! CPI dispatcher (`sol_invoke_signed`) that forwards to the REAL spl-token / spl-token-2022
//! processors and implements the handful of System Program instructions marginfi uses.
//!
//! Only one `SyscallStubs` can be active per process: `install()` supersedes `crate::stubs`.
use anchor_lang::prelude::{AccountInfo, Pubkey};
use solana_program::{
    clock::Clock,
    entrypoint::ProgramResult,
    instruction::Instruction,
    program_error::ProgramError,
    program_stubs::{set_syscall_stubs, SyscallStubs},
    rent::Rent,
    system_program,
};
use std::sync::atomic::{AtomicBool, AtomicI64, AtomicU64, Ordering};

pub static CLOCK_TS: AtomicI64 = AtomicI64::new(0);
pub static CLOCK_SLOT: AtomicU64 = AtomicU64::new(0);
pub static CLOCK_EPOCH: AtomicU64 = AtomicU64::new(0);
/// 1 == TRANSACTION_LEVEL_STACK_HEIGHT (top-level instruction); CPI callee sees +1.
pub static STACK_HEIGHT: AtomicU64 = AtomicU64::new(1);
/// Number of CPIs performed since the last `reset_counters()` (diagnostics only).
pub static CPI_COUNT: AtomicU64 = AtomicU64::new(0);
/// When true, program logs are left on stdout (debugging aid).
pub static VERBOSE: AtomicBool = AtomicBool::new(false);

pub fn set_clock(ts: i64, slot: u64) {
    CLOCK_TS.store(ts, Ordering::SeqCst);
    CLOCK_SLOT.store(slot, Ordering::SeqCst);
}

pub fn set_verbose(v: bool) {
    VERBOSE.store(v, Ordering::SeqCst);
}

pub fn reset_for_top_level() {
    STACK_HEIGHT.store(1, Ordering::SeqCst);
}

fn clock_now() -> Clock {
    Clock {
        slot: CLOCK_SLOT.load(Ordering::SeqCst),
        epoch_start_timestamp: 0,
        epoch: CLOCK_EPOCH.load(Ordering::SeqCst),
        leader_schedule_epoch: 0,
        unix_timestamp: CLOCK_TS.load(Ordering::SeqCst),
    }
}

struct WorldStubs;

/// RAII guard: bump the stack height for the duration of a CPI (restored on unwind too).
struct HeightGuard(u64);
impl HeightGuard {
    fn enter() -> Self {
        let prev = STACK_HEIGHT.fetch_add(1, Ordering::SeqCst);
        HeightGuard(prev)
    }
}
impl Drop for HeightGuard {
    fn drop(&mut self) {
        STACK_HEIGHT.store(self.0, Ordering::SeqCst);
    }
}

impl SyscallStubs for WorldStubs {
    // NOTE: with solana 2.1 `msg!` prints straight to stdout and does not come through here (see
    // `StdoutMute` below); only legacy `solana_program::log::sol_log` callers do.
    fn sol_log(&self, message: &str) {
        if VERBOSE.load(Ordering::Relaxed) {
            println!("{}", message);
        }
    }
    fn sol_log_data(&self, _fields: &[&[u8]]) {}
    fn sol_log_compute_units(&self) {}
    fn sol_remaining_compute_units(&self) -> u64 {
        1_400_000
    }
    fn sol_get_stack_height(&self) -> u64 {
        STACK_HEIGHT.load(Ordering::SeqCst)
    }
    fn sol_get_clock_sysvar(&self, var_addr: *mut u8) -> u64 {
        unsafe {
            std::ptr::write_unaligned(var_addr as *mut Clock, clock_now());
        }
        0
    }
    fn sol_get_rent_sysvar(&self, var_addr: *mut u8) -> u64 {
        unsafe {
            std::ptr::write_unaligned(var_addr as *mut Rent, Rent::default());
        }
        0
    }
    fn sol_get_return_data(&self) -> Option<(Pubkey, Vec<u8>)> {
        None
    }
    fn sol_set_return_data(&self, _data: &[u8]) {}

    fn sol_invoke_signed(
        &self,
        instruction: &Instruction,
        account_infos: &[AccountInfo],
        signers_seeds: &[&[&[u8]]],
    ) -> ProgramResult {
        CPI_COUNT.fetch_add(1, Ordering::Relaxed);
        // The only caller program in this world is marginfi.
        let pda_signers: Vec<Pubkey> = signers_seeds
            .iter()
            .filter_map(|seeds| Pubkey::create_program_address(seeds, &marginfi::ID).ok())
            .collect();

        // Re-order (and re-flag) the caller's account infos per the callee instruction's metas, as the
        // runtime does; enforce the privilege-escalation rules.
        let mut callee_infos: Vec<AccountInfo> = Vec::with_capacity(instruction.accounts.len());
        for meta in instruction.accounts.iter() {
            let src = account_infos
                .iter()
                .find(|ai| *ai.key == meta.pubkey)
                .ok_or(ProgramError::NotEnoughAccountKeys)?;
            let mut ai = src.clone(); // shares the Rc<RefCell<..>> lamports/data with the caller
            if meta.is_signer && !(src.is_signer || pda_signers.contains(&meta.pubkey)) {
                // runtime: "signer privilege escalated"
                return Err(ProgramError::MissingRequiredSignature);
            }
            if meta.is_writable && !src.is_writable {
                // runtime: "writable privilege escalated"
                return Err(ProgramError::Immutable);
            }
            ai.is_signer = meta.is_signer;
            ai.is_writable = meta.is_writable;
            callee_infos.push(ai);
        }

        let _guard = HeightGuard::enter();
        let pid = instruction.program_id;
        if pid == spl_token::ID {
            spl_token::processor::Processor::process(&pid, &callee_infos, &instruction.data)
        } else if pid == spl_token_2022::ID {
            spl_token_2022::processor::Processor::process(&pid, &callee_infos, &instruction.data)
        } else if pid == system_program::ID {
            system_process(&callee_infos, &instruction.data)
        } else if pid == marginfi::constants::KAMINO_PROGRAM_ID {
            kamino_process(&callee_infos, &instruction.data)
        } else if pid == marginfi::constants::DRIFT_PROGRAM_ID {
            drift_process(&callee_infos, &instruction.data)
        } else if pid == marginfi::constants::SOLEND_PROGRAM_ID {
            solend_process(&callee_infos, &instruction.data)
        } else {
            Err(ProgramError::IncorrectProgramId)
        }
    }
}

// ---------------------------------------------------------------------------------------------
// Kamino Lend stand-in. NOT the code under test and not a model of Kamino's internals: the two instructions marginfi calls,
// with Kamino's documented effect on the accounts marginfi reads afterwards (obligation collateral, reserve supplies, token
// balances), computed with exact integer arithmetic: collateral = floor(liquidity x total collateral / total liquidity),
// liquidity = floor(collateral x total liquidity / total collateral), total liquidity = available + borrowed - fees
// (the U68F60 fields exactly). A test can make it misbehave by a few units (KAMINO_SKEW_*) to see whether marginfi's own
// after-the-fact checks notice.
// ---------------------------------------------------------------------------------------------
/// added to the collateral the stand-in credits to / takes from the obligation
pub static KAMINO_SKEW_COLLATERAL: AtomicI64 = AtomicI64::new(0);
/// added to the liquidity the stand-in pays out on a withdrawal
pub static KAMINO_SKEW_LIQUIDITY: AtomicI64 = AtomicI64::new(0);
pub static KAMINO_CALLS: AtomicU64 = AtomicU64::new(0);

fn tok_amount_adjust(ai: &AccountInfo, delta: i128) -> ProgramResult {
    use solana_program::program_pack::Pack;
    let mut d = ai.try_borrow_mut_data()?;
    if d.len() < spl_token::state::Account::LEN {
        return Err(ProgramError::InvalidAccountData);
    }
    let mut a = spl_token::state::Account::unpack_from_slice(&d[..spl_token::state::Account::LEN])?;
    let v = a.amount as i128 + delta;
    if v < 0 || v > u64::MAX as i128 {
        return Err(ProgramError::InsufficientFunds);
    }
    a.amount = v as u64;
    spl_token::state::Account::pack_into_slice(&a, &mut d[..spl_token::state::Account::LEN]);
    Ok(())
}

fn kamino_process(accounts: &[AccountInfo], data: &[u8]) -> ProgramResult {
    use kamino_mocks::state::{MinimalObligation, MinimalReserve};
    const DEPOSIT: [u8; 8] = [216, 224, 191, 27, 204, 151, 102, 175];
    const WITHDRAW: [u8; 8] = [235, 52, 119, 152, 149, 197, 20, 7];
    KAMINO_CALLS.fetch_add(1, Ordering::Relaxed);
    if data.len() < 16 || accounts.len() < 14 {
        return Err(ProgramError::InvalidInstructionData);
    }
    let amount = rd_u64(data, 8)? as i128;
    let (owner, obligation, market, reserve) = (&accounts[0], &accounts[1], &accounts[2], &accounts[4]);
    let user_liq = &accounts[9];
    let is_deposit = data[..8] == DEPOSIT;
    if !is_deposit && data[..8] != WITHDRAW {
        return Err(ProgramError::InvalidInstructionData);
    }
    let supply_vault = if is_deposit { &accounts[6] } else { &accounts[8] };
    if !owner.is_signer {
        return Err(ProgramError::MissingRequiredSignature);
    }
    if *obligation.owner != marginfi::constants::KAMINO_PROGRAM_ID || *reserve.owner != marginfi::constants::KAMINO_PROGRAM_ID {
        return Err(ProgramError::IllegalOwner);
    }
    let mut od = obligation.try_borrow_mut_data()?;
    let mut rd = reserve.try_borrow_mut_data()?;
    let ob: &mut MinimalObligation = bytemuck::from_bytes_mut(&mut od[8..8 + std::mem::size_of::<MinimalObligation>()]);
    let rs: &mut MinimalReserve = bytemuck::from_bytes_mut(&mut rd[8..8 + std::mem::size_of::<MinimalReserve>()]);
    if ob.owner != *owner.key || ob.deposits[0].deposit_reserve != *reserve.key || ob.lending_market != *market.key
        || rs.lending_market != *market.key || rs.supply_vault != *supply_vault.key
    {
        return Err(ProgramError::Custom(6006)); // some Kamino "invalid account input"
    }
    if rs.slot < CLOCK_SLOT.load(Ordering::SeqCst) {
        return Err(ProgramError::Custom(6009)); // ReserveStale
    }
    // exact supplies at scale 2^60
    let sf = |b: [u8; 16]| -> i128 { u128::from_le_bytes(b) as i128 };
    let total_liq_sf: i128 = ((rs.available_amount as i128) << 60) + sf(rs.borrowed_amount_sf) - sf(rs.accumulated_protocol_fees_sf)
        - sf(rs.accumulated_referrer_fees_sf) - sf(rs.pending_referrer_fees_sf);
    let total_col: i128 = rs.mint_total_supply as i128;
    use num_bigint::BigInt;
    let to_i128 = |b: BigInt| -> Result<i128, ProgramError> { i128::try_from(b).map_err(|_| ProgramError::ArithmeticOverflow) };
    if is_deposit {
        let col = if total_col == 0 || total_liq_sf <= 0 { amount } else {
            to_i128((BigInt::from(amount) << 60u32) * BigInt::from(total_col) / BigInt::from(total_liq_sf))?
        } + KAMINO_SKEW_COLLATERAL.load(Ordering::SeqCst) as i128;
        if col < 0 { return Err(ProgramError::ArithmeticOverflow); }
        tok_amount_adjust(user_liq, -amount)?;
        tok_amount_adjust(supply_vault, amount)?;
        rs.available_amount = u64::try_from(rs.available_amount as i128 + amount).map_err(|_| ProgramError::ArithmeticOverflow)?;
        rs.mint_total_supply = u64::try_from(total_col + col).map_err(|_| ProgramError::ArithmeticOverflow)?;
        ob.deposits[0].deposited_amount = u64::try_from(ob.deposits[0].deposited_amount as i128 + col).map_err(|_| ProgramError::ArithmeticOverflow)?;
    } else {
        let col = amount + KAMINO_SKEW_COLLATERAL.load(Ordering::SeqCst) as i128;
        if col < 0 || col > ob.deposits[0].deposited_amount as i128 || total_col == 0 {
            return Err(ProgramError::InsufficientFunds);
        }
        let liq = to_i128((BigInt::from(amount) * BigInt::from(total_liq_sf) / BigInt::from(total_col)) >> 60u32)? + KAMINO_SKEW_LIQUIDITY.load(Ordering::SeqCst) as i128;
        if liq < 0 || liq > rs.available_amount as i128 { return Err(ProgramError::InsufficientFunds); }
        tok_amount_adjust(supply_vault, -liq)?;
        tok_amount_adjust(user_liq, liq)?;
        rs.available_amount = (rs.available_amount as i128 - liq) as u64;
        rs.mint_total_supply = (total_col - col) as u64;
        ob.deposits[0].deposited_amount = (ob.deposits[0].deposited_amount as i128 - col) as u64;
    }
    Ok(())
}

// ---------------------------------------------------------------------------------------------
// Drift stand-in (same status as the Kamino one): update_spot_market_cumulative_interest, deposit, withdraw with Drift's
// documented effect on the accounts marginfi reads afterwards. Scaled balances follow Drift's `get_spot_balance`:
// balance = floor(amount x 10^(19 - decimals) / cumulative_deposit_interest), plus one when rounding up (withdrawals) and
// the result is not zero; a withdrawal releases exactly the requested token amount. DRIFT_SKEW_* make it misbehave.
// ---------------------------------------------------------------------------------------------
pub static DRIFT_SKEW_SCALED: AtomicI64 = AtomicI64::new(0);
pub static DRIFT_SKEW_TOKENS: AtomicI64 = AtomicI64::new(0);

fn drift_process(accounts: &[AccountInfo], data: &[u8]) -> ProgramResult {
    use drift_mocks::state::{MinimalSpotMarket, MinimalUser, SpotBalanceType};
    const DEPOSIT: [u8; 8] = [242, 35, 198, 137, 82, 225, 242, 182];
    const WITHDRAW: [u8; 8] = [183, 18, 70, 156, 148, 109, 161, 34];
    const UPDATE: [u8; 8] = [39, 166, 139, 243, 158, 165, 155, 225];
    if data.len() < 8 {
        return Err(ProgramError::InvalidInstructionData);
    }
    let drift = marginfi::constants::DRIFT_PROGRAM_ID;
    if data[..8] == UPDATE {
        let market = accounts.get(1).ok_or(ProgramError::NotEnoughAccountKeys)?;
        if *market.owner != drift { return Err(ProgramError::IllegalOwner); }
        let mut md = market.try_borrow_mut_data()?;
        let m: &mut MinimalSpotMarket = bytemuck::from_bytes_mut(&mut md[8..8 + std::mem::size_of::<MinimalSpotMarket>()]);
        m.last_interest_ts = CLOCK_TS.load(Ordering::SeqCst) as u64;
        return Ok(());
    }
    let is_deposit = data[..8] == DEPOSIT;
    if !is_deposit && data[..8] != WITHDRAW {
        return Err(ProgramError::InvalidInstructionData);
    }
    if data.len() < 8 + 2 + 8 + 1 { return Err(ProgramError::InvalidInstructionData); }
    let market_index = u16::from_le_bytes([data[8], data[9]]);
    let amount = rd_u64(data, 10)? as i128;
    let named = if is_deposit { 7 } else { 8 };
    if accounts.len() < named + 1 { return Err(ProgramError::NotEnoughAccountKeys); }
    let (user, authority, market_vault) = (&accounts[1], &accounts[3], &accounts[4]);
    let user_tok = if is_deposit { &accounts[5] } else { &accounts[6] };
    if !authority.is_signer { return Err(ProgramError::MissingRequiredSignature); }
    // the spot market is among the remaining accounts: the one owned by Drift with the right discriminator and index
    let market = accounts[named..]
        .iter()
        .find(|a| *a.owner == drift && a.data_len() == 8 + std::mem::size_of::<MinimalSpotMarket>() && {
            let d = a.try_borrow_data().unwrap();
            let m: &MinimalSpotMarket = bytemuck::from_bytes(&d[8..8 + std::mem::size_of::<MinimalSpotMarket>()]);
            m.market_index == market_index
        })
        .ok_or(ProgramError::Custom(6098))?; // spot market not found among the remaining accounts
    if *user.owner != drift { return Err(ProgramError::IllegalOwner); }
    let mut ud = user.try_borrow_mut_data()?;
    let mut md = market.try_borrow_mut_data()?;
    let u: &mut MinimalUser = bytemuck::from_bytes_mut(&mut ud[8..8 + std::mem::size_of::<MinimalUser>()]);
    let m: &mut MinimalSpotMarket = bytemuck::from_bytes_mut(&mut md[8..8 + std::mem::size_of::<MinimalSpotMarket>()]);
    if u.authority != *authority.key || m.vault != *market_vault.key { return Err(ProgramError::Custom(6099)); }
    if (m.last_interest_ts as i64) < CLOCK_TS.load(Ordering::SeqCst) { return Err(ProgramError::Custom(6100)); } // stale market
    let cum = u128::from_le_bytes(m.cumulative_deposit_interest) as i128;
    if cum <= 0 || m.decimals > 19 { return Err(ProgramError::ArithmeticOverflow); }
    use num_bigint::BigInt;
    let prec = BigInt::from(10u8).pow(19 - m.decimals);
    let floor_scaled = i128::try_from(BigInt::from(amount) * &prec / BigInt::from(cum)).map_err(|_| ProgramError::ArithmeticOverflow)?;
    let idx = if market_index == 0 { 0 } else { 1 };
    let pos = &mut u.spot_positions[idx];
    let dep_total = u128::from_le_bytes(m.deposit_balance) as i128;
    if is_deposit {
        let scaled = floor_scaled + DRIFT_SKEW_SCALED.load(Ordering::SeqCst) as i128;
        if scaled < 0 { return Err(ProgramError::ArithmeticOverflow); }
        tok_amount_adjust(user_tok, -amount)?;
        tok_amount_adjust(market_vault, amount)?;
        pos.scaled_balance = u64::try_from(pos.scaled_balance as i128 + scaled).map_err(|_| ProgramError::ArithmeticOverflow)?;
        pos.market_index = market_index;
        pos.balance_type = SpotBalanceType::Deposit;
        pos.cumulative_deposits = pos.cumulative_deposits.saturating_add(amount as i64);
        m.deposit_balance = ((dep_total + scaled) as u128).to_le_bytes();
    } else {
        let scaled = floor_scaled + if floor_scaled != 0 { 1 } else { 0 } + DRIFT_SKEW_SCALED.load(Ordering::SeqCst) as i128;
        if scaled < 0 || scaled > pos.scaled_balance as i128 || pos.market_index != market_index {
            return Err(ProgramError::InsufficientFunds);
        }
        let out = amount + DRIFT_SKEW_TOKENS.load(Ordering::SeqCst) as i128;
        if out < 0 { return Err(ProgramError::InsufficientFunds); }
        tok_amount_adjust(market_vault, -out)?;
        tok_amount_adjust(user_tok, out)?;
        pos.scaled_balance = (pos.scaled_balance as i128 - scaled) as u64;
        pos.cumulative_deposits = if pos.scaled_balance == 0 { 0 } else { pos.cumulative_deposits.saturating_sub(amount as i64) };
        m.deposit_balance = ((dep_total - scaled).max(0) as u128).to_le_bytes();
    }
    Ok(())
}

// ---------------------------------------------------------------------------------------------
// Solend stand-in (same status as the Kamino and Drift ones): deposit_reserve_liquidity_and_obligation_collateral (tag 14) and
// withdraw_obligation_collateral_and_redeem_reserve_collateral (tag 15). Exchange rate = total collateral / total liquidity
// with total liquidity = available + borrowed - protocol fees (the WAD fields exactly); collateral and liquidity amounts floor.
// The obligation is Solend's packed layout (first deposit at byte 204: reserve key, amount at 236).
// ---------------------------------------------------------------------------------------------
/// when set, the stand-in does not refuse a reserve last refreshed in an earlier slot (a venue that refreshes on its own):
/// marginfi's own stale-reserve constraint is then the only guard
pub static SOLEND_IGNORES_STALENESS: AtomicBool = AtomicBool::new(false);
pub static SOLEND_SKEW_COLLATERAL: AtomicI64 = AtomicI64::new(0);
pub static SOLEND_SKEW_LIQUIDITY: AtomicI64 = AtomicI64::new(0);

fn solend_process(accounts: &[AccountInfo], data: &[u8]) -> ProgramResult {
    use solend_mocks::state::SolendMinimalReserve;
    if data.len() < 9 { return Err(ProgramError::InvalidInstructionData); }
    let amount = rd_u64(data, 1)? as i128;
    let solend = marginfi::constants::SOLEND_PROGRAM_ID;
    let (is_deposit, reserve, obligation, owner, user_liq, supply, market) = match data[0] {
        14 => { if accounts.len() < 14 { return Err(ProgramError::NotEnoughAccountKeys); } (true, &accounts[2], &accounts[8], &accounts[9], &accounts[0], &accounts[3], &accounts[5]) }
        15 => { if accounts.len() < 13 { return Err(ProgramError::NotEnoughAccountKeys); } (false, &accounts[2], &accounts[3], &accounts[9], &accounts[6], &accounts[8], &accounts[4]) }
        _ => return Err(ProgramError::InvalidInstructionData),
    };
    if !owner.is_signer { return Err(ProgramError::MissingRequiredSignature); }
    if *reserve.owner != solend || *obligation.owner != solend { return Err(ProgramError::IllegalOwner); }
    let mut od = obligation.try_borrow_mut_data()?;
    let mut rd = reserve.try_borrow_mut_data()?;
    if od.len() < 1300 || od[0] != 1 || rd.len() < 1 + std::mem::size_of::<SolendMinimalReserve>() { return Err(ProgramError::InvalidAccountData); }
    let rs: &mut SolendMinimalReserve = bytemuck::from_bytes_mut(&mut rd[1..1 + std::mem::size_of::<SolendMinimalReserve>()]);
    let ob_market = Pubkey::new_from_array(od[10..42].try_into().unwrap());
    let ob_owner = Pubkey::new_from_array(od[42..74].try_into().unwrap());
    let ob_reserve = Pubkey::new_from_array(od[204..236].try_into().unwrap());
    let (rs_market, rs_supply, rs_slot) = (rs.lending_market, rs.liquidity_supply_pubkey, rs.last_update_slot);
    if ob_owner != *owner.key || ob_reserve != *reserve.key || ob_market != *market.key || rs_market != *market.key || rs_supply != *supply.key {
        return Err(ProgramError::Custom(6006));
    }
    if rs_slot < CLOCK_SLOT.load(Ordering::SeqCst) && !SOLEND_IGNORES_STALENESS.load(Ordering::SeqCst) { return Err(ProgramError::Custom(6009)); } // reserve stale
    use num_bigint::BigInt;
    let wad = BigInt::from(1_000_000_000_000_000_000u64);
    let avail = rs.liquidity_available_amount;
    let total_liq_w: BigInt = BigInt::from(avail) * &wad + BigInt::from(u128::from_le_bytes(rs.liquidity_borrowed_amount_wads)) - BigInt::from(u128::from_le_bytes(rs.liquidity_accumulated_protocol_fees_wads));
    let total_col = rs.collateral_mint_total_supply as i128;
    let held = u64::from_le_bytes(od[236..244].try_into().unwrap()) as i128;
    let to_i128 = |b: BigInt| -> Result<i128, ProgramError> { i128::try_from(b).map_err(|_| ProgramError::ArithmeticOverflow) };
    if is_deposit {
        let col = if total_col == 0 || total_liq_w <= BigInt::from(0) { amount } else { to_i128(BigInt::from(amount) * &wad * BigInt::from(total_col) / &total_liq_w)? }
            + SOLEND_SKEW_COLLATERAL.load(Ordering::SeqCst) as i128;
        if col < 0 { return Err(ProgramError::ArithmeticOverflow); }
        tok_amount_adjust(user_liq, -amount)?;
        tok_amount_adjust(supply, amount)?;
        rs.liquidity_available_amount = u64::try_from(avail as i128 + amount).map_err(|_| ProgramError::ArithmeticOverflow)?;
        rs.collateral_mint_total_supply = u64::try_from(total_col + col).map_err(|_| ProgramError::ArithmeticOverflow)?;
        od[236..244].copy_from_slice(&u64::try_from(held + col).map_err(|_| ProgramError::ArithmeticOverflow)?.to_le_bytes());
    } else {
        let col = amount + SOLEND_SKEW_COLLATERAL.load(Ordering::SeqCst) as i128;
        if col < 0 || col > held || total_col == 0 { return Err(ProgramError::InsufficientFunds); }
        let liq = to_i128(BigInt::from(amount) * &total_liq_w / (BigInt::from(total_col) * &wad))? + SOLEND_SKEW_LIQUIDITY.load(Ordering::SeqCst) as i128;
        if liq < 0 || liq > avail as i128 { return Err(ProgramError::InsufficientFunds); }
        tok_amount_adjust(supply, -liq)?;
        tok_amount_adjust(user_liq, liq)?;
        rs.liquidity_available_amount = (avail as i128 - liq) as u64;
        rs.collateral_mint_total_supply = (total_col - col) as u64;
        od[236..244].copy_from_slice(&((held - col) as u64).to_le_bytes());
    }
    Ok(())
}

fn rd_u32(d: &[u8], o: usize) -> Result<u32, ProgramError> {
    d.get(o..o + 4)
        .map(|b| u32::from_le_bytes(b.try_into().unwrap()))
        .ok_or(ProgramError::InvalidInstructionData)
}
fn rd_u64(d: &[u8], o: usize) -> Result<u64, ProgramError> {
    d.get(o..o + 8)
        .map(|b| u64::from_le_bytes(b.try_into().unwrap()))
        .ok_or(ProgramError::InvalidInstructionData)
}
fn rd_pk(d: &[u8], o: usize) -> Result<Pubkey, ProgramError> {
    d.get(o..o + 32)
        .map(|b| Pubkey::new_from_array(b.try_into().unwrap()))
        .ok_or(ProgramError::InvalidInstructionData)
}

fn sys_transfer(from: &AccountInfo, to: &AccountInfo, lamports: u64) -> ProgramResult {
    if !from.is_signer {
        return Err(ProgramError::MissingRequiredSignature);
    }
    if !from.data_is_empty() {
        return Err(ProgramError::InvalidArgument); // "Transfer: `from` must not carry data"
    }
    if *from.owner != system_program::ID {
        return Err(ProgramError::InvalidAccountOwner);
    }
    if from.lamports() < lamports {
        return Err(ProgramError::Custom(1)); // SystemError::ResultWithNegativeLamports
    }
    if from.key == to.key {
        return Ok(());
    }
    **from.try_borrow_mut_lamports()? -= lamports;
    let mut to_l = to.try_borrow_mut_lamports()?;
    **to_l = to_l.checked_add(lamports).ok_or(ProgramError::ArithmeticOverflow)?;
    Ok(())
}

fn sys_allocate(acct: &AccountInfo, space: u64) -> ProgramResult {
    if !acct.is_signer {
        return Err(ProgramError::MissingRequiredSignature);
    }
    if !acct.data_is_empty() || *acct.owner != system_program::ID {
        return Err(ProgramError::Custom(0)); // SystemError::AccountAlreadyInUse
    }
    if space > 10 * 1024 * 1024 {
        return Err(ProgramError::Custom(3)); // SystemError::InvalidAccountDataLength
    }
    acct.realloc(space as usize, true)
}

fn sys_assign(acct: &AccountInfo, owner: &Pubkey) -> ProgramResult {
    if acct.owner == owner {
        return Ok(());
    }
    if !acct.is_signer {
        return Err(ProgramError::MissingRequiredSignature);
    }
    if *acct.owner != system_program::ID {
        return Err(ProgramError::IllegalOwner);
    }
    acct.assign(owner);
    Ok(())
}

/// Minimal System Program: CreateAccount(0), Assign(1), Transfer(2), Allocate(8).
fn system_process(accounts: &[AccountInfo], data: &[u8]) -> ProgramResult {
    let tag = rd_u32(data, 0)?;
    match tag {
        0 => {
            let lamports = rd_u64(data, 4)?;
            let space = rd_u64(data, 12)?;
            let owner = rd_pk(data, 20)?;
            let from = accounts.first().ok_or(ProgramError::NotEnoughAccountKeys)?;
            let to = accounts.get(1).ok_or(ProgramError::NotEnoughAccountKeys)?;
            if to.lamports() > 0 {
                return Err(ProgramError::Custom(0)); // AccountAlreadyInUse
            }
            sys_allocate(to, space)?;
            sys_assign(to, &owner)?;
            sys_transfer(from, to, lamports)
        }
        1 => {
            let owner = rd_pk(data, 4)?;
            let acct = accounts.first().ok_or(ProgramError::NotEnoughAccountKeys)?;
            sys_assign(acct, &owner)
        }
        2 => {
            let lamports = rd_u64(data, 4)?;
            let from = accounts.first().ok_or(ProgramError::NotEnoughAccountKeys)?;
            let to = accounts.get(1).ok_or(ProgramError::NotEnoughAccountKeys)?;
            sys_transfer(from, to, lamports)
        }
        8 => {
            let space = rd_u64(data, 4)?;
            let acct = accounts.first().ok_or(ProgramError::NotEnoughAccountKeys)?;
            sys_allocate(acct, space)
        }
        _ => Err(ProgramError::InvalidInstructionData),
    }
}

/// Install the world stubs (supersedes any previously installed `SyscallStubs`).
pub fn install() {
    set_syscall_stubs(Box::new(WorldStubs));
    INSTALLED.store(true, Ordering::SeqCst);
}

static INSTALLED: AtomicBool = AtomicBool::new(false);

/// Install once per process (called by `World::exec_tx`). NOTE: a later call to some other
/// `set_syscall_stubs` (e.g. `crate::stubs::install()`) silently supersedes these stubs; call
/// `world::install_stubs()` again after that.
pub fn ensure_installed() {
    if !INSTALLED.load(Ordering::SeqCst) {
        install();
    }
}

// ---------------------------------------------------------------------------------------------
// Log silencing. In solana 2.1 `msg!` (crate `solana-msg`) does a plain `println!` on non-BPF
// targets and never reaches `SyscallStubs::sol_log`, so the only way to keep program logs off our
// stdout is to point fd 1 at /dev/null while the program runs.
// ---------------------------------------------------------------------------------------------

/// When true (default) fd 1 is redirected to /dev/null for the duration of each instruction.
pub static MUTE_STDOUT: AtomicBool = AtomicBool::new(true);

pub fn set_mute_stdout(v: bool) {
    MUTE_STDOUT.store(v, Ordering::SeqCst);
}

extern "C" {
    fn dup(fd: i32) -> i32;
    fn dup2(old: i32, new: i32) -> i32;
    fn open(path: *const std::os::raw::c_char, flags: i32, ...) -> i32;
}

static SAVED_STDOUT: std::sync::atomic::AtomicI32 = std::sync::atomic::AtomicI32::new(-1);
static DEVNULL: std::sync::atomic::AtomicI32 = std::sync::atomic::AtomicI32::new(-1);

/// RAII: program logs are discarded while this guard lives (no-op when verbose / unmuted).
pub struct StdoutMute {
    active: bool,
}

impl StdoutMute {
    pub fn new() -> Self {
        if !MUTE_STDOUT.load(Ordering::Relaxed) || VERBOSE.load(Ordering::Relaxed) {
            return StdoutMute { active: false };
        }
        use std::io::Write;
        let _ = std::io::stdout().flush();
        unsafe {
            if SAVED_STDOUT.load(Ordering::SeqCst) < 0 {
                let saved = dup(1);
                let null = open(b"/dev/null\0".as_ptr() as *const std::os::raw::c_char, 1 /* O_WRONLY */);
                if saved < 0 || null < 0 {
                    return StdoutMute { active: false };
                }
                SAVED_STDOUT.store(saved, Ordering::SeqCst);
                DEVNULL.store(null, Ordering::SeqCst);
            }
            dup2(DEVNULL.load(Ordering::SeqCst), 1);
        }
        StdoutMute { active: true }
    }
}

impl Drop for StdoutMute {
    fn drop(&mut self) {
        if self.active {
            use std::io::Write;
            let _ = std::io::stdout().flush();
            unsafe {
                dup2(SAVED_STDOUT.load(Ordering::SeqCst), 1);
            }
        }
    }
}
