//! A small in-memory Solana "world" that runs the REAL marginfi program in-process through the
//! Anchor-generated dispatcher `marginfi::entry`.
//!
//! * `World` is a plain account store (`BTreeMap<Pubkey, Acct>`) plus a clock; it is `Clone`
//!   (snapshot / rollback).
//! * `World::exec` / `World::exec_tx` execute instructions built with Anchor's client types
//!   (`marginfi::accounts::*` + `marginfi::instruction::*`), with runtime-like atomicity, the
//!   Instructions sysvar, duplicate-account aliasing and a read-only-account check.
//! * CPI goes through `world::stubs` to the real spl-token / spl-token-2022 processors.
//! * `fixtures` fabricates accounts (fee state, group, mints, token accounts, banks, oracles, users),
//!   `ix` has thin instruction builders, `selftest` exercises everything end to end.
#![allow(dead_code)]

pub mod fixtures;
pub mod ix;
pub mod selftest;
pub mod stubs;

use anchor_lang::prelude::{AccountInfo, Pubkey};
use solana_program::{
    bpf_loader,
    instruction::Instruction,
    program_error::ProgramError,
    system_program,
    sysvar::instructions::{
        construct_instructions_data, store_current_index, BorrowedAccountMeta, BorrowedInstruction,
        ID as IX_SYSVAR_ID,
    },
};
use std::collections::BTreeMap;

#[allow(unused_imports)]
pub use fixtures::{BankHandle, TokenKind};
pub use selftest::selftest;

/// `solana_program::entrypoint::MAX_PERMITTED_DATA_INCREASE`
const MAX_PERMITTED_DATA_INCREASE: usize = 10 * 1024;

/// Install the world's syscall stubs (supersedes `crate::stubs::install()`).
pub fn install_stubs() {
    stubs::install();
}

#[derive(Clone, Debug, PartialEq, Eq)]
pub struct Acct {
    pub lamports: u64,
    pub data: Vec<u8>,
    pub owner: Pubkey,
    pub executable: bool,
}

impl Acct {
    pub fn empty_system() -> Self {
        Acct { lamports: 0, data: Vec::new(), owner: system_program::ID, executable: false }
    }
}

#[derive(Clone, Debug, PartialEq, Eq)]
pub enum ExecErr {
    /// `ProgramError::Custom(n)`: Anchor framework errors (2000..5000) and `MarginfiError` (6000+),
    /// also custom codes of CPI callees (e.g. spl-token `TokenError` as small numbers).
    Custom(u32),
    /// Any other `ProgramError` (Debug-formatted), or a runtime rule violated by the harness
    /// (`"readonly-modified"`, `"unknown-program"`).
    Program(String),
    /// The program panicked (on chain: the transaction aborts).
    Panic,
}

impl ExecErr {
    pub fn code(&self) -> Option<u32> {
        match self {
            ExecErr::Custom(n) => Some(*n),
            _ => None,
        }
    }
}

impl std::fmt::Display for ExecErr {
    fn fmt(&self, f: &mut std::fmt::Formatter<'_>) -> std::fmt::Result {
        match self {
            ExecErr::Custom(n) => write!(f, "Custom({})", n),
            ExecErr::Program(s) => write!(f, "Program({})", s),
            ExecErr::Panic => write!(f, "Panic"),
        }
    }
}

#[derive(Clone)]
pub struct World {
    pub accounts: BTreeMap<Pubkey, Acct>,
    pub clock_ts: i64,
    pub slot: u64,
    /// Counter for deterministic key generation (`new_key`).
    pub key_counter: u64,
    /// Number of successfully executed top-level instructions (diagnostics).
    pub ix_ok: u64,
    /// Number of failed top-level instructions (diagnostics).
    pub ix_err: u64,
}

impl Default for World {
    fn default() -> Self {
        Self::new()
    }
}

/// One account laid out the way the BPF loader serialises it, so that `AccountInfo::realloc`
/// (writes the length at `data_ptr - 8`, reads the original length at `key_ptr - 4`) and
/// `AccountInfo::assign` (writes through the `owner` reference) behave as on chain.
///
/// byte offsets: 0..4 pad | 4..8 original_data_len (u32) | 8..40 key | 40..72 owner |
/// 72..80 lamports | 80..88 data_len (u64) | 88.. data (+ MAX_PERMITTED_DATA_INCREASE spare)
/// `data + 8` (where zero-copy structs start) is 16-byte aligned.
struct Slot {
    mem: Vec<u128>,
}

const OFF_ORIG_LEN: usize = 4;
const OFF_KEY: usize = 8;
const OFF_OWNER: usize = 40;
const OFF_LAMPORTS: usize = 72;
const OFF_DATA_LEN: usize = 80;
const OFF_DATA: usize = 88;

impl Slot {
    fn new(key: &Pubkey, a: &Acct) -> Slot {
        let total = OFF_DATA + a.data.len() + MAX_PERMITTED_DATA_INCREASE + 16;
        let mut mem = vec![0u128; (total + 15) / 16];
        let base = mem.as_mut_ptr() as *mut u8;
        unsafe {
            std::ptr::write_unaligned(base.add(OFF_ORIG_LEN) as *mut u32, a.data.len() as u32);
            std::ptr::copy_nonoverlapping(key.as_ref().as_ptr(), base.add(OFF_KEY), 32);
            std::ptr::copy_nonoverlapping(a.owner.as_ref().as_ptr(), base.add(OFF_OWNER), 32);
            std::ptr::write_unaligned(base.add(OFF_LAMPORTS) as *mut u64, a.lamports);
            std::ptr::write_unaligned(base.add(OFF_DATA_LEN) as *mut u64, a.data.len() as u64);
            std::ptr::copy_nonoverlapping(a.data.as_ptr(), base.add(OFF_DATA), a.data.len());
        }
        Slot { mem }
    }

    /// Build an AccountInfo pointing into this slot. The `'static` lifetime is a lie that is kept
    /// honest by `exec_inner`: every AccountInfo is dropped before its Slot.
    unsafe fn info(
        &mut self,
        data_len: usize,
        is_signer: bool,
        is_writable: bool,
        executable: bool,
    ) -> AccountInfo<'static> {
        let base = self.mem.as_mut_ptr() as *mut u8;
        let key: &'static Pubkey = &*(base.add(OFF_KEY) as *const Pubkey);
        let owner: &'static Pubkey = &*(base.add(OFF_OWNER) as *const Pubkey);
        let lamports: &'static mut u64 = &mut *(base.add(OFF_LAMPORTS) as *mut u64);
        let data: &'static mut [u8] = std::slice::from_raw_parts_mut(base.add(OFF_DATA), data_len);
        AccountInfo::new(key, is_signer, is_writable, lamports, data, owner, executable, 0)
    }
}

fn map_program_error(e: ProgramError) -> ExecErr {
    match e {
        ProgramError::Custom(n) => ExecErr::Custom(n),
        other => ExecErr::Program(format!("{:?}", other)),
    }
}

impl World {
    /// A world with the program accounts (system, spl-token, token-2022, marginfi) present.
    pub fn new() -> Self {
        let mut w = World {
            accounts: BTreeMap::new(),
            clock_ts: 1_700_000_000,
            slot: 1,
            key_counter: 0,
            ix_ok: 0,
            ix_err: 0,
        };
        for pid in [system_program::ID, spl_token::ID, spl_token_2022::ID, marginfi::ID] {
            w.add_program(pid);
        }
        w
    }

    /// Register an executable program account (owner = BPF loader; the system program is owned by the
    /// native loader on chain, which nothing in marginfi inspects).
    pub fn add_program(&mut self, program_id: Pubkey) {
        self.accounts.insert(
            program_id,
            Acct { lamports: 1, data: Vec::new(), owner: bpf_loader::ID, executable: true },
        );
    }

    /// Deterministic fresh key (independent of process-global state, stable across clones).
    pub fn new_key(&mut self) -> Pubkey {
        self.key_counter += 1;
        let h = solana_program::hash::hashv(&[b"mfi-world-key", &self.key_counter.to_le_bytes()]);
        Pubkey::new_from_array(h.to_bytes())
    }

    /// A fresh system-owned wallet with some lamports.
    pub fn add_wallet(&mut self, lamports: u64) -> Pubkey {
        let k = self.new_key();
        self.accounts.insert(
            k,
            Acct { lamports, data: Vec::new(), owner: system_program::ID, executable: false },
        );
        k
    }

    pub fn set_clock(&mut self, ts: i64, slot: u64) {
        self.clock_ts = ts;
        self.slot = slot;
    }

    /// Advance the clock by `secs` seconds (slot advances at ~2.5 slots/s, at least 1).
    pub fn advance(&mut self, secs: i64) {
        self.clock_ts += secs;
        self.slot += std::cmp::max(1, (secs.max(0) as u64) * 5 / 2);
    }

    pub fn get(&self, key: &Pubkey) -> Option<&Acct> {
        self.accounts.get(key)
    }

    pub fn lamports(&self, key: &Pubkey) -> u64 {
        self.accounts.get(key).map(|a| a.lamports).unwrap_or(0)
    }

    /// Execute one top-level instruction as a single-instruction transaction.
    pub fn exec(&mut self, ix: &Instruction) -> Result<(), ExecErr> {
        self.exec_tx(std::slice::from_ref(ix)).map_err(|(_, e)| e)
    }

    /// Execute a transaction atomically. On the first failing instruction the store is restored to
    /// the pre-transaction snapshot and `(index, error)` is returned.
    ///
    /// Like the runtime's message compilation, signer / writable privileges are the UNION over all
    /// instructions of the transaction (an account writable in any instruction is writable in all).
    /// The Instructions sysvar holds the whole transaction; its current-index field is updated
    /// before each instruction. It exists in the store only for the duration of the call.
    pub fn exec_tx(&mut self, ixs: &[Instruction]) -> Result<(), (usize, ExecErr)> {
        stubs::ensure_installed();
        // tx-wide privileges
        let mut privs: BTreeMap<Pubkey, (bool, bool)> = BTreeMap::new();
        for ix in ixs {
            for m in &ix.accounts {
                let e = privs.entry(m.pubkey).or_insert((false, false));
                e.0 |= m.is_signer;
                e.1 |= m.is_writable;
            }
        }

        // Instructions sysvar for the whole tx (flags as in the compiled message)
        let borrowed: Vec<BorrowedInstruction> = ixs
            .iter()
            .map(|ix| BorrowedInstruction {
                program_id: &ix.program_id,
                accounts: ix
                    .accounts
                    .iter()
                    .map(|m| {
                        let p = privs[&m.pubkey];
                        BorrowedAccountMeta { pubkey: &m.pubkey, is_signer: p.0, is_writable: p.1 }
                    })
                    .collect(),
                data: &ix.data,
            })
            .collect();
        let sysvar_data = construct_instructions_data(&borrowed);
        drop(borrowed);

        // Snapshot of exactly the accounts this transaction can touch (None = absent).
        let mut snapshot: Vec<(Pubkey, Option<Acct>)> =
            privs.keys().map(|k| (*k, self.accounts.get(k).cloned())).collect();
        if !privs.contains_key(&IX_SYSVAR_ID) {
            snapshot.push((IX_SYSVAR_ID, self.accounts.get(&IX_SYSVAR_ID).cloned()));
        }
        let prior_sysvar = self.accounts.insert(
            IX_SYSVAR_ID,
            Acct {
                lamports: 1,
                data: sysvar_data,
                owner: solana_program::sysvar::ID,
                executable: false,
            },
        );

        let mut result = Ok(());
        for (i, ix) in ixs.iter().enumerate() {
            if let Some(a) = self.accounts.get_mut(&IX_SYSVAR_ID) {
                store_current_index(&mut a.data, i as u16);
            }
            if let Err(e) = self.exec_inner(ix, &privs) {
                result = Err((i, e));
                break;
            }
        }

        match result {
            Ok(()) => {
                self.ix_ok += ixs.len() as u64;
                // like the runtime, drop accounts that ended the transaction with zero lamports
                for k in privs.keys() {
                    if self.accounts.get(k).map(|a| a.lamports == 0).unwrap_or(false) {
                        self.accounts.remove(k);
                    }
                }
                match prior_sysvar {
                    Some(a) => {
                        self.accounts.insert(IX_SYSVAR_ID, a);
                    }
                    None => {
                        self.accounts.remove(&IX_SYSVAR_ID);
                    }
                }
                Ok(())
            }
            Err(e) => {
                self.ix_err += 1;
                for (k, a) in snapshot {
                    match a {
                        Some(a) => {
                            self.accounts.insert(k, a);
                        }
                        None => {
                            self.accounts.remove(&k);
                        }
                    }
                }
                Err(e)
            }
        }
    }

    /// Run `f` on read-only `AccountInfo`s of the given accounts, laid out exactly as for an instruction (used to call a
    /// real library function — e.g. the risk engine — directly on the store's bytes). Panics inside `f` are caught.
    pub fn with_infos<R>(&self, keys: &[Pubkey], f: impl FnOnce(&'static [AccountInfo<'static>]) -> R) -> Option<R> {
        stubs::ensure_installed();
        stubs::set_clock(self.clock_ts, self.slot);
        stubs::reset_for_top_level();
        let pre: Vec<Acct> = keys.iter().map(|k| self.accounts.get(k).cloned().unwrap_or_else(Acct::empty_system)).collect();
        let mut slots: Vec<Slot> = keys.iter().zip(pre.iter()).map(|(k, a)| Slot::new(k, a)).collect();
        let out = {
            let infos: Vec<AccountInfo<'static>> = slots
                .iter_mut()
                .zip(pre.iter())
                .map(|(s, a)| unsafe { s.info(a.data.len(), false, false, a.executable) })
                .collect();
            let infos_ref: &'static [AccountInfo<'static>] = unsafe { std::mem::transmute::<&[AccountInfo<'static>], _>(&infos[..]) };
            let r = {
                let _mute = stubs::StdoutMute::new();
                std::panic::catch_unwind(std::panic::AssertUnwindSafe(|| f(infos_ref)))
            };
            stubs::reset_for_top_level();
            r.ok()
        };
        drop(slots);
        out
    }

    /// Run one instruction against the store. On `Err` the store may be partially unchanged but is
    /// never partially written (write-back happens only on success); `exec_tx` restores the snapshot.
    fn exec_inner(
        &mut self,
        ix: &Instruction,
        privs: &BTreeMap<Pubkey, (bool, bool)>,
    ) -> Result<(), ExecErr> {
        if ix.program_id != marginfi::ID {
            // a registered foreign program (`add_program`) at top level is a no-op that touches no marginfi
            // account (compute budget, swap venues inside a liquidation bracket)
            if self.accounts.get(&ix.program_id).map(|a| a.executable).unwrap_or(false) {
                return Ok(());
            }
            return Err(ExecErr::Program("unknown-program".into()));
        }
        stubs::set_clock(self.clock_ts, self.slot);
        stubs::reset_for_top_level();

        // One slot per distinct pubkey; duplicates alias the same AccountInfo (shared RefCells).
        let mut order: Vec<Pubkey> = Vec::new();
        for m in &ix.accounts {
            if !order.contains(&m.pubkey) {
                order.push(m.pubkey);
            }
        }
        let pre: Vec<Acct> = order
            .iter()
            .map(|k| self.accounts.get(k).cloned().unwrap_or_else(Acct::empty_system))
            .collect();
        let mut slots: Vec<Slot> = order.iter().zip(pre.iter()).map(|(k, a)| Slot::new(k, a)).collect();

        let outcome: Result<Vec<Acct>, ExecErr> = {
            let uniq: Vec<AccountInfo<'static>> = slots
                .iter_mut()
                .zip(order.iter().zip(pre.iter()))
                .map(|(s, (k, a))| {
                    let (sg, wr) = privs.get(k).copied().unwrap_or((false, false));
                    // the instructions sysvar (like all sysvars) is never writable
                    let wr = wr && *k != IX_SYSVAR_ID;
                    unsafe { s.info(a.data.len(), sg, wr, a.executable) }
                })
                .collect();
            let infos: Vec<AccountInfo<'static>> = ix
                .accounts
                .iter()
                .map(|m| {
                    let idx = order.iter().position(|k| *k == m.pubkey).unwrap();
                    uniq[idx].clone()
                })
                .collect();
            let infos_ref: &'static [AccountInfo<'static>] =
                unsafe { std::mem::transmute::<&[AccountInfo<'static>], _>(&infos[..]) };
            let data: &[u8] = &ix.data;

            let r = {
                let _mute = stubs::StdoutMute::new();
                std::panic::catch_unwind(std::panic::AssertUnwindSafe(|| {
                    marginfi::entry(&marginfi::ID, infos_ref, data)
                }))
            };
            stubs::reset_for_top_level();
            match r {
                Err(_) => Err(ExecErr::Panic),
                Ok(Err(pe)) => Err(map_program_error(pe)),
                Ok(Ok(())) => {
                    // read back through the AccountInfos (length may have changed via realloc,
                    // owner via assign)
                    let mut post = Vec::with_capacity(uniq.len());
                    let mut bad = None;
                    for (i, ai) in uniq.iter().enumerate() {
                        let d = match ai.data.try_borrow() {
                            Ok(d) => d.to_vec(),
                            Err(_) => {
                                bad = Some(ExecErr::Program("dangling-borrow".into()));
                                break;
                            }
                        };
                        let l = match ai.lamports.try_borrow() {
                            Ok(l) => **l,
                            Err(_) => {
                                bad = Some(ExecErr::Program("dangling-borrow".into()));
                                break;
                            }
                        };
                        post.push(Acct {
                            lamports: l,
                            data: d,
                            owner: *ai.owner,
                            executable: pre[i].executable,
                        });
                    }
                    match bad {
                        Some(e) => Err(e),
                        None => Ok(post),
                    }
                }
            }
            // `infos` and `uniq` (all AccountInfos) are dropped here, before `slots`.
        };
        drop(slots);

        let post = outcome?;

        // Runtime rules: read-only accounts unchanged; lamports conserved across the instruction.
        let mut sum_pre: u128 = 0;
        let mut sum_post: u128 = 0;
        for (i, k) in order.iter().enumerate() {
            let wr = privs.get(k).map(|p| p.1).unwrap_or(false) && *k != IX_SYSVAR_ID;
            if !wr && post[i] != pre[i] {
                return Err(ExecErr::Program("readonly-modified".into()));
            }
            sum_pre += pre[i].lamports as u128;
            sum_post += post[i].lamports as u128;
        }
        if sum_pre != sum_post {
            return Err(ExecErr::Program("unbalanced-lamports".into()));
        }

        for (k, a) in order.into_iter().zip(post.into_iter()) {
            let existed = self.accounts.contains_key(&k);
            if existed || a != Acct::empty_system() {
                self.accounts.insert(k, a);
            }
        }
        Ok(())
    }
}
