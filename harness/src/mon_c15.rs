//! C15 monitor: the pause bounds evaluated on the real PanicState along random/boundary histories.
use crate::fam_panic::{ix_pause, ix_unpause, ix_unpause_permissionless, st};
use crate::mon::Report;
use crate::rng::Rng;
use marginfi_type_crate::types::{PanicState, PanicStateCache};

fn paused_until(s: &PanicState, now: i64) -> i64 {
    if s.is_paused_flag() && !s.is_expired(now) {
        s.pause_start_timestamp + 1800
    } else {
        now
    }
}

pub fn run(rng: &mut Rng, n: usize, rep: &mut Report) {
    // the gated user instructions themselves, through real dispatch, once the pause has run out (one cell per 100 operations of
    // the state-machine histories below)
    crate::mon_c14::run_lapsed(rng, (n / 100).max(60), rep);
    let mut ops_done = 0usize;
    while ops_done < n {
        let mut s = PanicState::default();
        let mut cache = PanicStateCache::default();
        let mut now: i64 = if rng.chance(1, 2) { rng.range(0, 200_000) } else { 1_700_000_000 + rng.range(0, 1_000_000) };
        let mut hist: Vec<String> = vec![format!("t0={}", now)];
        let mut pauses_since_reset: u32 = 0;
        let mut last_reset_seen = s.last_daily_reset_timestamp;
        let mut resets: Vec<i64> = vec![];
        let len = 4 + rng.below(60);
        for _ in 0..len {
            let dt = match rng.below(12) {
                0 => 0,
                1 => 1,
                2 => 1799,
                3 => 1800,
                4 => 1801,
                5 => 3599,
                6 => 3600,
                7 => 86399,
                8 => 86400,
                9 => ((s.pause_start_timestamp + 1800 + rng.range(-1, 1)) - now).max(0),
                10 => ((s.last_daily_reset_timestamp + 86400 + rng.range(-1, 1)) - now).max(0),
                _ => rng.range(0, 5000),
            };
            now += dt;
            let pre = s;
            let pre_until = paused_until(&pre, now);
            let k = rng.below(10);
            match k {
                0..=5 => {
                    let r = ix_pause(&mut s, now);
                    hist.push(format!("+{} pause->{}", dt, if r.is_ok() { "ok" } else { "err" }));
                    if r.is_ok() {
                        rep.bump("pause_ok");
                        let post_until = paused_until(&s, now);
                        if post_until > pre_until + 1800 {
                            rep.fail(format!("pause pushed paused-until by {} > 1800: pre [{}] post [{}] now {} hist {:?}", post_until - pre_until, st(&pre), st(&s), now, hist));
                        }
                        if s.last_daily_reset_timestamp != last_reset_seen {
                            if !resets.is_empty() && s.last_daily_reset_timestamp - last_reset_seen < 86400 {
                                rep.fail(format!("daily resets {} and {} less than 24h apart; hist {:?}", last_reset_seen, s.last_daily_reset_timestamp, hist));
                            }
                            resets.push(s.last_daily_reset_timestamp);
                            last_reset_seen = s.last_daily_reset_timestamp;
                            pauses_since_reset = 1;
                            rep.bump("daily_reset");
                        } else {
                            pauses_since_reset += 1;
                        }
                        if pauses_since_reset > 3 {
                            rep.fail(format!("{} successful pauses since the last daily reset; hist {:?}", pauses_since_reset, hist));
                        }
                    } else {
                        rep.bump("pause_refused");
                        if s != pre {
                            rep.fail(format!("refused pause changed state; hist {:?}", hist));
                        }
                    }
                }
                6 => {
                    let r = ix_unpause(&mut s, now);
                    hist.push(format!("+{} unpause->{}", dt, if r.is_ok() { "ok" } else { "err" }));
                    if r.is_ok() != pre.is_paused_flag() {
                        rep.fail(format!("admin unpause success={} but flag was {}; hist {:?}", r.is_ok(), pre.is_paused_flag(), hist));
                    }
                    if r.is_ok() && (s.is_paused_flag() || s.consecutive_pause_count != 0) {
                        rep.fail(format!("admin unpause left flag/count set; hist {:?}", hist));
                    }
                    rep.bump("unpause");
                }
                7 => {
                    let r = ix_unpause_permissionless(&mut s, now);
                    hist.push(format!("+{} punpause->{}", dt, if r.is_ok() { "ok" } else { "err" }));
                    let should = pre.is_paused_flag() && now >= pre.pause_start_timestamp + 1800;
                    if r.is_ok() != should {
                        rep.fail(format!("permissionless unpause success={} expected {}; pre [{}] now {} hist {:?}", r.is_ok(), should, st(&pre), now, hist));
                    }
                    rep.bump("punpause");
                }
                _ => {
                    cache.update_from_panic_state(&s, now);
                    hist.push(format!("+{} propagate", dt));
                    rep.bump("propagate");
                    // right after a propagation the group's gate IS the global pause: it blocks at a time t >= now exactly when
                    // the global pause is in force at t. In particular a pause that has run out globally stops blocking the
                    // group's users (nobody has to act on the group beyond the permissionless crank that just ran)
                    let mut probes = vec![now, now + 1, s.pause_start_timestamp + 1799, s.pause_start_timestamp + 1800, s.pause_start_timestamp + 1801, cache.pause_start_timestamp + 1799, cache.pause_start_timestamp + 1800, now + 3599, now + 3600];
                    // (a gate that still BLOCKS after the global pause ran out is reported in preference to one that is open too early)
                    probes.sort_by_key(|p| !(cache.is_paused_flag() && !cache.is_expired(*p)));
                    for probe in probes {
                        if probe < now { continue; }
                        let gate = cache.is_paused_flag() && !cache.is_expired(probe);
                        let global = s.is_paused_flag() && probe < s.pause_start_timestamp + 1800;
                        if gate != global {
                            rep.fail(format!(
                                "right after propagate_fee at {} the group's gate at time {} is {} but the global pause [flag {}, start {}] {} in force then (cache: flag {}, start {}); hist {:?}",
                                now, probe, if gate { "BLOCKING" } else { "open" }, s.is_paused_flag(), s.pause_start_timestamp, if global { "IS" } else { "is NOT" }, cache.is_paused_flag(), cache.pause_start_timestamp, hist
                            ));
                            break;
                        }
                    }
                }
            }
            // state predicates, after every op
            if paused_until(&s, now) > now + 3600 {
                rep.fail(format!("scheduled pause end {} is more than 60 min beyond now {}; hist {:?}", paused_until(&s, now), now, hist));
            }
            if s.consecutive_pause_count > 2 || s.daily_pause_count > 3 {
                rep.fail(format!("counters out of bounds [{}]; hist {:?}", st(&s), hist));
            }
            // gate: a (possibly stale) cache must not block at or after its expiry, nor later than
            // 60 minutes after it was written
            for probe in [now, now + 1, cache.pause_start_timestamp - 1, cache.pause_start_timestamp, cache.pause_start_timestamp + 1799, cache.pause_start_timestamp + 1800, cache.last_cache_update + 3600] {
                let gate = cache.is_paused_flag() && !cache.is_expired(probe);
                if gate && (probe >= cache.pause_start_timestamp + 1800 || probe >= cache.last_cache_update + 3600) {
                    rep.fail(format!("gate blocks at {} with cache start {} updated {}; hist {:?}", probe, cache.pause_start_timestamp, cache.last_cache_update, hist));
                }
                if gate {
                    rep.bump("gate_blocking_probe");
                }
                // exact specification of the gate (independent of the code under test): for any probe
                // time not before the cache was written, blocked <=> flagged and probe < start + 1800
                if probe >= cache.last_cache_update {
                    let spec = cache.is_paused_flag() && probe < cache.pause_start_timestamp + 1800;
                    if gate != spec {
                        rep.fail(format!("group gate at {} is {} but a pause [flag {} start {}] {} in force; hist {:?}", probe, gate, cache.is_paused_flag(), cache.pause_start_timestamp, if spec { "IS" } else { "is NOT" }, hist));
                    }
                }
            }
            ops_done += 1;
        }
        rep.bump("histories");
        rep.add("ops", len);
        rep.sample(format!("{:?}", hist));
    }
}
