//! Level B scenarios: a small world (one group, several banks over SPL / Token-2022 / Token-2022 with
//! transfer fee, fixed-price oracles, several users) driven through REAL DISPATCH (`marginfi::entry`)
//! by generated instruction sequences with clock advances. After every successful instruction the
//! property predicates of C01, C02, C06, C16 and C17 are evaluated on the real account bytes with
//! exact big-integer arithmetic (written independently of the Lean model).
use crate::fam_curve::gen_seven;
use crate::mon::Report;
use crate::rng::Rng;
use crate::world::fixtures::{bank_config_fixed, BankHandle, FeeStateParams};
use crate::world::{ix, ExecErr, TokenKind, World};
use anchor_lang::prelude::Pubkey;
use fixed::types::I80F48;
use marginfi::state::interest_rate::InterestRateConfigImpl;
use marginfi_type_crate::types::{Bank, MarginfiAccount};
use num_bigint::BigInt;

pub const ONE: i128 = 1 << 48;

/// vault·2^96 − (S_A·asv − S_L·lsv + fees·2^48) of one bank, exact
pub fn slack_of(w: &World, h: &BankHandle) -> BigInt {
    let bank = w.bank(&h.bank);
    let v = BigInt::from(w.token_amount(&h.liquidity_vault));
    let claims = big(fx(bank.total_asset_shares)) * big(fx(bank.asset_share_value))
        - big(fx(bank.total_liability_shares)) * big(fx(bank.liability_share_value))
        + (big(fx(bank.collected_insurance_fees_outstanding)) + big(fx(bank.collected_group_fees_outstanding)) + big(fx(bank.collected_program_fees_outstanding))) * big(ONE);
    v * big(ONE) * big(ONE) - claims
}

pub struct User {
    pub wallet: Pubkey,
    pub acct: Pubkey,
    pub toks: Vec<Pubkey>, // one token account per bank (by bank index)
}

pub struct Scen {
    pub w: World,
    pub group: Pubkey,
    pub admin: Pubkey,
    pub fee_admin: Pubkey,
    pub fee_wallet: Pubkey,
    pub banks: Vec<BankHandle>,
    pub users: Vec<User>,
    pub dust_a: Vec<BigInt>, // per bank: asset shares abandoned by closed positions
    pub dust_l: Vec<BigInt>,
    pub hist: Vec<String>,
    /// (account, bank) → the bank's asset tag at the moment the position was opened (our own record)
    pub opened_tag: std::collections::HashMap<(Pubkey, Pubkey), u8>,
}

#[derive(Clone, Debug)]
pub enum Act {
    Clock(i64),
    Deposit { u: usize, b: usize, amt: u64, upto: bool },
    Withdraw { u: usize, b: usize, amt: u64, all: bool },
    Borrow { u: usize, b: usize, amt: u64 },
    Repay { u: usize, b: usize, amt: u64, all: bool },
    Accrue { b: usize },
    /// anyone refreshes the bank's cached oracle price (lending_pool_pulse_bank_price_cache)
    PulsePrice { b: usize },
    CollectFees { b: usize },
    CloseBalance { u: usize, b: usize },
    /// the group admin re-tags a bank between the default and SOL classes (lending_pool_configure_bank)
    Retag { b: usize, tag: u8 },
    /// the admin flags a bank for token-less repayments and the risk admin declares them complete (bank sunset)
    Sunset { b: usize },
    /// the risk admin purges a lender's balance in a sunset bank
    Purge { u: usize, b: usize },
    /// the authority closes its whole marginfi account (marginfi_account_close)
    CloseAccount { u: usize },
}

fn fx(v: marginfi_type_crate::types::WrappedI80F48) -> i128 {
    I80F48::from(v).to_bits()
}
fn big(x: i128) -> BigInt {
    BigInt::from(x)
}

impl Scen {
    pub fn build(rng: &mut Rng) -> Scen {
        crate::world::install_stubs();
        let mut w = World::new();
        // fresh keys are hashes of a counter: a random starting point makes the relative ORDER of the keys created below (banks,
        // accounts, vaults) differ from world to world — positions are kept sorted by bank key, and order-dependent code paths
        // would otherwise see the same order in every world
        w.key_counter = rng.below(1 << 40);
        w.set_clock(1_700_000_000 + rng.range(0, 1_000_000), 1000);
        let fee_admin = w.add_wallet(10_000_000_000);
        let fee_wallet = w.add_wallet(0);
        w.add_fee_state(
            fee_admin,
            fee_wallet,
            FeeStateParams {
                program_fee_rate: I80F48::from_bits(rng.below(ONE as u64 / 5) as i128),
                program_fee_fixed: I80F48::from_bits(rng.below(ONE as u64 / 50) as i128),
                ..Default::default()
            },
        );
        let admin = w.add_wallet(10_000_000_000);
        let group = w.add_group(admin);
        // a third of the groups have program fees switched off (through the real instruction) while the
        // global fee state still carries non-zero program-fee rates
        if rng.chance(1, 3) {
            let _ = w.exec(&crate::world::ix::config_group_fee(group, fee_admin, false));
        }
        let nb = 2 + rng.below(3) as usize;
        let mut banks = vec![];
        for i in 0..nb {
            let (kind, dec) = match (i + rng.below(2) as usize) % 4 {
                0 => (TokenKind::Spl, 6),
                1 => (TokenKind::T22Fee { bps: *rng.pick(&[1u16, 50, 100, 999]), max_fee: *rng.pick(&[5_000u64, 1_000_000_000, u64::MAX]) }, 9),
                2 => (TokenKind::T22, *rng.pick(&[0u8, 6, 9])),
                _ => (TokenKind::Spl, 9),
            };
            let mint = w.add_mint(kind, dec);
            // a third of the fee-bearing mints have a fee change scheduled (to zero, or to another rate) that is not yet in
            // force (the old fee keeps being charged) or that enters into force in the current epoch
            if let TokenKind::T22Fee { max_fee, .. } = kind {
                if rng.chance(1, 3) {
                    // (activation epoch 0 = the world's clock epoch: the scheduled fee is in force from exactly now on)
                    w.schedule_fee_change(&mint, *rng.pick(&[0u16, 0, 7, 2500]), max_fee, *rng.pick(&[0u64, 2, 3, 4]));
                }
            }
            let price = *rng.pick(&[1i128, 10, 100, 2]) * ONE + rng.below(ONE as u64) as i128;
            let mut cfg = bank_config_fixed(I80F48::from_bits(price));
            // random valid curve + fees
            let mut ir = gen_seven(rng, true);
            for f in [&mut ir.ins_fixed, &mut ir.ins_rate, &mut ir.grp_fixed, &mut ir.grp_rate] {
                *f = (*f).rem_euclid(ONE / 4);
            }
            let mut irc = ir.config();
            irc.protocol_origination_fee = I80F48::from_bits(if rng.chance(1, 2) { 0 } else { rng.below(ONE as u64 / 50) as i128 }).into();
            if irc.validate().is_ok() {
                cfg.interest_rate_config = irc;
            }
            cfg.deposit_limit = match rng.below(4) {
                0 => u64::MAX,
                1 => 3_000_000_000_000,
                _ => 50_000_000_000_000,
            };
            cfg.borrow_limit = match rng.below(3) {
                0 => u64::MAX,
                _ => 20_000_000_000_000,
            };
            let h = w.add_bank(group, mint, cfg);
            banks.push(h);
        }
        let nu = 2 + rng.below(3) as usize;
        let mut users = vec![];
        for _ in 0..nu {
            let wallet = w.add_wallet(1_000_000_000);
            let acct = w.add_marginfi_account(group, wallet);
            let toks = banks.iter().map(|b| w.add_token_account(b.mint, wallet, 100_000_000_000_000)).collect();
            users.push(User { wallet, acct, toks });
        }
        let n = banks.len();
        Scen {
            w,
            group,
            admin,
            fee_admin,
            fee_wallet,
            banks,
            users,
            dust_a: vec![BigInt::from(0); n],
            dust_l: vec![BigInt::from(0); n],
            hist: vec![],
            opened_tag: Default::default(),
        }
    }

    pub fn gen_act(&self, rng: &mut Rng) -> Act {
        let u = rng.below(self.users.len() as u64) as usize;
        let b = rng.below(self.banks.len() as u64) as usize;
        let amt = match rng.below(8) {
            0 => 1,
            1 => rng.below(1000) + 1,
            2 => 1_000_000 * (1 + rng.below(1000)),
            3 => 1_000_000_000 * (1 + rng.below(1000)),
            4 => self.position_amount(u, b).saturating_add(rng.below(3)).saturating_sub(1),
            5 => rng.below(5_000_000_000_000),
            6 => self.remaining_capacity(b).saturating_add(rng.below(3)).saturating_sub(1),
            _ => 1_000_000 * (1 + rng.below(100)),
        };
        if rng.chance(1, 8) {
            let mut cands = vec![];
            for (bi, h) in self.banks.iter().enumerate() {
                if self.w.bank(&h.bank).flags & marginfi_type_crate::constants::TOKENLESS_REPAYMENTS_COMPLETE == 0 {
                    continue;
                }
                for (ui, us) in self.users.iter().enumerate() {
                    if self.w.marginfi_account(&us.acct).lending_account.get_balance(&h.bank).is_some() {
                        cands.push((ui, bi));
                    }
                }
            }
            if !cands.is_empty() {
                let (u, b) = *rng.pick(&cands);
                return Act::Purge { u, b };
            }
        }
        // closable leftovers (active slot, less than one share on both sides) are closed eagerly, so that balance
        // closure is exercised after time has passed on banks with deposits and debt
        if rng.chance(1, 4) {
            let mut cands = vec![];
            for (ui, us) in self.users.iter().enumerate() {
                let a = self.w.marginfi_account(&us.acct);
                for (bi, h) in self.banks.iter().enumerate() {
                    if let Some(bal) = a.lending_account.get_balance(&h.bank) {
                        if fx(bal.asset_shares) < ONE && fx(bal.liability_shares) < ONE {
                            cands.push((ui, bi));
                        }
                    }
                }
            }
            if !cands.is_empty() {
                let (u, b) = *rng.pick(&cands);
                return Act::CloseBalance { u, b };
            }
        }
        // state-directed choice of the bank (three times out of four): withdraw where the user holds a deposit, repay where
        // it owes, borrow where it holds no deposit — otherwise most operations die on the one-side-per-bank rule and the
        // deep paths (accepted borrows, repayments, full closes) are starved
        let side = |u: usize, want_asset: Option<bool>| -> Vec<usize> {
            let a = self.w.marginfi_account(&self.users[u].acct);
            (0..self.banks.len())
                .filter(|&bi| {
                    let bal = a.lending_account.get_balance(&self.banks[bi].bank);
                    match want_asset {
                        Some(true) => bal.map(|x| fx(x.asset_shares) >= ONE).unwrap_or(false),
                        Some(false) => bal.map(|x| fx(x.liability_shares) >= ONE).unwrap_or(false),
                        None => bal.map(|x| fx(x.asset_shares) < ONE).unwrap_or(true),
                    }
                })
                .collect()
        };
        let kind = rng.below(20);
        let directed = rng.chance(3, 4);
        let (b, amt) = if directed && (8..=16).contains(&kind) {
            let cands = side(u, if kind <= 10 { Some(true) } else if kind <= 13 { None } else { Some(false) });
            if cands.is_empty() { (b, amt) } else {
                let b2 = *rng.pick(&cands);
                // amounts relative to the position / the bank where that makes sense
                let amt2 = match rng.below(4) {
                    0 => self.position_amount(u, b2).saturating_add(rng.below(3)).saturating_sub(1),
                    1 => (self.position_amount(u, b2) / (1 + rng.below(10))).max(1),
                    _ => amt,
                };
                (b2, if kind <= 13 && kind >= 11 { amt } else { amt2 })
            }
        } else { (b, amt) };
        match kind {
            0..=2 => Act::Clock(*rng.pick(&[1i64, 5, 60, 3600, 86400, 604800, 31_536_000])),
            3..=7 => Act::Deposit { u, b, amt, upto: rng.chance(1, 4) },
            8..=10 => Act::Withdraw { u, b, amt, all: rng.chance(1, 5) },
            11..=13 => Act::Borrow { u, b, amt },
            14..=16 => Act::Repay { u, b, amt, all: rng.chance(1, 5) },
            17 if rng.chance(1, 3) => Act::PulsePrice { b },
            17 => Act::Accrue { b },
            18 => Act::CollectFees { b },
            19 if rng.chance(1, 4) => Act::CloseAccount { u },
            19 if rng.chance(1, 2) => Act::Retag { b, tag: rng.below(2) as u8 },
            19 if rng.chance(1, 3) => {
                let sunset = self.w.bank(&self.banks[b].bank).flags & marginfi_type_crate::constants::TOKENLESS_REPAYMENTS_COMPLETE != 0;
                if sunset { Act::Purge { u, b } } else if rng.chance(1, 3) { Act::Sunset { b } } else { Act::CloseBalance { u, b } }
            }
            _ => Act::CloseBalance { u, b },
        }
    }

    pub fn position_amount(&self, u: usize, b: usize) -> u64 {
        let a = self.w.marginfi_account(&self.users[u].acct);
        let bank = self.w.bank(&self.banks[b].bank);
        match a.lending_account.get_balance(&self.banks[b].bank) {
            Some(bal) => {
                let s = fx(bal.asset_shares).max(fx(bal.liability_shares));
                let sv = if fx(bal.asset_shares) > fx(bal.liability_shares) { fx(bank.asset_share_value) } else { fx(bank.liability_share_value) };
                ((big(s) * big(sv)) >> 96u32).try_into().unwrap_or(u64::MAX)
            }
            None => 0,
        }
    }

    fn remaining_capacity(&self, b: usize) -> u64 {
        use marginfi::state::bank::BankImpl;
        self.w.bank(&self.banks[b].bank).get_remaining_deposit_capacity().unwrap_or(0)
    }

    pub fn instruction(&self, act: &Act) -> Option<solana_program::instruction::Instruction> {
        Some(match act {
            Act::Clock(_) => return None,
            Act::Deposit { u, b, amt, upto } => {
                let us = &self.users[*u];
                ix::deposit(&self.banks[*b], us.acct, us.wallet, us.toks[*b], *amt, if *upto { Some(true) } else { None })
            }
            Act::Repay { u, b, amt, all } => {
                let us = &self.users[*u];
                ix::repay(&self.banks[*b], us.acct, us.wallet, us.toks[*b], *amt, if *all { Some(true) } else { None })
            }
            Act::Withdraw { u, b, amt, all } => {
                let us = &self.users[*u];
                let bank = self.banks[*b].bank;
                let risk = if *all { self.w.remaining_sorted(&us.acct, &[], &[bank]) } else { self.w.remaining_for(&us.acct, &[]) };
                ix::withdraw(&self.banks[*b], us.acct, us.wallet, us.toks[*b], *amt, if *all { Some(true) } else { None }, risk)
            }
            Act::Borrow { u, b, amt } => {
                let us = &self.users[*u];
                let risk = self.w.remaining_for(&us.acct, &[self.banks[*b].bank]);
                ix::borrow(&self.banks[*b], us.acct, us.wallet, us.toks[*b], *amt, risk)
            }
            Act::Accrue { b } => ix::accrue(&self.banks[*b]),
            Act::PulsePrice { b } => {
                use anchor_lang::{InstructionData, ToAccountMetas};
                let h = &self.banks[*b];
                solana_program::instruction::Instruction {
                    program_id: marginfi::ID,
                    accounts: [marginfi::accounts::LendingPoolPulseBankPriceCache { group: h.group, bank: h.bank }.to_account_metas(None), self.w.oracle_metas_for(&h.bank)].concat(),
                    data: marginfi::instruction::LendingPoolPulseBankPriceCache {}.data(),
                }
            }
            Act::CollectFees { b } => {
                let fee_ata = self.w.ata(&self.fee_wallet, &self.banks[*b].mint);
                ix::collect_fees(&self.banks[*b], fee_ata)
            }
            Act::CloseBalance { u, b } => {
                let us = &self.users[*u];
                ix::close_balance(&self.banks[*b], us.acct, us.wallet)
            }
            Act::Sunset { .. } => return None,
            Act::CloseAccount { u } => {
                let us = &self.users[*u];
                ix::close_account(us.acct, us.wallet, us.wallet)
            }
            Act::Purge { u, b } => {
                use anchor_lang::{InstructionData, ToAccountMetas};
                let h = &self.banks[*b];
                solana_program::instruction::Instruction {
                    program_id: marginfi::ID,
                    accounts: marginfi::accounts::LendingAccountPurgeDelevBalance { group: h.group, marginfi_account: self.users[*u].acct, risk_admin: self.admin, bank: h.bank }
                        .to_account_metas(None),
                    data: marginfi::instruction::PurgeDeleverageBalance {}.data(),
                }
            }
            Act::Retag { b, tag } => ix::configure_bank(
                &self.banks[*b],
                self.admin,
                marginfi_type_crate::types::BankConfigOpt { asset_tag: Some(*tag), ..Default::default() },
            ),
        })
    }

    /// Δ(bank) = vault·2^96 − (S_A·asv − S_L·lsv + (fees)·2^48), exact
    pub fn delta(&self, b: usize) -> BigInt {
        let h = &self.banks[b];
        let bank = self.w.bank(&h.bank);
        let v = BigInt::from(self.w.token_amount(&h.liquidity_vault));
        let claims = big(fx(bank.total_asset_shares)) * big(fx(bank.asset_share_value))
            - big(fx(bank.total_liability_shares)) * big(fx(bank.liability_share_value))
            + (big(fx(bank.collected_insurance_fees_outstanding)) + big(fx(bank.collected_group_fees_outstanding)) + big(fx(bank.collected_program_fees_outstanding))) * big(ONE);
        v * big(ONE) * big(ONE) - claims
    }

    /// run one action through real dispatch and evaluate the monitors
    pub fn step(&mut self, act: &Act, rep: &mut Report) -> Option<Result<(), ExecErr>> {
        if let Act::Clock(dt) = act {
            self.w.advance(*dt);
            self.hist.push(format!("clock+{}", dt));
            return None;
        }
        if let Act::Sunset { b } = act {
            let h = self.banks[*b];
            let pre = self.w.bank(&h.bank);
            let tx = [
                ix::configure_bank(&h, self.admin, marginfi_type_crate::types::BankConfigOpt { tokenless_repayments_allowed: Some(true), ..Default::default() }),
                ix::force_tokenless_repay_complete(&h, self.admin),
            ];
            let r = self.w.exec_tx(&tx).map_err(|(_, e)| e);
            self.hist.push(format!("{:?}->{}", act, match &r { Ok(()) => "ok".to_string(), Err(e) => format!("{}", e) }));
            if r.is_ok() {
                rep.bump("ok_Sunset");
                let mut expect = pre;
                expect.flags |= marginfi_type_crate::constants::TOKENLESS_REPAYMENTS_ALLOWED | marginfi_type_crate::constants::TOKENLESS_REPAYMENTS_COMPLETE;
                if self.w.bank(&h.bank) != expect {
                    rep.fail(format!("C12 flagging bank {} for token-less repayments changed more than the two flags; hist {:?}", b, self.hist));
                }
            }
            return Some(r);
        }
        if let Act::CloseAccount { u } = act {
            let us_acct = self.users[*u].acct;
            let pre = self.w.marginfi_account(&us_acct);
            let ixn = self.instruction(act)?;
            let r = self.w.exec(&ixn);
            self.hist.push(format!("{:?}->{}", act, match &r { Ok(()) => "ok".to_string(), Err(e) => format!("{}", e) }));
            if r.is_ok() {
                rep.bump("ok_CloseAccount");
                // C02 / C16: the positions that disappear with the account must be dust on BOTH sides (the bank totals are
                // not touched by the closure), and the account must not have been disabled / in a bracket
                for bal in pre.lending_account.balances.iter().filter(|b| b.is_active()) {
                    if fx(bal.asset_shares) >= ONE || fx(bal.liability_shares) >= ONE {
                        rep.fail(format!(
                            "C02 an account was closed while it held a position of {} asset / {} liability shares: the bank totals keep shares that no position backs; hist {:?}",
                            fx(bal.asset_shares), fx(bal.liability_shares), self.hist
                        ));
                        rep.fail(format!("C16 an account that is not empty was closed; hist {:?}", self.hist));
                    }
                    // what is abandoned stays in the totals: account for it like closed-balance dust
                    if let Some(bi) = self.banks.iter().position(|h| h.bank == bal.bank_pk) {
                        self.dust_a[bi] += big(fx(bal.asset_shares));
                        self.dust_l[bi] += big(fx(bal.liability_shares));
                    }
                }
                // the user goes on with a fresh account
                let wallet = self.users[*u].wallet;
                let acct = self.w.add_marginfi_account(self.group, wallet);
                self.users[*u].acct = acct;
                self.opened_tag.retain(|k, _| k.0 != us_acct);
            }
            return Some(r);
        }
        let ixn = self.instruction(act)?;
        // make sure the fee ATA exists for collect
        if let Act::CollectFees { b } = act {
            let ata = self.w.ata(&self.fee_wallet, &self.banks[*b].mint);
            if self.w.get(&ata).is_none() {
                let (fw, m) = (self.fee_wallet, self.banks[*b].mint);
                self.w.add_ata(fw, m, 0);
            }
        }
        let pre_banks: Vec<Bank> = self.banks.iter().map(|h| self.w.bank(&h.bank)).collect();
        let pre_accts: Vec<MarginfiAccount> = self.users.iter().map(|u| self.w.marginfi_account(&u.acct)).collect();
        let pre_delta: Vec<BigInt> = (0..self.banks.len()).map(|b| self.delta(b)).collect();
        let pre_store = self.w.accounts.clone();
        let now = self.w.clock_ts;
        // C03: the user's token account of the bank operated on, before
        let ub: Option<(usize, usize)> = match act {
            Act::Deposit { u, b, .. } | Act::Withdraw { u, b, .. } | Act::Borrow { u, b, .. } | Act::Repay { u, b, .. } => Some((*u, *b)),
            _ => None,
        };
        let pre_user_tok: u64 = ub.map(|(u, b)| self.w.token_amount(&self.users[u].toks[b])).unwrap_or(0);
        let r = self.w.exec(&ixn);
        self.hist.push(format!("{:?}->{}", act, match &r { Ok(()) => "ok".to_string(), Err(e) => format!("{}", e) }));
        if self.hist.len() > 40 {
            self.hist.remove(0);
        }
        match &r {
            Err(e) => {
                rep.bump("ix_err");
                if let Some(c) = e.code() {
                    rep.bump(&format!("err_{}", c));
                }
                if self.w.accounts != pre_store {
                    rep.fail(format!("C08 rejected instruction changed the account store; hist {:?}", self.hist));
                }
                // C17: an up-to-limit deposit must never fail for exceeding the capacity
                if let Act::Deposit { upto: true, .. } = act {
                    if e.code() == Some(6003) {
                        rep.fail(format!("C17 deposit-up-to-limit failed with BankAssetCapacityExceeded; hist {:?}", self.hist));
                    }
                }
            }
            Ok(()) => {
                rep.bump("ix_ok");
                rep.bump(&format!("ok_{}", format!("{:?}", act).split(' ').next().unwrap_or("?").trim_end_matches('{')));
                self.after_ok(act, now, &pre_banks, &pre_accts, &pre_delta, rep);
                // ---- C03: no free value at the level of the WHOLE instruction. The position's net value (deposit shares x deposit
                // share value - debt shares x debt share value, exact, both taken at the share values the instruction leaves, so
                // that the interest accrued inside it is not counted as a gain) may rise by at most the tokens that left the
                // user's token account, and may fall by no less than the tokens that arrived there, up to the allowance of
                // theorem decrease_bounded_gain (one ulp of each share value per operation).
                if let Some((u, b)) = ub {
                    let h = self.banks[b];
                    let post_bank = self.w.bank(&h.bank);
                    let (asv, lsv) = (big(fx(post_bank.asset_share_value)), big(fx(post_bank.liability_share_value)));
                    let val = |a: &MarginfiAccount| -> BigInt {
                        match a.lending_account.get_balance(&h.bank) {
                            Some(bal) => big(fx(bal.asset_shares)) * &asv - big(fx(bal.liability_shares)) * &lsv,
                            None => BigInt::from(0),
                        }
                    };
                    let v0 = val(&pre_accts[u]);
                    let v1 = val(&self.w.marginfi_account(&self.users[u].acct));
                    let post_user_tok = self.w.token_amount(&self.users[u].toks[b]);
                    let scale = big(ONE) * big(ONE);
                    match act {
                        Act::Deposit { .. } | Act::Repay { .. } => {
                            let paid = BigInt::from(pre_user_tok) - BigInt::from(post_user_tok);
                            if &v1 - &v0 > &paid * &scale {
                                rep.fail(format!(
                                    "C03 {:?} raised the position's net value by {} (x2^-96 token) for {} tokens paid in: the user is credited more than was paid; hist {:?}",
                                    act, &v1 - &v0, paid, self.hist
                                ));
                            }
                        }
                        _ => {
                            let got = BigInt::from(post_user_tok) - BigInt::from(pre_user_tok);
                            let allow = (&asv + &lsv + 1) * big(ONE);
                            if &got * &scale > &v0 - &v1 + &allow {
                                rep.fail(format!(
                                    "C03 {:?} paid out {} tokens while the position's net value fell by only {} (x2^-96 token, allowance {}): more is paid out than is debited; hist {:?}",
                                    act, got, &v0 - &v1, allow, self.hist
                                ));
                            }
                        }
                    }
                }
            }
        }
        Some(r)
    }

    fn after_ok(&mut self, act: &Act, now: i64, pre_banks: &[Bank], pre_accts: &[MarginfiAccount], pre_delta: &[BigInt], rep: &mut Report) {
        let one = big(ONE);
        // ---- C16: positions keep the asset tag they were opened with (own record, taken from the bank's tag in
        // the pre-state of the instruction that opened the slot)
        for u in &self.users {
            let a = self.w.marginfi_account(&u.acct);
            let mut live = vec![];
            for bal in a.lending_account.balances.iter().filter(|b| b.is_active()) {
                live.push(bal.bank_pk);
                let key = (u.acct, bal.bank_pk);
                match self.opened_tag.get(&key) {
                    None => {
                        let tag = self.banks.iter().position(|h| h.bank == bal.bank_pk).map(|i| pre_banks[i].config.asset_tag).unwrap_or(bal.bank_asset_tag);
                        if bal.bank_asset_tag != tag {
                            rep.fail(format!("C16 position opened with tag {} on a bank tagged {}; hist {:?}", bal.bank_asset_tag, tag, self.hist));
                        }
                        self.opened_tag.insert(key, tag);
                    }
                    Some(t) => {
                        if *t != bal.bank_asset_tag {
                            rep.fail(format!("C16 position's asset tag changed from {} (when opened) to {} by {:?}; hist {:?}", t, bal.bank_asset_tag, act, self.hist));
                        }
                    }
                }
            }
            let acct = u.acct;
            self.opened_tag.retain(|k, _| k.0 != acct || live.contains(&k.1));
        }
        if let Act::Retag { b, tag } = act {
            let post = self.w.bank(&self.banks[*b].bank);
            let mut expect = pre_banks[*b];
            expect.config.asset_tag = *tag;
            if post != expect {
                rep.fail(format!("C12 re-tagging bank {} changed more than the asset tag; hist {:?}", b, self.hist));
            }
            return;
        }
        if let Act::PulsePrice { b } = act {
            // the permissionless price-cache crank writes the cache and nothing else; in particular it must not move the
            // bank's accrual clock (`last_update`): the interest between the old stamp and the new one would never be booked
            let pre = pre_banks[*b];
            let post = self.w.bank(&self.banks[*b].bank);
            if post.last_update != pre.last_update {
                use marginfi::state::bank::BankImpl;
                let mut expect = pre;
                let g = self.w.group(&self.group);
                crate::world::install_stubs();
                let _ = expect.accrue_interest(post.last_update, &g, self.banks[*b].bank);
                if fx(expect.liability_share_value) != fx(post.liability_share_value) || fx(expect.asset_share_value) != fx(post.asset_share_value) {
                    rep.fail(format!(
                        "C06 the price-cache crank moved bank {}'s accrual clock from {} to {} without accruing: share values stay ({}, {}) where accruing that period gives ({}, {}) - the interest of {} s is never booked; hist {:?}",
                        b, pre.last_update, post.last_update, fx(post.asset_share_value), fx(post.liability_share_value), fx(expect.asset_share_value), fx(expect.liability_share_value),
                        post.last_update - pre.last_update, self.hist
                    ));
                }
            }
            let mut p = post;
            p.cache = pre.cache;
            p.last_update = pre.last_update;
            if p != pre {
                rep.fail(format!("C08 the price-cache crank changed more of bank {} than its cache; hist {:?}", b, self.hist));
            }
            for (bi, h) in self.banks.iter().enumerate() {
                if bi != *b && self.w.bank(&h.bank) != pre_banks[bi] {
                    rep.fail(format!("C08 bank {} changed by the price-cache crank of another bank; hist {:?}", bi, self.hist));
                }
            }
            return;
        }
        let touched: Option<usize> = match act {
            Act::Deposit { b, .. } | Act::Withdraw { b, .. } | Act::Borrow { b, .. } | Act::Repay { b, .. } | Act::Accrue { b } | Act::CollectFees { b } | Act::CloseBalance { b, .. } | Act::Purge { b, .. } => Some(*b),
            _ => None,
        };
        for (bi, h) in self.banks.clone().iter().enumerate() {
            let pre = &pre_banks[bi];
            let post = self.w.bank(&h.bank);
            // ---- C06: accrual first / monotone / fees non-negative
            let early_noop = matches!(act, Act::Deposit { amt: 0, .. });
            if Some(bi) == touched && !matches!(act, Act::CollectFees { .. } | Act::Purge { .. }) && !early_noop {
                let zero_upto = matches!(act, Act::Deposit { upto: true, .. }) && fx(post.total_asset_shares) == fx(pre.total_asset_shares);
                if post.last_update != now && !zero_upto {
                    rep.fail(format!("C06 bank {} last_update {} != clock {} after successful {:?}: interest not brought up to date; hist {:?}", bi, post.last_update, now, act, self.hist));
                }
            }
            // the share values after any successful instruction on the bank must be exactly those that a
            // plain accrual of the PRE-state bank up to `now` produces (user operations never move share
            // values; bankruptcy, which does, is not part of this action set)
            if Some(bi) == touched && !matches!(act, Act::CollectFees { .. } | Act::Purge { .. }) && !early_noop {
                use marginfi::state::bank::BankImpl;
                let mut expect = *pre;
                let g = self.w.group(&self.group);
                crate::world::install_stubs();
                if expect.accrue_interest(now, &g, h.bank).is_ok() {
                    // program fees are zero when disabled for the group: the accrual of the pre-state (the real function, on
                    // the real group) must not book any (a borrow's origination fee is not accrual and is not judged here)
                    {
                        use marginfi::state::marginfi_group::MarginfiGroupImpl;
                        if !g.program_fees_enabled() && fx(expect.collected_program_fees_outstanding) != fx(pre.collected_program_fees_outstanding) {
                            rep.fail(format!(
                                "C06 accrual books program fees ({} -> {}) on bank {} although program fees are disabled for the group (before {:?}); hist {:?}",
                                fx(pre.collected_program_fees_outstanding), fx(expect.collected_program_fees_outstanding), bi, act, self.hist
                            ));
                        }
                    }
                    let zero_upto = matches!(act, Act::Deposit { upto: true, .. }) && fx(post.total_asset_shares) == fx(pre.total_asset_shares);
                    if !zero_upto && (fx(expect.asset_share_value) != fx(post.asset_share_value) || fx(expect.liability_share_value) != fx(post.liability_share_value)) {
                        rep.fail(format!(
                            "C06 bank {} share values after {:?} are ({}, {}) but accruing the pre-state to the current time gives ({}, {}): stale or skipped accrual; hist {:?}",
                            bi, act, fx(post.asset_share_value), fx(post.liability_share_value), fx(expect.asset_share_value), fx(expect.liability_share_value), self.hist
                        ));
                    }
                    if !zero_upto && fx(post.collected_insurance_fees_outstanding) < fx(expect.collected_insurance_fees_outstanding) {
                        rep.fail(format!("C06 bank {} insurance fees after {:?} below the accrued amount; hist {:?}", bi, act, self.hist));
                    }
                }
            }
            if fx(post.asset_share_value) < fx(pre.asset_share_value) || fx(post.liability_share_value) < fx(pre.liability_share_value) {
                rep.fail(format!("C06 share value decreased on bank {} by {:?}; hist {:?}", bi, act, self.hist));
            }
            if !matches!(act, Act::CollectFees { .. }) {
                if fx(post.collected_group_fees_outstanding) < fx(pre.collected_group_fees_outstanding)
                    || fx(post.collected_program_fees_outstanding) < fx(pre.collected_program_fees_outstanding)
                    || fx(post.collected_insurance_fees_outstanding) < fx(pre.collected_insurance_fees_outstanding)
                {
                    rep.fail(format!("C06 a fee bucket decreased on bank {} by {:?}; hist {:?}", bi, act, self.hist));
                }
            }
            if Some(bi) != touched && (post != *pre) {
                rep.fail(format!("C08 bank {} changed by an instruction on another bank {:?}; hist {:?}", bi, act, self.hist));
            }
            // ---- C01: solvency Δ may only fall by the rounding allowance of this operation
            let d0 = &pre_delta[bi];
            let d1 = self.delta(bi);
            let asv = big(fx(pre.asset_share_value).max(fx(post.asset_share_value)));
            let lsv = big(fx(pre.liability_share_value).max(fx(post.liability_share_value)));
            let dt = (now - pre.last_update).max(0);
            // accrual allowance (theorem Mfi.Props.C01.accrue_step): TL + S_L + ⌊lending·dt/Y⌋, lending ≤ base ≤ 1000 %
            let ta = (big(fx(pre.total_asset_shares)) * big(fx(pre.asset_share_value))) >> 48u32;
            let tl = (big(fx(pre.total_liability_shares)) * big(fx(pre.liability_share_value))) >> 48u32;
            let year = BigInt::from(31_536_000u64);
            let mut allow = BigInt::from(0);
            if dt > 0 && Some(bi) == touched && tl > BigInt::from(0) && ta > BigInt::from(0) {
                // every accepted curve is ≤ 1000 % (the utilisation is clamped to [0, 1] inside both curves), but the LENDING rate is
                // base x utilisation with the utilisation as it is: a purge in a sunset bank can leave more debt than deposits, and
                // the per-period lending rate of the theorem's allowance is then up to 1000 % x utilisation
                let ur = (&tl * &one) / &ta + 1;
                let lending_max = big(10 * ONE) * (if ur > one { ur } else { one.clone() }) / &one + 1;
                allow += &tl + big(fx(pre.total_liability_shares)) + (&lending_max * BigInt::from(dt)) / &year + 1;
            }
            match act {
                // theorems decrease_step / borrow_fee_step / repay_all_step / withdraw_all_step
                Act::Withdraw { all: false, .. } => allow += &asv + &lsv + 1,
                Act::Borrow { .. } => allow += &asv + &lsv + 1 + &one, // + the origination fee split booked by truncating multiplication
                Act::Repay { all: true, .. } => allow += &one,
                _ => {}
            }
            if Some(bi) == touched && d1 < d0 - &allow {
                rep.fail(format!(
                    "C01 solvency margin of bank {} fell by {} (allowance {}) on {:?}; hist {:?}",
                    bi,
                    d0 - &d1,
                    allow,
                    act,
                    self.hist
                ));
            }
            // ---- C17: caps and utilisation
            let tot_a = (big(fx(post.total_asset_shares)) * big(fx(post.asset_share_value))) >> 48u32;
            let tot_l = (big(fx(post.total_liability_shares)) * big(fx(post.liability_share_value))) >> 48u32;
            if Some(bi) == touched {
                match act {
                    Act::Deposit { .. } => {
                        if post.config.deposit_limit != u64::MAX && fx(post.total_asset_shares) > fx(pre.total_asset_shares) && tot_a >= BigInt::from(post.config.deposit_limit) * &one {
                            rep.fail(format!("C17 deposits {} >= limit {} after a successful deposit; hist {:?}", tot_a, post.config.deposit_limit, self.hist));
                        }
                    }
                    Act::Borrow { .. } => {
                        // a borrow that adds no debt shares (amount 0) is a no-op and is not judged: interest alone may carry
                        // the debt past the limit, which blocks every borrow that adds to it
                        if post.config.borrow_limit != u64::MAX
                            && fx(post.total_liability_shares) > fx(pre.total_liability_shares)
                            && tot_l >= BigInt::from(post.config.borrow_limit) * &one
                        {
                            rep.fail(format!("C17 debt {} >= borrow limit {} after a successful borrow; hist {:?}", tot_l, post.config.borrow_limit, self.hist));
                        }
                        if tot_a < tot_l {
                            rep.fail(format!("C17 deposits {} < debt {} after a successful borrow; hist {:?}", tot_a, tot_l, self.hist));
                        }
                    }
                    Act::Withdraw { .. } => {
                        if tot_a < tot_l {
                            rep.fail(format!("C17 deposits {} < debt {} after a successful withdraw; hist {:?}", tot_a, tot_l, self.hist));
                        }
                    }
                    _ => {}
                }
            }
            // ---- C02: ledger sums (with dust abandoned by closures, measured from the closing position)
            if Some(bi) == touched {
                for (ui, u) in self.users.iter().enumerate() {
                    let was = pre_accts[ui].lending_account.get_balance(&h.bank).cloned();
                    let is = self.w.marginfi_account(&u.acct).lending_account.get_balance(&h.bank).cloned();
                    if let (Some(was), None) = (was, is) {
                        match act {
                            Act::Withdraw { all: true, .. } => self.dust_l[bi] += big(fx(was.liability_shares)),
                            Act::Repay { all: true, .. } => self.dust_a[bi] += big(fx(was.asset_shares)),
                            Act::Purge { .. } => {
                                // the bank's deposit total is reduced by exactly the purged deposit shares; a liability residue
                                // of the position (the handler tolerates one) is abandoned in the bank's debt total: dust
                                self.dust_l[bi] += big(fx(was.liability_shares));
                                let thr = big(I80F48::from_num(0.0001).to_bits());
                                let vl = (big(fx(was.liability_shares)) * big(fx(post.liability_share_value))) >> 48u32;
                                if vl >= thr {
                                    rep.fail(format!("C02 purge-abandons-liability-above-dust: purge_deleverage_balance abandoned a debt residue worth {} bits (0.0001 unit = {} bits); hist {:?}", vl, thr, self.hist));
                                }
                            }
                            Act::CloseBalance { .. } => {
                                self.dust_a[bi] += big(fx(was.asset_shares));
                                self.dust_l[bi] += big(fx(was.liability_shares));
                                let thr = big(I80F48::from_num(0.0001).to_bits());
                                let va = (big(fx(was.asset_shares)) * big(fx(post.asset_share_value))) >> 48u32;
                                let vl = (big(fx(was.liability_shares)) * big(fx(post.liability_share_value))) >> 48u32;
                                if va >= thr || vl >= thr {
                                    rep.fail(format!("C02 close_balance abandoned more than dust (asset value bits {}, liability value bits {}); hist {:?}", va, vl, self.hist));
                                }
                            }
                            _ => rep.fail(format!("C16 position in bank {} vanished on {:?}; hist {:?}", bi, act, self.hist)),
                        }
                    }
                }
            }
            let (mut sa, mut sl) = (BigInt::from(0), BigInt::from(0));
            for u in &self.users {
                if let Some(bal) = self.w.marginfi_account(&u.acct).lending_account.get_balance(&h.bank) {
                    sa += big(fx(bal.asset_shares));
                    sl += big(fx(bal.liability_shares));
                    if fx(bal.asset_shares) < 0 || fx(bal.liability_shares) < 0 {
                        rep.fail(format!("C02 negative shares in bank {}; hist {:?}", bi, self.hist));
                    }
                }
            }
            if big(fx(post.total_asset_shares)) != &sa + &self.dust_a[bi] || big(fx(post.total_liability_shares)) != &sl + &self.dust_l[bi] {
                rep.fail(format!(
                    "C02 ledger mismatch on bank {}: totals ({},{}) vs positions ({},{}) + dust ({},{}) after {:?}; hist {:?}",
                    bi,
                    fx(post.total_asset_shares),
                    fx(post.total_liability_shares),
                    sa,
                    sl,
                    self.dust_a[bi],
                    self.dust_l[bi],
                    act,
                    self.hist
                ));
            }
        }
        // ---- C16: account structure
        for u in &self.users {
            let a = self.w.marginfi_account(&u.acct);
            let act_b: Vec<_> = a.lending_account.balances.iter().filter(|b| b.is_active()).collect();
            for (i, x) in act_b.iter().enumerate() {
                for y in act_b.iter().skip(i + 1) {
                    if x.bank_pk == y.bank_pk {
                        rep.fail(format!("C16 two positions for one bank; hist {:?}", self.hist));
                    }
                }
                if fx(x.asset_shares) >= ONE && fx(x.liability_shares) >= ONE {
                    rep.fail(format!("C16 position holds >= 1 share on both sides; hist {:?}", self.hist));
                }
            }
            // sorted descending by bank key with inactive slots last
            let keys: Vec<Pubkey> = a.lending_account.balances.iter().map(|b| b.bank_pk).collect();
            let touched_user = match act {
                Act::Deposit { u: x, .. } | Act::Withdraw { u: x, .. } | Act::Borrow { u: x, .. } | Act::Repay { u: x, .. } | Act::CloseBalance { u: x, .. } | Act::Purge { u: x, .. } => self.users[*x].acct == u.acct,
                _ => false,
            };
            if touched_user && !matches!(act, Act::CloseBalance { .. }) {
                for w2 in keys.windows(2) {
                    if w2[0] < w2[1] {
                        rep.fail(format!("C16 balances not sorted descending by bank key after {:?}; hist {:?}", act, self.hist));
                        break;
                    }
                }
            }
        }
    }
}

pub fn run(rng: &mut Rng, n: usize, rep: &mut Report) {
    let mut done = 0;
    while done < n {
        let mut s = Scen::build(rng);
        // seed liquidity: every user deposits into a couple of banks
        for u in 0..s.users.len() {
            for b in 0..s.banks.len() {
                if rng.chance(2, 3) {
                    let act = Act::Deposit { u, b, amt: 1_000_000_000 * (1 + rng.below(1000)), upto: false };
                    s.step(&act, rep);
                    done += 1;
                }
            }
        }
        let len = 30 + rng.below(120);
        for _ in 0..len {
            let act = s.gen_act(rng);
            s.step(&act, rep);
            done += 1;
            rep.bump("cases");
        }
        // ---- closing whole accounts at the end of the scenario, on clones: as they are, and with the collateral wiped
        //      (what a price collapse followed by liquidations leaves behind: debt-only accounts)
        for u in 0..s.users.len() {
            for wipe in [false, true] {
                let mut w2 = s.w.clone();
                let key = s.users[u].acct;
                let mut a = w2.marginfi_account(&key);
                if wipe {
                    for bal in a.lending_account.balances.iter_mut().filter(|b| b.is_active()) {
                        bal.asset_shares = I80F48::ZERO.into();
                    }
                    w2.set_marginfi_account(&key, &a);
                }
                let r = w2.exec(&ix::close_account(key, s.users[u].wallet, s.users[u].wallet));
                rep.bump(if r.is_ok() { "end_close_ok" } else { "end_close_refused" });
                if r.is_ok() {
                    for bal in a.lending_account.balances.iter().filter(|b| b.is_active()) {
                        if fx(bal.asset_shares) >= ONE || fx(bal.liability_shares) >= ONE {
                            rep.fail(format!(
                                "C02 an account was closed while it held a position of {} asset / {} liability shares (the bank totals keep shares that no position backs){}; hist {:?}",
                                fx(bal.asset_shares), fx(bal.liability_shares), if wipe { " [collateral wiped by state edit]" } else { "" }, s.hist
                            ));
                            rep.fail(format!("C16 an account that is not empty was closed; hist {:?}", s.hist));
                            break;
                        }
                    }
                }
            }
        }
        // ---- directed: closing an EMPTY account that carries one of the four blocking flags, with the authority paying the
        //      fees itself and with a separate fee payer / rent recipient: refused either way; without a flag it closes
        for (u, us) in s.users.iter().enumerate() {
            use marginfi_type_crate::types::{ACCOUNT_DISABLED, ACCOUNT_FROZEN, ACCOUNT_IN_FLASHLOAN, ACCOUNT_IN_RECEIVERSHIP};
            let mut w2 = s.w.clone();
            let other_payer = w2.add_wallet(1_000_000_000);
            let mut a = w2.marginfi_account(&us.acct);
            for bal in a.lending_account.balances.iter_mut() { *bal = bytemuck::Zeroable::zeroed(); }
            a.account_flags = 0;
            for (name, flag) in [("frozen", ACCOUNT_FROZEN), ("disabled", ACCOUNT_DISABLED), ("in a flash loan", ACCOUNT_IN_FLASHLOAN), ("in receivership", ACCOUNT_IN_RECEIVERSHIP), ("unflagged", 0)] {
                for payer in [us.wallet, other_payer] {
                    let mut w3 = w2.clone();
                    let mut a3 = a;
                    a3.account_flags = flag;
                    w3.set_marginfi_account(&us.acct, &a3);
                    let r = w3.exec(&ix::close_account(us.acct, us.wallet, payer));
                    rep.bump(if r.is_ok() { "flag_close_ok" } else { "flag_close_refused" });
                    if flag != 0 && r.is_ok() {
                        rep.fail(format!("C16 an account that is {} was CLOSED by its authority ({} paying the fees / receiving the rent)", name, if payer == us.wallet { "the authority itself" } else { "a different signer" }));
                    }
                    if flag == 0 && r.is_err() {
                        rep.fail(format!("C16 an empty, unflagged account could not be closed by its authority ({})", if payer == us.wallet { "paying itself" } else { "separate fee payer" }));
                    }
                }
            }
            let _ = u;
        }
        // ---- directed: the standard (mint-token) instructions on a bank that is re-tagged as venue-backed (Kamino / Drift /
        //      Solend: its shares would be venue units): every one of them must be refused outright, on clones
        for (u, us) in s.users.iter().enumerate() {
            let b = rng.below(s.banks.len() as u64) as usize;
            let h = s.banks[b];
            let tag = *rng.pick(&[marginfi_type_crate::constants::ASSET_TAG_KAMINO, marginfi_type_crate::constants::ASSET_TAG_DRIFT, marginfi_type_crate::constants::ASSET_TAG_SOLEND]);
            let mut w2 = s.w.clone();
            let mut bk = w2.bank(&h.bank);
            bk.config.asset_tag = tag;
            w2.set_bank(&h.bank, &bk);
            let amt = 1 + rng.below(1_000_000);
            for act in [Act::Deposit { u, b, amt, upto: false }, Act::Withdraw { u, b, amt, all: false }, Act::Borrow { u, b, amt }, Act::Repay { u, b, amt, all: false }] {
                let Some(ixn) = s.instruction(&act) else { continue };
                let before = w2.accounts.clone();
                let r = w2.exec(&ixn);
                rep.bump(if r.is_ok() { "venue_bank_std_ix_accepted" } else { "venue_bank_std_ix_refused" });
                if r.is_ok() {
                    rep.fail(format!("C03 the standard instruction {:?} was ACCEPTED on a bank tagged as venue-backed (asset tag {}): mint tokens were booked one for one against shares that stand for the venue's collateral units", act, tag));
                    rep.fail(format!("C01 the standard instruction {:?} was ACCEPTED on a pass-through bank of a third-party venue (asset tag {})", act, tag));
                    w2.accounts = before;
                } else if w2.accounts != before {
                    rep.fail(format!("C08 a refused {:?} changed the account store", act));
                }
            }
            let _ = us;
        }
        // ---- directed: a purge in a sunset bank of a lender position that carries a debt residue around the 0.0001-unit
        //      tolerance while the debt share value is above 1 (on a clone; the residue is put there by state edit, as the
        //      dust a DepositOnly deposit tolerates and interest then grows)
        {
            let thr = I80F48::from_num(0.0001).to_bits();
            for b in 0..s.banks.len() {
                let h = s.banks[b];
                for u in 0..s.users.len() {
                    let key = s.users[u].acct;
                    let Some(bal0) = s.w.marginfi_account(&key).lending_account.get_balance(&h.bank).cloned() else { continue };
                    if fx(bal0.asset_shares) < ONE || fx(bal0.liability_shares) != 0 { continue; }
                    let mut w2 = s.w.clone();
                    let mut bk = w2.bank(&h.bank);
                    bk.flags |= marginfi_type_crate::constants::TOKENLESS_REPAYMENTS_ALLOWED | marginfi_type_crate::constants::TOKENLESS_REPAYMENTS_COMPLETE;
                    let lsv = ONE + (rng.below(ONE as u64) as i128);
                    bk.liability_share_value = I80F48::from_bits(lsv).into();
                    // residue: shares chosen so that the VALUE is 60 % .. 190 % of the tolerance
                    let want_val = thr * (60 + rng.below(130) as i128) / 100;
                    let shares = (want_val << 48) / lsv;
                    bk.total_liability_shares = I80F48::from_bits(fx(bk.total_liability_shares) + shares).into();
                    w2.set_bank(&h.bank, &bk);
                    let mut a = w2.marginfi_account(&key);
                    for x in a.lending_account.balances.iter_mut() {
                        if x.is_active() && x.bank_pk == h.bank { x.liability_shares = I80F48::from_bits(shares).into(); }
                    }
                    w2.set_marginfi_account(&key, &a);
                    let Some(ixn) = s.instruction(&Act::Purge { u, b }) else { continue };
                    // … and the same purge while the sunset is NOT complete (flag allowed only / no flag at all): the risk admin has
                    //     no business with a lender's balance before the bank's debts are discharged
                    for early in [marginfi_type_crate::constants::TOKENLESS_REPAYMENTS_ALLOWED, 0u64] {
                        let mut w3 = w2.clone();
                        let mut bk3 = w3.bank(&h.bank);
                        bk3.flags &= !(marginfi_type_crate::constants::TOKENLESS_REPAYMENTS_ALLOWED | marginfi_type_crate::constants::TOKENLESS_REPAYMENTS_COMPLETE);
                        bk3.flags |= early;
                        w3.set_bank(&h.bank, &bk3);
                        let r3 = w3.exec(&ixn);
                        rep.bump(if r3.is_ok() { "early_purge_accepted" } else { "early_purge_refused" });
                        if r3.is_ok() {
                            rep.fail(format!("C12 purge-before-completion: the risk admin's purge_deleverage_balance wiped a lender's balance of {} deposit shares in a bank whose token-less repayments are not flagged complete (bank flags {:#x})", fx(bal0.asset_shares), bk3.flags));
                        }
                    }
                    let r = w2.exec(&ixn);
                    let val = (big(shares) * big(lsv)) >> 48u32;
                    rep.bump(if r.is_ok() { "purge_probe_accepted" } else { "purge_probe_refused" });
                    if r.is_ok() && val >= big(thr) {
                        rep.fail(format!("C02 purge-abandons-liability-above-dust: purge_deleverage_balance closed a position whose debt residue of {} shares is worth {} bits at debt share value {} (0.0001 unit = {} bits): the bank's debt total keeps more than dust that no position backs", shares, val, lsv, thr));
                    }
                    break;
                }
            }
        }
        rep.bump("scenarios");
        rep.sample(format!("{:?}", s.hist.iter().rev().take(8).collect::<Vec<_>>()));
    }
}
