//! family `world`: the five user instructions `lending_account_deposit / withdraw / borrow / repay / close_balance` through
//! REAL DISPATCH, from the first Anchor account check to the last line of the handler, on contexts with ANY combination of
//! refusal causes: protocol pause (real pause + propagation), account flags (disabled, in flash loan, in receivership, in
//! deleverage, frozen), signer identity (owner, stranger, group admin, risk admin), bank operational state, sunset flags,
//! foreign group on the account or on the bank, a look-alike liquidity vault, integration / staked asset tags, full slot
//! arrays, zero-weight collateral, clock advances, deleverage withdrawal windows. The line carries the whole context (group,
//! account header + 16 slots, bank books + curve + state, every bank's risk view with its price); the result is the exact
//! error code, or the whole post-state: 16 slots, bank books, tokens moved, the group's withdrawal window.
//!   `wd.<dep|wd|bor|rep|close> now gkey gadmin grisk paused progFeeRate dailyLimit withdrawnToday lastReset
//!        akey agroup aauthority aflags <16 slots x 7> signer bkey bgroup bvault <bank 16> last_update <ir 23> opState origFee
//!        tfBps tfMax weightInitZero vaultKey vaultAmount nrisk (key <position line>)* amount flag
//!     => ok <16 slots x 7> <bank 16> last_update tokens dailyLimit withdrawnToday lastReset | err code | panic`
//! Token-program refusals (code < 6000: insufficient funds …) are outside the model and skipped.
use crate::fam_bank::B;
use crate::fam_curve::Ir;
use crate::mon::Report;
use crate::rng::Rng;
use crate::scen::{Act, Scen};
use crate::world::{ix, ExecErr, World};
use anchor_lang::prelude::Pubkey;
use fixed::types::I80F48;
use marginfi_type_crate::constants::{ASSET_TAG_KAMINO, ASSET_TAG_SOL, ASSET_TAG_STAKED, TOKENLESS_REPAYMENTS_ALLOWED, TOKENLESS_REPAYMENTS_COMPLETE};
use marginfi_type_crate::types::{
    BankOperationalState, MarginfiAccount, RiskTier, ACCOUNT_DISABLED, ACCOUNT_FROZEN, ACCOUNT_IN_DELEVERAGE, ACCOUNT_IN_FLASHLOAN,
    ACCOUNT_IN_RECEIVERSHIP,
};
use std::collections::HashMap;

const ONE: i128 = 1 << 48;

fn bits(v: marginfi_type_crate::types::WrappedI80F48) -> i128 {
    I80F48::from(v).to_bits()
}

/// bank keys → 1-based rank in byte order (the order `sort_balances` uses), default key → 0; every other key → a number of
/// its own above 1000 (only equality matters for those)
struct Keys {
    rank: HashMap<Pubkey, u64>,
    other: HashMap<Pubkey, u64>,
}
impl Keys {
    fn new(bank_keys: &[Pubkey]) -> Keys {
        let mut v: Vec<Pubkey> = bank_keys.to_vec();
        v.sort();
        v.dedup();
        Keys { rank: v.iter().enumerate().map(|(i, k)| (*k, i as u64 + 1)).collect(), other: HashMap::new() }
    }
    fn bank(&self, k: &Pubkey) -> u64 {
        if *k == Pubkey::default() { 0 } else { *self.rank.get(k).expect("bank key not ranked") }
    }
    fn any(&mut self, k: &Pubkey) -> u64 {
        if let Some(r) = self.rank.get(k) {
            return *r;
        }
        let next = 1001 + self.other.len() as u64;
        *self.other.entry(*k).or_insert(next)
    }
}

fn slots_line(a: &MarginfiAccount, keys: &Keys) -> String {
    a.lending_account
        .balances
        .iter()
        .map(|b| {
            format!(
                "{} {} {} {} {} {} {}",
                b.active, keys.bank(&b.bank_pk), b.bank_asset_tag, bits(b.asset_shares), bits(b.liability_shares), bits(b.emissions_outstanding), b.last_update
            )
        })
        .collect::<Vec<_>>()
        .join(" ")
}

/// the risk engine's view of a bank (`parsePos` format of the model driver, position shares left at 0)
fn risk_line(w: &World, bank: &Pubkey) -> String {
    let b = w.bank(bank);
    let entries: Vec<_> = b.emode.emode_config.entries.iter().filter(|e| e.collateral_bank_emode_tag != 0).collect();
    let mut parts = vec![format!(
        "{} {} {} {} {} {} {} {} {} {} {} {} {} {} {}",
        bits(b.asset_share_value),
        bits(b.liability_share_value),
        bits(b.total_asset_shares),
        b.mint_decimals,
        bits(b.config.asset_weight_init),
        bits(b.config.asset_weight_maint),
        bits(b.config.liability_weight_init),
        bits(b.config.liability_weight_maint),
        if b.config.risk_tier == RiskTier::Isolated { 1 } else { 0 },
        if b.config.operational_state == BankOperationalState::ReduceOnly { 1 } else { 0 },
        b.emode.emode_tag,
        b.config.total_asset_value_init_limit,
        b.config.oracle_max_confidence,
        b.config.oracle_max_age,
        entries.len()
    )];
    for e in entries {
        parts.push(format!("{} {} {} {}", e.collateral_bank_emode_tag, e.flags, bits(e.asset_weight_init), bits(e.asset_weight_maint)));
    }
    parts.push("0 0".to_string());
    parts.push(format!("0 {}", bits(b.config.fixed_price)));
    parts.join(" ")
}

struct Case {
    op: &'static str,
    u: usize,
    b: usize,
    amount: u64,
    flag: bool,
}

pub fn gen(rng: &mut Rng, n: usize, out: &mut Vec<String>) {
    let mut scratch = Report::default();
    while out.len() < n {
        let mut s = Scen::build(rng);
        // liquidity, then a warm-up of real instructions so that accounts hold deposits AND debts and time has passed
        for u in 0..s.users.len() {
            for b in 0..s.banks.len() {
                if rng.chance(2, 3) {
                    let _ = s.step(&Act::Deposit { u, b, amt: 1_000_000_000 * (1 + rng.below(1000)), upto: false }, &mut scratch);
                }
            }
        }
        for _ in 0..(10 + rng.below(40)) {
            let act = s.gen_act(rng);
            let _ = s.step(&act, &mut scratch);
        }
        let stranger = s.w.add_wallet(1_000_000_000);
        let risk_admin = s.w.add_wallet(1_000_000_000);
        {
            let gr = s.w.group(&s.group);
            s.w.set_group_admins(&s.group, gr.emode_admin, gr.delegate_curve_admin, gr.delegate_limit_admin, gr.delegate_emissions_admin, risk_admin, gr.metadata_admin);
        }
        let len = 30 + rng.below(60);
        for _ in 0..len {
            if out.len() >= n {
                break;
            }
            if rng.chance(1, 10) {
                if let Some(l) = emis_case(&s, rng, stranger) {
                    out.push(l);
                }
                continue;
            }
            if rng.chance(1, 12) {
                if let Some(l) = endfl_case(&s, rng, stranger) {
                    out.push(l);
                }
                continue;
            }
            if rng.chance(1, 25) {
                if let Some(l) = closeacct_case(&s, rng, stranger) {
                    out.push(l);
                }
                continue;
            }
            if rng.chance(1, 14) {
                if let Some(l) = delev_case(&s, rng, stranger, risk_admin) {
                    out.push(l);
                }
                continue;
            }
            if rng.chance(1, 9) {
                if let Some(l) = recv_case(&s, rng, stranger) {
                    out.push(l);
                }
                continue;
            }
            if rng.chance(1, 12) {
                if let Some(l) = startfl_case(&s, rng, stranger) {
                    out.push(l);
                }
                continue;
            }
            if rng.chance(1, 14) {
                if let Some(l) = crank_case(&s, rng) {
                    out.push(l);
                }
                continue;
            }
            if rng.chance(1, 7) {
                if let Some(l) = liq_case(&s, rng, stranger) {
                    out.push(l);
                }
                continue;
            }
            if rng.chance(1, 7) {
                if let Some(l) = bkr_case(&s, rng, stranger, risk_admin) {
                    out.push(l);
                }
                continue;
            }
            let act = s.gen_act(rng);
            let case = match act {
                Act::Deposit { u, b, amt, upto } => Case { op: "wd.dep", u, b, amount: amt, flag: upto },
                Act::Withdraw { u, b, amt, all } => Case { op: "wd.wd", u, b, amount: amt, flag: all },
                Act::Borrow { u, b, amt } => Case { op: "wd.bor", u, b, amount: amt, flag: false },
                Act::Repay { u, b, amt, all } => Case { op: "wd.rep", u, b, amount: amt, flag: all },
                Act::CloseBalance { u, b } => Case { op: "wd.close", u, b, amount: 0, flag: false },
                _ => {
                    let _ = s.step(&act, &mut scratch);
                    continue;
                }
            };
            let case = retarget(&s, case, rng);
            if let Some(l) = one_case(&s, &case, rng, stranger, risk_admin) {
                out.push(l);
            }
            // the scenario itself moves on along the unperturbed instruction
            let _ = s.step(&act, &mut scratch);
        }
    }
}

/// most generated repayments name a bank the user owes nothing in (or more than is owed), most borrows a bank the user holds a
/// deposit in: three times out of four such a case is re-aimed at a (user, bank) pair where the instruction can go through —
/// a repayment of part / exactly / all of an existing debt, a borrow from a bank the user holds no deposit in
fn retarget(s: &Scen, c: Case, rng: &mut Rng) -> Case {
    if !rng.chance(3, 4) { return c; }
    match c.op {
        "wd.rep" => {
            let mut owed = vec![];
            for (ui, us) in s.users.iter().enumerate() {
                let a = s.w.marginfi_account(&us.acct);
                for (bi, h) in s.banks.iter().enumerate() {
                    if let Some(bal) = a.lending_account.get_balance(&h.bank) {
                        let sh = bits(bal.liability_shares);
                        if sh >= ONE {
                            let debt: u64 = ((num_bigint::BigInt::from(sh) * num_bigint::BigInt::from(bits(s.w.bank(&h.bank).liability_share_value))) >> 96u32).try_into().unwrap_or(u64::MAX);
                            owed.push((ui, bi, debt));
                        }
                    }
                }
            }
            if owed.is_empty() { return c; }
            let (u, b, debt) = *rng.pick(&owed);
            let (amount, flag) = match rng.below(5) { 0 => (0, true), 1 => (debt, false), 2 => (debt.saturating_add(1), false), 3 => (1, false), _ => (1 + rng.below(debt.max(1)), false) };
            Case { op: "wd.rep", u, b, amount, flag }
        }
        "wd.bor" => {
            let a = s.w.marginfi_account(&s.users[c.u].acct);
            let free: Vec<usize> = (0..s.banks.len()).filter(|bi| a.lending_account.get_balance(&s.banks[*bi].bank).map(|x| bits(x.asset_shares) < ONE).unwrap_or(true)).collect();
            if free.is_empty() { return c; }
            Case { b: *rng.pick(&free), ..c }
        }
        _ => c,
    }
}

/// the whole context of one instruction as the model driver reads it (see the module comment)
fn context_line(s: &Scen, w: &World, op: &str, acct_key: &Pubkey, h: &crate::world::fixtures::BankHandle, signer: Pubkey, vault_passed: Pubkey, amount: i128, flag: bool) -> (String, Keys) {
    let a0 = w.marginfi_account(acct_key);
    let bank0 = w.bank(&h.bank);
    let g0 = w.group(&s.group);
    let mut bank_keys: Vec<Pubkey> = s.banks.iter().map(|x| x.bank).collect();
    bank_keys.extend(a0.lending_account.balances.iter().filter(|b| b.is_active()).map(|b| b.bank_pk));
    let mut keys = Keys::new(&bank_keys);
    let paused = g0.panic_state_cache.is_paused_flag() && !g0.panic_state_cache.is_expired(w.clock_ts);
    let (tf_bps, tf_max) = w.transfer_fee_in_force(&h.mint);
    let ir = Ir::from_real(&bank0.config.interest_rate_config, &g0);
    let risk_banks: Vec<Pubkey> = s.banks.iter().map(|x| x.bank).collect();
    let mut parts: Vec<String> = vec![
        op.to_string(),
        w.clock_ts.to_string(),
        format!(
            "{} {} {} {} {} {} {} {}",
            keys.any(&s.group), keys.any(&g0.admin), keys.any(&g0.risk_admin), paused as u8, bits(g0.fee_state_cache.program_fee_rate),
            g0.deleverage_withdraw_window_cache.daily_limit, g0.deleverage_withdraw_window_cache.withdrawn_today, g0.deleverage_withdraw_window_cache.last_daily_reset_timestamp
        ),
        format!("{} {} {} {}", keys.any(acct_key), keys.any(&a0.group), keys.any(&a0.authority), a0.account_flags),
        slots_line(&a0, &keys),
        keys.any(&signer).to_string(),
        format!("{} {} {}", keys.bank(&h.bank), keys.any(&bank0.group), keys.any(&bank0.liquidity_vault)),
        B::from_bank(&bank0).line(),
        bank0.last_update.to_string(),
        ir.line(),
        format!(
            "{} {} {} {} {}",
            bank0.config.operational_state as u8, bits(bank0.config.interest_rate_config.protocol_origination_fee), tf_bps, tf_max,
            (bits(bank0.config.asset_weight_init) == 0) as u8
        ),
        format!("{} {}", keys.any(&vault_passed), w.token_amount(&vault_passed)),
        risk_banks.len().to_string(),
    ];
    for k in &risk_banks {
        parts.push(format!("{} {}", keys.bank(k), risk_line(w, k)));
    }
    parts.push(format!("{} {}", amount, flag as u8));
    (parts.join(" "), keys)
}

/// `wd.bkr`: the REAL lending_pool_handle_bankruptcy through dispatch on a borrower whose collateral was wiped (by state edit,
/// as a price collapse followed by liquidations would) or not, with the insurance vault holding nothing / less / exactly / more
/// than the debt, any signer, the bank opted in to permissionless settlement or not, and the same refusal causes as above.
///   amount field = what the insurance vault can deliver; `=> ok <16 slots x 7> <bank 16> last_update <insurance tokens> <opState> <account flags>`
fn bkr_case(s: &Scen, rng: &mut Rng, stranger: Pubkey, risk_admin: Pubkey) -> Option<String> {
    use marginfi_type_crate::constants::PERMISSIONLESS_BAD_DEBT_SETTLEMENT_FLAG;
    // a (user, bank) pair with a debt — or, now and then, any pair
    let mut cands = vec![];
    for (ui, us) in s.users.iter().enumerate() {
        let a = s.w.marginfi_account(&us.acct);
        for (bi, h) in s.banks.iter().enumerate() {
            if let Some(bal) = a.lending_account.get_balance(&h.bank) {
                if bits(bal.liability_shares) >= ONE { cands.push((ui, bi)); }
            }
        }
    }
    let (u, b) = if !cands.is_empty() && rng.chance(9, 10) { *rng.pick(&cands) } else { (rng.below(s.users.len() as u64) as usize, rng.below(s.banks.len() as u64) as usize) };
    let h = s.banks[b];
    let mut w = s.w.clone();
    let acct_key = s.users[u].acct;
    // no transfer fee on the mint (then `available` is the vault's balance)
    if w.transfer_fee_in_force(&h.mint) != (0, 0) { return None; }
    // wipe the collateral (mostly): every deposit of the account shrinks to nothing / to cents
    if rng.chance(5, 6) {
        let mut a = w.marginfi_account(&acct_key);
        for bal in a.lending_account.balances.iter_mut().filter(|x| x.is_active()) {
            if bits(bal.asset_shares) > 0 {
                bal.asset_shares = I80F48::from_bits(match rng.below(8) { 0 => rng.below(ONE as u64) as i128, 1 => rng.below(50_000) as i128 * ONE, _ => 0 }).into();
            }
        }
        w.set_marginfi_account(&acct_key, &a);
    }
    // insurance: nothing / less / exactly / more than the debt
    let bank0 = w.bank(&h.bank);
    let debt_tokens: u64 = {
        let l = w.marginfi_account(&acct_key).lending_account.get_balance(&h.bank).map(|x| bits(x.liability_shares)).unwrap_or(0);
        ((num_bigint::BigInt::from(l) * num_bigint::BigInt::from(bits(bank0.liability_share_value))) >> 96u32).try_into().unwrap_or(u64::MAX)
    };
    let ins = match rng.below(6) { 0 => 0, 1 => debt_tokens / 2, 2 => debt_tokens, 3 => debt_tokens.saturating_add(1), 4 => debt_tokens.saturating_mul(3), _ => rng.below(debt_tokens.saturating_add(2)) };
    w.set_token_amount(&h.insurance_vault, ins);
    let mut signer = *rng.pick(&[s.admin, risk_admin, stranger, s.users[u].wallet]);
    if rng.chance(1, 2) {
        let mut bk = w.bank(&h.bank);
        bk.flags |= PERMISSIONLESS_BAD_DEBT_SETTLEMENT_FLAG;
        w.set_bank(&h.bank, &bk);
    }
    for _ in 0..(if rng.chance(2, 3) { 0 } else { 1 + rng.below(2) }) {
        match rng.below(7) {
            0 => {
                let _ = w.exec(&ix::panic_pause(s.fee_admin));
                let _ = w.exec(&ix::propagate_fee_state(s.group));
            }
            1 | 2 => {
                let mut a = w.marginfi_account(&acct_key);
                a.account_flags |= *rng.pick(&[ACCOUNT_DISABLED, ACCOUNT_IN_FLASHLOAN, ACCOUNT_IN_RECEIVERSHIP, ACCOUNT_FROZEN]);
                w.set_marginfi_account(&acct_key, &a);
            }
            3 => {
                let mut bk = w.bank(&h.bank);
                bk.config.operational_state = *rng.pick(&[BankOperationalState::Paused, BankOperationalState::ReduceOnly, BankOperationalState::KilledByBankruptcy]);
                w.set_bank(&h.bank, &bk);
            }
            4 => {
                if rng.chance(1, 2) {
                    let mut a = w.marginfi_account(&acct_key);
                    a.group = w.new_key();
                    w.set_marginfi_account(&acct_key, &a);
                } else {
                    let mut bk = w.bank(&h.bank);
                    bk.group = w.new_key();
                    w.set_bank(&h.bank, &bk);
                }
            }
            5 => w.advance(*rng.pick(&[1i64, 3600, 86400, 31_536_000])),
            _ => signer = stranger,
        }
    }
    let ixn = ix::handle_bankruptcy(&h, signer, acct_key, w.remaining_in_slot_order(&acct_key));
    let (head, keys) = context_line(s, &w, "wd.bkr", &acct_key, &h, signer, h.liquidity_vault, ins as i128, false);
    let iv0 = w.token_amount(&h.insurance_vault);
    match w.exec(&ixn) {
        Ok(()) => {
            let a1 = w.marginfi_account(&acct_key);
            let bank1 = w.bank(&h.bank);
            Some(format!(
                "{} => ok {} {} {} {} {} {}",
                head, slots_line(&a1, &keys), B::from_bank(&bank1).line(), bank1.last_update, iv0 - w.token_amount(&h.insurance_vault),
                bank1.config.operational_state as u8, a1.account_flags
            ))
        }
        Err(ExecErr::Custom(code)) if code >= 6000 => Some(format!("{} => err {}", head, code)),
        Err(ExecErr::Panic) => Some(format!("{} => panic", head)),
        Err(_) => None,
    }
}

fn acct_line(a: &MarginfiAccount, key: &Pubkey, keys: &mut Keys) -> String {
    format!("{} {} {} {} {}", keys.any(key), keys.any(&a.group), keys.any(&a.authority), a.account_flags, slots_line(a, keys))
}

fn bank_line(w: &World, h: &crate::world::fixtures::BankHandle, g: &marginfi_type_crate::types::MarginfiGroup, keys: &mut Keys) -> String {
    let b = w.bank(&h.bank);
    let (tf_bps, tf_max) = w.transfer_fee_in_force(&h.mint);
    format!(
        "{} {} {} {} {} {} {} {} {} {} {}",
        keys.bank(&h.bank), keys.any(&b.group), keys.any(&b.liquidity_vault), B::from_bank(&b).line(), b.last_update,
        Ir::from_real(&b.config.interest_rate_config, g).line(), b.config.operational_state as u8,
        bits(b.config.interest_rate_config.protocol_origination_fee), tf_bps, tf_max, (bits(b.config.asset_weight_init) == 0) as u8
    )
}

/// `wd.liq`: the REAL lending_account_liquidate through dispatch: a borrower whose collateral was shrunk (or not), a second
/// user as liquidator, seize amounts from zero to beyond the collateral, and the same refusal causes as above on either
/// account, either bank, the group and the signer.
fn liq_case(s: &Scen, rng: &mut Rng, stranger: Pubkey) -> Option<String> {
    if s.users.len() < 2 || s.banks.len() < 2 { return None; }
    // a liquidatee with a debt in L and a deposit in A
    let mut cands = vec![];
    for (ui, us) in s.users.iter().enumerate() {
        let a = s.w.marginfi_account(&us.acct);
        for (li, hl) in s.banks.iter().enumerate() {
            for (ai, ha) in s.banks.iter().enumerate() {
                if li == ai { continue; }
                let debt = a.lending_account.get_balance(&hl.bank).map(|x| bits(x.liability_shares) >= ONE).unwrap_or(false);
                let dep = a.lending_account.get_balance(&ha.bank).map(|x| bits(x.asset_shares) >= ONE).unwrap_or(false);
                if debt && dep { cands.push((ui, ai, li)); }
            }
        }
    }
    let mut w = s.w.clone();
    let mut lent_out = false;
    let (u, mut ai, li) = if !cands.is_empty() && rng.chance(3, 4) { *rng.pick(&cands) } else if rng.chance(1, 8) {
        (rng.below(s.users.len() as u64) as usize, rng.below(s.banks.len() as u64) as usize, rng.below(s.banks.len() as u64) as usize)
    } else {
        // make a borrower through the real instructions: a deposit in A, then the largest of a few borrow sizes in L that
        // the real risk gate lets through
        let u = rng.below(s.users.len() as u64) as usize;
        let ai = rng.below(s.banks.len() as u64) as usize;
        let li = (ai + 1 + rng.below(s.banks.len() as u64 - 1) as usize) % s.banks.len();
        let us = &s.users[u];
        // (one time in three a closely weighted pair, as e-mode, stable or LST pairs are: collateral counted at 97-98 %
        // against debt at 100 %, so that a liquidation, which gives 5 % away, LOWERS the account's health)
        let close_pair = rng.chance(1, 3);
        if close_pair {
            let mut bk = w.bank(&s.banks[ai].bank);
            bk.config.asset_weight_init = I80F48::from_bits(ONE / 100 * 97).into();
            bk.config.asset_weight_maint = I80F48::from_bits(ONE / 100 * 98).into();
            w.set_bank(&s.banks[ai].bank, &bk);
            let mut bk = w.bank(&s.banks[li].bank);
            bk.config.liability_weight_init = I80F48::from_bits(ONE).into();
            bk.config.liability_weight_maint = I80F48::from_bits(ONE).into();
            w.set_bank(&s.banks[li].bank, &bk);
        }
        // (someone else provides the liquidity to borrow)
        let other = &s.users[(u + 1) % s.users.len()];
        let _ = w.exec(&ix::deposit(&s.banks[li], other.acct, other.wallet, other.toks[li], 5_000_000_000_000, None));
        // (a deposit the borrower may still hold in L is taken out first: one side per bank)
        let _ = w.exec(&ix::withdraw(&s.banks[li], us.acct, us.wallet, us.toks[li], 0, Some(true), w.remaining_sorted(&us.acct, &[], &[s.banks[li].bank])));
        let _ = w.exec(&ix::deposit(&s.banks[ai], us.acct, us.wallet, us.toks[ai], 1_000_000_000 * (1 + rng.below(500)), None));
        for k in 0..12u32 {
            let amt = 4_000_000_000_000u64 >> (2 * k);
            let r = w.exec(&ix::borrow(&s.banks[li], us.acct, us.wallet, us.toks[li], amt, w.remaining_for(&us.acct, &[s.banks[li].bank])));
            if r.is_ok() { break; }
        }
        // (half of the time the collateral bank is lent out too, by the other user against the liquidity they provided: the
        // liquidatee's deposit then earns interest, so that time passing without a crank moves its health UP as well as down)
        if close_pair || rng.chance(1, 3) {
            lent_out = true;
            for k in 0..12u32 {
                let amt = 400_000_000_000u64 >> (2 * k);
                let r = w.exec(&ix::borrow(&s.banks[ai], other.acct, other.wallet, other.toks[ai], amt, w.remaining_for(&other.acct, &[s.banks[ai].bank])));
                if r.is_ok() { break; }
            }
        }
        (u, ai, li)
    };
    let mut v = rng.below(s.users.len() as u64) as usize;
    if v == u { v = (v + 1) % s.users.len(); }
    let (le_key, lq_key) = (s.users[u].acct, s.users[v].acct);
    // shrink the liquidatee's collateral so that it is (often) unhealthy at maintenance level; two times out of three the
    // factor is searched for: the mildest shrink (in steps of 2 %) after which the real engine calls the account unhealthy
    let shrink = |w: &mut World, per_mille: i128| {
        let mut a = w.marginfi_account(&le_key);
        for bal in a.lending_account.balances.iter_mut().filter(|x| x.is_active()) {
            let sh = bits(bal.asset_shares);
            if sh > 0 { bal.asset_shares = I80F48::from_bits(sh / 1000 * per_mille).into(); }
        }
        w.set_marginfi_account(&le_key, &a);
    };
    // (one time in four the clock moves on first, with no crank: the search below then sees the banks' STALE share values,
    // as pulse_health does, while the liquidation itself must judge the account at the values accrued to now)
    if lent_out || rng.chance(1, 4) { w.advance(*rng.pick(&[3600i64, 86400, 2_592_000, 31_536_000, 31_536_000])); }
    if lent_out || rng.chance(2, 3) {
        let mut found = None;
        for step in 0..50 {
            let pm = 1000 - 20 * step;
            let mut w2 = w.clone();
            shrink(&mut w2, pm);
            let r = w2.exec(&ix::pulse_health(le_key, w2.remaining_in_slot_order(&le_key)));
            if r.is_ok() {
                let hc = w2.marginfi_account(&le_key).health_cache;
                if bits(hc.asset_value_maint) < bits(hc.liability_value_maint) {
                    found = Some(pm);
                    break;
                }
            }
        }
        if let Some(pm) = found {
            shrink(&mut w, pm - if lent_out { 0 } else { *rng.pick(&[0i128, 0, 10, 50]) });
        }
    } else if rng.chance(1, 2) {
        shrink(&mut w, *rng.pick(&[100i128, 300, 500, 700, 900]));
    }
    let mut signer = s.users[v].wallet;
    for _ in 0..(if rng.chance(2, 3) { 0 } else { 1 + rng.below(2) }) {
        match rng.below(11) {
            10 => {
                // the collateral's or the debt's (fixed) price is exactly zero: no liquidation may be sized at it
                let hb = s.banks[if rng.chance(1, 2) { ai } else { li }];
                let mut bk = w.bank(&hb.bank);
                if bk.config.oracle_setup == marginfi_type_crate::types::OracleSetup::Fixed {
                    bk.config.fixed_price = I80F48::ZERO.into();
                    w.set_bank(&hb.bank, &bk);
                }
            }
            0 => {
                let _ = w.exec(&ix::panic_pause(s.fee_admin));
                let _ = w.exec(&ix::propagate_fee_state(s.group));
            }
            1 => {
                let mut a = w.marginfi_account(&lq_key);
                a.account_flags |= *rng.pick(&[ACCOUNT_DISABLED, ACCOUNT_IN_FLASHLOAN, ACCOUNT_IN_RECEIVERSHIP, ACCOUNT_FROZEN]);
                w.set_marginfi_account(&lq_key, &a);
            }
            2 => {
                let mut a = w.marginfi_account(&le_key);
                a.account_flags |= *rng.pick(&[ACCOUNT_DISABLED, ACCOUNT_IN_FLASHLOAN, ACCOUNT_IN_RECEIVERSHIP, ACCOUNT_FROZEN]);
                w.set_marginfi_account(&le_key, &a);
            }
            3 | 4 => {
                let hb = s.banks[if rng.chance(1, 2) { ai } else { li }];
                let mut bk = w.bank(&hb.bank);
                bk.config.operational_state = *rng.pick(&[BankOperationalState::Paused, BankOperationalState::ReduceOnly, BankOperationalState::KilledByBankruptcy]);
                w.set_bank(&hb.bank, &bk);
            }
            5 => {
                match rng.below(3) {
                    0 => { let mut a = w.marginfi_account(&lq_key); a.group = w.new_key(); w.set_marginfi_account(&lq_key, &a); }
                    1 => { let mut a = w.marginfi_account(&le_key); a.group = w.new_key(); w.set_marginfi_account(&le_key, &a); }
                    _ => { let hb = s.banks[if rng.chance(1, 2) { ai } else { li }]; let mut bk = w.bank(&hb.bank); bk.group = w.new_key(); w.set_bank(&hb.bank, &bk); }
                }
            }
            6 => ai = li,
            7 => {
                let hb = s.banks[if rng.chance(1, 2) { ai } else { li }];
                let mut bk = w.bank(&hb.bank);
                bk.config.asset_tag = *rng.pick(&[ASSET_TAG_STAKED, ASSET_TAG_SOL, ASSET_TAG_KAMINO]);
                w.set_bank(&hb.bank, &bk);
            }
            8 => w.advance(*rng.pick(&[1i64, 3600, 86400, 31_536_000])),
            _ => signer = *rng.pick(&[stranger, s.admin]),
        }
    }
    let (ha, hl) = (s.banks[ai], s.banks[li]);
    let dep_tokens: u64 = {
        let sh = w.marginfi_account(&le_key).lending_account.get_balance(&ha.bank).map(|x| bits(x.asset_shares)).unwrap_or(0);
        ((num_bigint::BigInt::from(sh) * num_bigint::BigInt::from(bits(w.bank(&ha.bank).asset_share_value))) >> 96u32).try_into().unwrap_or(u64::MAX)
    };
    let amount: u64 = match rng.below(12) {
        0 => 0,
        1 => 1,
        2 => dep_tokens,
        3 => dep_tokens.saturating_add(1),
        4 => dep_tokens.saturating_mul(2),
        5 => dep_tokens / 2,
        6 | 7 => (dep_tokens / (2 + rng.below(50))).max(1),
        _ => (dep_tokens / (50 + rng.below(2000))).max(1),
    };
    // fabricated keys cannot be ranked / have no risk view: only the scenario's own banks appear here
    let ixn = ix::liquidate(
        &ha, &hl, lq_key, signer, le_key, amount,
        w.oracle_metas_for(&ha.bank), w.oracle_metas_for(&hl.bank),
        w.remaining_for(&lq_key, &[ha.bank, hl.bank]), w.remaining_for(&le_key, &[]),
    );
    let g0 = w.group(&s.group);
    let (lq0, le0) = (w.marginfi_account(&lq_key), w.marginfi_account(&le_key));
    let bank_keys: Vec<Pubkey> = s.banks.iter().map(|x| x.bank).collect();
    let mut keys = Keys::new(&bank_keys);
    let paused = g0.panic_state_cache.is_paused_flag() && !g0.panic_state_cache.is_expired(w.clock_ts);
    let mut parts: Vec<String> = vec![
        "wd.liq".to_string(),
        w.clock_ts.to_string(),
        format!(
            "{} {} {} {} {} {} {} {}",
            keys.any(&s.group), keys.any(&g0.admin), keys.any(&g0.risk_admin), paused as u8, bits(g0.fee_state_cache.program_fee_rate),
            g0.deleverage_withdraw_window_cache.daily_limit, g0.deleverage_withdraw_window_cache.withdrawn_today, g0.deleverage_withdraw_window_cache.last_daily_reset_timestamp
        ),
    ];
    parts.push(acct_line(&lq0, &lq_key, &mut keys));
    parts.push(acct_line(&le0, &le_key, &mut keys));
    parts.push(keys.any(&signer).to_string());
    parts.push(bank_line(&w, &ha, &g0, &mut keys));
    parts.push(bank_line(&w, &hl, &g0, &mut keys));
    parts.push(bank_keys.len().to_string());
    for k in &bank_keys {
        parts.push(format!("{} {}", keys.bank(k), risk_line(&w, k)));
    }
    parts.push(amount.to_string());
    let head = parts.join(" ");
    // (what LEAVES the liquidity vault: with a transfer-fee mint the insurance vault receives less than is sent)
    let iv0 = w.token_amount(&hl.liquidity_vault);
    // directed search: half of the cases look for a shrink factor / seize amount that the real instruction accepts
    match w.exec(&ixn) {
        Ok(()) => {
            let (lq1, le1) = (w.marginfi_account(&lq_key), w.marginfi_account(&le_key));
            let (ba, bl) = (w.bank(&ha.bank), w.bank(&hl.bank));
            Some(format!(
                "{} => ok {} {} {} {} {} {} {}",
                head, slots_line(&lq1, &keys), slots_line(&le1, &keys), B::from_bank(&ba).line(), ba.last_update, B::from_bank(&bl).line(), bl.last_update,
                iv0 - w.token_amount(&hl.liquidity_vault)
            ))
        }
        Err(ExecErr::Custom(code)) if code >= 6000 => Some(format!("{} => err {}", head, code)),
        Err(ExecErr::Panic) => Some(format!("{} => panic", head)),
        Err(_) => None,
    }
}

/// `wd.endfl`: the REAL lending_account_end_flashloan through dispatch: the account flagged in-flash-loan (or not), healthy or with
/// its collateral shrunk, signed by its authority or by someone else, flagged disabled / frozen / in receivership or not.
///   amount field = stack height (1: top level); `=> ok <account flags afterwards>`
fn endfl_case(s: &Scen, rng: &mut Rng, stranger: Pubkey) -> Option<String> {
    let u = rng.below(s.users.len() as u64) as usize;
    let mut w = s.w.clone();
    let acct_key = s.users[u].acct;
    let mut a = w.marginfi_account(&acct_key);
    if rng.chance(5, 6) { a.account_flags |= ACCOUNT_IN_FLASHLOAN; }
    if rng.chance(1, 6) { a.account_flags |= *rng.pick(&[ACCOUNT_DISABLED, ACCOUNT_IN_RECEIVERSHIP, ACCOUNT_FROZEN]); }
    // what happened inside the bracket: collateral gone, or debt grown
    if rng.chance(1, 2) {
        let pm = *rng.pick(&[0i128, 100, 500, 900, 990]);
        for bal in a.lending_account.balances.iter_mut().filter(|x| x.is_active()) {
            let sh = bits(bal.asset_shares);
            if sh > 0 { bal.asset_shares = I80F48::from_bits(sh / 1000 * pm).into(); }
        }
    }
    w.set_marginfi_account(&acct_key, &a);
    if rng.chance(1, 6) { w.advance(*rng.pick(&[1i64, 3600, 86400])); }
    let signer = if rng.chance(1, 6) { *rng.pick(&[stranger, s.admin]) } else { s.users[u].wallet };
    let ixn = ix::end_flashloan(acct_key, signer, w.remaining_in_slot_order(&acct_key));
    // (no bank is operated on: the context carries the first bank with a key that no slot names)
    let h = s.banks[0];
    let (head, _keys) = context_line(s, &w, "wd.endfl", &acct_key, &h, signer, h.liquidity_vault, 1, false);
    // blank the bank key of the context (field 16 + 112 + 1 + ... is the 128th token: op now g8 a4 slots112 signer bkey)
    let mut toks: Vec<String> = head.split(' ').map(|x| x.to_string()).collect();
    toks[127] = "0".to_string();
    let head = toks.join(" ");
    match w.exec(&ixn) {
        Ok(()) => Some(format!("{} => ok {}", head, w.marginfi_account(&acct_key).account_flags)),
        Err(ExecErr::Custom(code)) if code >= 6000 => Some(format!("{} => err {}", head, code)),
        Err(ExecErr::Panic) => Some(format!("{} => panic", head)),
        Err(_) => None,
    }
}

/// `wd.closeacct`: the REAL marginfi_account_close through dispatch: the account as the scenario left it, or emptied (every
/// position brought to zero / to dust below one share / to exactly one share, positions left ACTIVE with nothing in them, one
/// funded position hidden below an empty one), flagged disabled / in a flash loan / in receivership / frozen, signed by its
/// authority, the group admin or a stranger.  `=> ok closed`
fn closeacct_case(s: &Scen, rng: &mut Rng, stranger: Pubkey) -> Option<String> {
    let u = rng.below(s.users.len() as u64) as usize;
    let mut w = s.w.clone();
    let acct_key = s.users[u].acct;
    let h = s.banks[0];
    let mut a = w.marginfi_account(&acct_key);
    match rng.below(6) {
        0 => {}
        1 => { for bal in a.lending_account.balances.iter_mut() { *bal = marginfi_type_crate::types::Balance::empty_deactivated(); } }
        _ => {
            // emptied, the slots still active; then one position may get something back
            let dust = |rng: &mut Rng| -> i128 { *rng.pick(&[0i128, 0, 1, ONE / 2, ONE - 1]) };
            for bal in a.lending_account.balances.iter_mut().filter(|x| x.is_active()) {
                bal.asset_shares = I80F48::from_bits(dust(rng)).into();
                bal.liability_shares = I80F48::from_bits(dust(rng)).into();
            }
            if rng.chance(1, 2) {
                let n = a.lending_account.balances.iter().filter(|x| x.is_active()).count();
                if n > 0 {
                    let k = rng.below(n as u64) as usize;
                    if let Some(bal) = a.lending_account.balances.iter_mut().filter(|x| x.is_active()).nth(k) {
                        if rng.chance(1, 2) { bal.asset_shares = I80F48::from_bits(*rng.pick(&[ONE, ONE + 1, 1000 * ONE])).into(); }
                        else { bal.liability_shares = I80F48::from_bits(*rng.pick(&[ONE, ONE + 1, 1000 * ONE])).into(); }
                    }
                }
            }
        }
    }
    if rng.chance(1, 3) { a.account_flags |= *rng.pick(&[ACCOUNT_DISABLED, ACCOUNT_IN_FLASHLOAN, ACCOUNT_IN_RECEIVERSHIP, ACCOUNT_FROZEN, ACCOUNT_IN_DELEVERAGE]); }
    w.set_marginfi_account(&acct_key, &a);
    let signer = if rng.chance(3, 4) { s.users[u].wallet } else { *rng.pick(&[stranger, s.admin]) };
    let (head, _keys) = context_line(s, &w, "wd.closeacct", &acct_key, &h, signer, h.liquidity_vault, 0, false);
    let mut toks: Vec<String> = head.split(' ').map(|x| x.to_string()).collect();
    toks[127] = "0".to_string(); // no bank is operated on
    let head = toks.join(" ");
    let holds_something = a.lending_account.balances.iter().any(|b| bits(b.asset_shares) >= ONE || bits(b.liability_shares) >= ONE);
    match w.exec(&ix::close_account(acct_key, signer, signer)) {
        // (from the property text, whatever the model says)
        Ok(()) if holds_something => Some(format!("{} => ok closed-although-not-empty", head)),
        Ok(()) if signer != s.users[u].wallet => Some(format!("{} => ok closed-for-someone-else-than-the-authority", head)),
        Ok(()) => Some(format!("{} => ok closed", head)),
        Err(ExecErr::Custom(code)) if code >= 2000 => Some(format!("{} => err {}", head, code)),
        Err(ExecErr::Panic) => Some(format!("{} => panic", head)),
        Err(_) => None,
    }
}

/// `wd.emis`: the REAL lending_account_withdraw_emissions through dispatch on a bank whose emissions were set up by the real
/// lending_pool_setup_emissions (any rate, small and large pools, deposit and / or debt side active), after some time has passed,
/// for the owner or someone else, on flagged accounts, in a paused group.
///   amount field = 1 (the bank's own emissions mint is passed); `=> ok <16 slots x 7> <bank 16> last_update <tokens paid> <window 3>`
fn emis_case(s: &Scen, rng: &mut Rng, stranger: Pubkey) -> Option<String> {
    use marginfi_type_crate::constants::{EMISSIONS_FLAG_BORROW_ACTIVE, EMISSIONS_FLAG_LENDING_ACTIVE};
    let mut cands = vec![];
    for (ui, us) in s.users.iter().enumerate() {
        let a = s.w.marginfi_account(&us.acct);
        for (bi, h) in s.banks.iter().enumerate() {
            if a.lending_account.get_balance(&h.bank).is_some() { cands.push((ui, bi)); }
        }
    }
    let (u, b) = if !cands.is_empty() && rng.chance(9, 10) { *rng.pick(&cands) } else { (rng.below(s.users.len() as u64) as usize, rng.below(s.banks.len() as u64) as usize) };
    let h = s.banks[b];
    let mut w = s.w.clone();
    let acct_key = s.users[u].acct;
    let emint = w.add_mint(crate::world::TokenKind::Spl, *rng.pick(&[6u8, 9, 0]));
    let tp = w.token_program_of(&emint);
    let total: u64 = match rng.below(4) { 0 => 1 + rng.below(50), 1 => 1_000 + rng.below(1_000_000), _ => 1_000_000_000 + rng.below(1_000_000_000_000) };
    let rate: u64 = match rng.below(4) { 0 => 1 + rng.below(1000), 1 => 1_000_000_000 * (1 + rng.below(1000)), 2 => rng.below(u32::MAX as u64) * 1000, _ => 1_000_000 * (1 + rng.below(100)) };
    let fl = *rng.pick(&[EMISSIONS_FLAG_LENDING_ACTIVE, EMISSIONS_FLAG_BORROW_ACTIVE, EMISSIONS_FLAG_LENDING_ACTIVE | EMISSIONS_FLAG_BORROW_ACTIVE]);
    let funding = w.add_token_account(emint, s.admin, u64::MAX / 4);
    if w.exec(&ix::setup_emissions(&h, s.admin, emint, funding, tp, fl, rate, total)).is_err() { return None; }
    let (vault, _) = ix::emissions_vault_pda(&h.bank, &emint);
    w.advance(*rng.pick(&[0i64, 1, 60, 3600, 86400, 31_536_000]));
    // an earlier claim now and then (real instruction), then more time
    if rng.chance(1, 3) {
        let _ = w.exec(&ix::settle_emissions(&h, acct_key));
        w.advance(*rng.pick(&[1i64, 3600, 604800]));
    }
    let mut signer = s.users[u].wallet;
    for _ in 0..(if rng.chance(2, 3) { 0 } else { 1 }) {
        match rng.below(5) {
            0 => {
                let _ = w.exec(&ix::panic_pause(s.fee_admin));
                let _ = w.exec(&ix::propagate_fee_state(s.group));
            }
            1 | 2 => {
                let mut a = w.marginfi_account(&acct_key);
                a.account_flags |= *rng.pick(&[ACCOUNT_DISABLED, ACCOUNT_IN_FLASHLOAN, ACCOUNT_IN_RECEIVERSHIP, ACCOUNT_FROZEN]);
                w.set_marginfi_account(&acct_key, &a);
            }
            3 => {
                let mut a = w.marginfi_account(&acct_key);
                a.group = w.new_key();
                w.set_marginfi_account(&acct_key, &a);
            }
            _ => signer = *rng.pick(&[stranger, s.admin]),
        }
    }
    let dest = w.add_token_account(emint, signer, 0);
    let ixn = ix::withdraw_emissions(&h, acct_key, signer, emint, vault, dest, tp);
    let (head, keys) = context_line(s, &w, "wd.emis", &acct_key, &h, signer, h.liquidity_vault, 1, false);
    match w.exec(&ixn) {
        Ok(()) => {
            let a1 = w.marginfi_account(&acct_key);
            let bank1 = w.bank(&h.bank);
            let g1 = w.group(&s.group);
            Some(format!(
                "{} => ok {} {} {} {} {} {} {}",
                head, slots_line(&a1, &keys), B::from_bank(&bank1).line(), bank1.last_update, w.token_amount(&dest),
                g1.deleverage_withdraw_window_cache.daily_limit, g1.deleverage_withdraw_window_cache.withdrawn_today, g1.deleverage_withdraw_window_cache.last_daily_reset_timestamp
            ))
        }
        Err(ExecErr::Custom(code)) if code >= 6000 => Some(format!("{} => err {}", head, code)),
        Err(ExecErr::Panic) => Some(format!("{} => panic", head)),
        Err(_) => None,
    }
}

/// `wd.startliq` / `wd.endliq`: the REAL start_liquidation (inside a REAL atomic transaction of varying shape: the start's own
/// verdict is read off the index of the first failing instruction; a committed [start, end] leaves the start's snapshot in the
/// record) and the REAL end_liquidation (dispatched on an account put into receivership with a snapshot around its current
/// valuation), on borrowers whose collateral was shrunk or not, with the account's own record or another one, the receiver the
/// record names or someone else, the fee state's wallet or another one, flagged or not.
///   wd.startliq … recordOk receiver n code_1..code_n cur `=> ok <flags> <receiver> <snapshot x4>`
///   wd.endliq   … recordOk recReceiver walletOk feeMax <snapshot x4> `=> ok <flags>`
fn recv_case(s: &Scen, rng: &mut Rng, stranger: Pubkey) -> Option<String> {
    let mut cands = vec![];
    for (ui, us) in s.users.iter().enumerate() {
        let a = s.w.marginfi_account(&us.acct);
        if a.lending_account.balances.iter().any(|b| b.is_active() && bits(b.liability_shares) >= ONE) { cands.push(ui); }
    }
    if cands.is_empty() && rng.chance(19, 20) { return None; }
    let u = if !cands.is_empty() && rng.chance(9, 10) { *rng.pick(&cands) } else { rng.below(s.users.len() as u64) as usize };
    let v = (u + 1) % s.users.len();
    let mut w = s.w.clone();
    let acct_key = s.users[u].acct;
    let h = s.banks[0];
    // mostly unhealthy: the collateral shrinks
    if rng.chance(9, 10) {
        let mut a = w.marginfi_account(&acct_key);
        let pm = *rng.pick(&[0i128, 0, 0, 1, 10, 100]);
        for bal in a.lending_account.balances.iter_mut().filter(|x| x.is_active()) {
            let sh = bits(bal.asset_shares);
            if sh > 0 { bal.asset_shares = I80F48::from_bits(sh / 1000 * pm).into(); }
        }
        w.set_marginfi_account(&acct_key, &a);
    }
    let receiver = w.add_wallet(1_000_000_000);
    let rec_key = w.add_liquidation_record(acct_key, receiver);
    let other_rec = w.add_liquidation_record(s.users[v].acct, receiver);
    let (fs_key, _) = crate::world::fixtures::fee_state_pda();
    let mut fs = w.fee_state(&fs_key);
    let fee_bits: i128 = *rng.pick(&[0i128, ONE / 100 * 3, ONE / 20, ONE / 10, ONE / 5]);
    fs.liquidation_max_fee = I80F48::from_bits(fee_bits).into();
    fs.liquidation_flat_sol_fee = *rng.pick(&[0u32, 0, 5000]);
    let fee_wallet = fs.global_fee_wallet;
    w.set_fee_state(&fs_key, &fs);
    if rng.chance(1, 5) {
        let mut a = w.marginfi_account(&acct_key);
        a.account_flags |= *rng.pick(&[ACCOUNT_DISABLED, ACCOUNT_IN_FLASHLOAN, ACCOUNT_IN_RECEIVERSHIP]);
        w.set_marginfi_account(&acct_key, &a);
    }
    // (the filler instruction of the transactions below is an accrual crank on bank 0: it runs here once, so that inside the
    // transaction it changes nothing and the start sees exactly the state the line describes)
    let _ = w.exec(&ix::accrue(&h));
    let risk = w.remaining_in_slot_order(&acct_key);
    if rng.chance(1, 2) {
        // ---- the start, inside a transaction
        let record_ok = rng.chance(7, 8);
        let mut start = ix::start_liquidation(acct_key, receiver, risk.clone());
        if !record_ok { start.accounts[1].pubkey = other_rec; }
        let end = ix::end_liquidation(acct_key, receiver, fee_wallet, risk.clone());
        let filler = ix::accrue(&h);
        // (codes: 0 start, 1 end, 4 another marginfi instruction)
        let (ixs, codes, cur): (Vec<solana_sdk::instruction::Instruction>, Vec<i128>, usize) = match rng.below(10) {
            0 => (vec![start.clone()], vec![0], 0),
            1 => (vec![filler.clone(), start.clone(), end.clone()], vec![4, 0, 1], 1),
            2 => (vec![start.clone(), start.clone(), end.clone()], vec![0, 0, 1], 0),
            3 => (vec![start.clone(), filler.clone(), end.clone()], vec![0, 4, 1], 0),
            4 => (vec![start.clone(), end.clone(), filler.clone()], vec![0, 1, 4], 0),
            _ => (vec![start.clone(), end.clone()], vec![0, 1], 0),
        };
        let a0 = w.marginfi_account(&acct_key);
        let (head, mut keys) = context_line(s, &w, "wd.startliq", &acct_key, &h, receiver, h.liquidity_vault, 0, false);
        // replace the trailing "amount flag" by the start's own arguments
        let mut toks: Vec<String> = head.split(' ').map(|x| x.to_string()).collect();
        toks.truncate(toks.len() - 2);
        toks[127] = "0".to_string();
        toks.push(format!("{} {} {}", record_ok as u8, keys.any(&receiver), codes.len()));
        toks.push(codes.iter().map(|c| c.to_string()).collect::<Vec<_>>().join(" "));
        toks.push(cur.to_string());
        let head = toks.join(" ");
        return match w.exec_tx(&ixs) {
            Err((i, _)) if i < cur => None,
            Err((i, ExecErr::Custom(code))) if i == cur && code >= 6000 => Some(format!("{} => err {}", head, code)),
            Err((i, ExecErr::Panic)) if i == cur => Some(format!("{} => panic", head)),
            // (the start went through and a later instruction failed: the snapshot is not observable, the acceptance is)
            Err((i, _)) if i > cur && !record_ok => Some(format!("{} => ok accepted-with-foreign-record", head)),
            Err(_) => None,
            // (from the property text, whatever the table says: control over an account is recorded in ITS record)
            Ok(()) if !record_ok => Some(format!("{} => ok accepted-with-foreign-record", head)),
            Ok(()) => {
                let rec = w.liquidation_record(&rec_key);
                Some(format!(
                    "{} => ok {} {} {} {} {} {}",
                    head, a0.account_flags | ACCOUNT_IN_RECEIVERSHIP, keys.any(&receiver),
                    bits(rec.cache.asset_value_maint), bits(rec.cache.liability_value_maint), bits(rec.cache.asset_value_equity), bits(rec.cache.liability_value_equity)
                ))
            }
        };
    }
    // ---- the end, on an account in receivership with a snapshot around the current valuation
    let mut probe = w.clone();
    if probe.exec(&ix::pulse_health(acct_key, risk.clone())).is_err() { return None; }
    let hc = probe.marginfi_account(&acct_key).health_cache;
    let (am, lm, ae, le) = (bits(hc.asset_value_maint), bits(hc.liability_value_maint), bits(hc.asset_value_equity), bits(hc.liability_value_equity));
    let jit = |rng: &mut Rng, x: i128| -> i128 { match rng.below(5) { 0 => x, 1 => x + 1, 2 => (x - 1).max(0), 3 => x + (rng.below(ONE as u64) as i128), _ => (x - (rng.below(ONE as u64) as i128)).max(0) } };
    let (pam, plm) = (jit(rng, am), jit(rng, lm));
    let prem = ONE + fee_bits.max(ONE / 20);
    let repaid: i128 = match rng.below(4) { 0 => 0, 1 => rng.below(1000) as i128, 2 => (1 + rng.below(100_000) as i128) * ONE, _ => le / 2 + 1 };
    let at_cap: i128 = ((num_bigint::BigInt::from(repaid) * num_bigint::BigInt::from(prem)) >> 48u32).try_into().unwrap_or(i128::MAX / 4);
    let seized: i128 = match rng.below(6) { 0 => 0, 1 => at_cap, 2 => at_cap + 1, 3 => (at_cap - 1).max(0), 4 => repaid, _ => at_cap.saturating_mul(2) };
    let (pae, ple) = (ae.saturating_add(seized), le.saturating_add(repaid));
    let named = if rng.chance(7, 8) { receiver } else { stranger };
    let mut rec = w.liquidation_record(&rec_key);
    rec.liquidation_receiver = named;
    rec.cache.asset_value_maint = I80F48::from_bits(pam).into();
    rec.cache.liability_value_maint = I80F48::from_bits(plm).into();
    rec.cache.asset_value_equity = I80F48::from_bits(pae).into();
    rec.cache.liability_value_equity = I80F48::from_bits(ple).into();
    w.set_liquidation_record(&rec_key, &rec);
    {
        let mut a = w.marginfi_account(&acct_key);
        if rng.chance(9, 10) { a.account_flags |= ACCOUNT_IN_RECEIVERSHIP; }
        w.set_marginfi_account(&acct_key, &a);
    }
    let record_ok = rng.chance(7, 8);
    let wallet_ok = rng.chance(7, 8);
    let mut end = ix::end_liquidation(acct_key, receiver, if wallet_ok { fee_wallet } else { stranger }, risk.clone());
    if !record_ok {
        // (another account's record, naming the same receiver)
        let mut r2 = w.liquidation_record(&other_rec);
        r2.liquidation_receiver = named;
        w.set_liquidation_record(&other_rec, &r2);
        end.accounts[1].pubkey = other_rec;
    }
    let (head, mut keys) = context_line(s, &w, "wd.endliq", &acct_key, &h, receiver, h.liquidity_vault, 0, false);
    let mut toks: Vec<String> = head.split(' ').map(|x| x.to_string()).collect();
    toks.truncate(toks.len() - 2);
    toks[127] = "0".to_string();
    toks.push(format!("{} {} {} {} {} {} {} {}", record_ok as u8, keys.any(&named), wallet_ok as u8, fee_bits, pam, plm, pae, ple));
    let head = toks.join(" ");
    match w.exec(&end) {
        Ok(()) if !record_ok => Some(format!("{} => ok accepted-with-foreign-record", head)),
        Ok(()) if named != receiver => Some(format!("{} => ok accepted-for-someone-else-than-the-receiver", head)),
        Ok(()) => Some(format!("{} => ok {}", head, w.marginfi_account(&acct_key).account_flags)),
        Err(ExecErr::Custom(code)) if code >= 6000 => Some(format!("{} => err {}", head, code)),
        Err(ExecErr::Panic) => Some(format!("{} => panic", head)),
        Err(_) => None,
    }
}

/// `wd.startdelev` / `wd.enddelev`: the REAL start_deleverage inside REAL transactions (the bracket rule with the deleverage
/// pair; liquidation starts / ends and other instructions mixed in) and the REAL end_deleverage on an account in receivership
/// with a snapshot around the current valuation; signed by the risk admin, the group admin, a stranger; the account's own
/// record or another one; an account of this group or of another one; healthy or not (a deleverage needs no unhealthy account).
///   `wd.startdelev <context, signer = the risk_admin passed> recordOk n code_1 … code_n cur`  (codes: 0/1 start/end_liquidation,
///      5/6 start/end_deleverage, 4 another marginfi instruction)  `=> ok <flags> <receiver> <cache x4>`
///   `wd.enddelev <context> recordOk recReceiver aMaint lMaint aEq lEq`  `=> ok <flags>`
fn delev_case(s: &Scen, rng: &mut Rng, stranger: Pubkey, risk_admin: Pubkey) -> Option<String> {
    let u = rng.below(s.users.len() as u64) as usize;
    let v = (u + 1) % s.users.len();
    let mut w = s.w.clone();
    let acct_key = s.users[u].acct;
    let h = s.banks[0];
    if rng.chance(1, 3) {
        let mut a = w.marginfi_account(&acct_key);
        let pm = *rng.pick(&[0i128, 1, 100, 500]);
        for bal in a.lending_account.balances.iter_mut().filter(|x| x.is_active()) {
            let sh = bits(bal.asset_shares);
            if sh > 0 { bal.asset_shares = I80F48::from_bits(sh / 1000 * pm).into(); }
        }
        w.set_marginfi_account(&acct_key, &a);
    }
    let rec_key = w.add_liquidation_record(acct_key, Pubkey::default());
    let other_rec = w.add_liquidation_record(s.users[v].acct, Pubkey::default());
    if rng.chance(1, 5) {
        let mut a = w.marginfi_account(&acct_key);
        a.account_flags |= *rng.pick(&[ACCOUNT_DISABLED, ACCOUNT_IN_FLASHLOAN, ACCOUNT_IN_RECEIVERSHIP, ACCOUNT_FROZEN]);
        w.set_marginfi_account(&acct_key, &a);
    }
    if rng.chance(1, 10) {
        let mut a = w.marginfi_account(&acct_key);
        a.group = w.new_key();
        w.set_marginfi_account(&acct_key, &a);
    }
    let signer = if rng.chance(3, 4) { risk_admin } else { *rng.pick(&[stranger, s.admin, s.users[u].wallet]) };
    let _ = w.exec(&ix::accrue(&h)); // (the filler of the transactions below: a no-op inside them)
    let risk = w.remaining_in_slot_order(&acct_key);
    if rng.chance(1, 2) {
        let record_ok = rng.chance(7, 8);
        let mut start = ix::start_deleverage(s.group, acct_key, signer, risk.clone());
        if !record_ok { start.accounts[1].pubkey = other_rec; }
        let end = ix::end_deleverage(s.group, acct_key, signer, risk.clone());
        let filler = ix::accrue(&h);
        let liq_start = ix::start_liquidation(acct_key, signer, risk.clone());
        let fee_wallet = w.fee_state(&crate::world::fixtures::fee_state_pda().0).global_fee_wallet;
        let liq_end = ix::end_liquidation(acct_key, signer, fee_wallet, risk.clone());
        let (ixs, codes, cur): (Vec<solana_sdk::instruction::Instruction>, Vec<i128>, usize) = match rng.below(12) {
            0 => (vec![start.clone()], vec![5], 0),
            1 => (vec![filler.clone(), start.clone(), end.clone()], vec![4, 5, 6], 1),
            2 => (vec![start.clone(), start.clone(), end.clone()], vec![5, 5, 6], 0),
            3 => (vec![start.clone(), filler.clone(), end.clone()], vec![5, 4, 6], 0),
            4 => (vec![start.clone(), end.clone(), filler.clone()], vec![5, 6, 4], 0),
            5 => (vec![start.clone(), liq_end.clone()], vec![5, 1], 0),
            6 => (vec![start.clone(), liq_start.clone(), end.clone()], vec![5, 0, 6], 0),
            7 => (vec![start.clone(), liq_end.clone(), end.clone()], vec![5, 1, 6], 0),
            _ => (vec![start.clone(), end.clone()], vec![5, 6], 0),
        };
        let a0 = w.marginfi_account(&acct_key);
        let (head, mut keys) = context_line(s, &w, "wd.startdelev", &acct_key, &h, signer, h.liquidity_vault, 0, false);
        let mut toks: Vec<String> = head.split(' ').map(|x| x.to_string()).collect();
        toks.truncate(toks.len() - 2);
        toks[127] = "0".to_string();
        toks.push(format!("{} {}", record_ok as u8, codes.len()));
        toks.push(codes.iter().map(|c| c.to_string()).collect::<Vec<_>>().join(" "));
        toks.push(cur.to_string());
        let head = toks.join(" ");
        return match w.exec_tx(&ixs) {
            Err((i, _)) if i < cur => None,
            Err((i, ExecErr::Custom(code))) if i == cur && code >= 2000 => Some(format!("{} => err {}", head, code)),
            Err((i, ExecErr::Panic)) if i == cur => Some(format!("{} => panic", head)),
            // (from the property text, whatever the table says: only the risk admin may take an account over this way, through ITS record)
            Err((i, _)) if i > cur && signer != risk_admin => Some(format!("{} => ok accepted-for-someone-else-than-the-risk-admin", head)),
            Err((i, _)) if i > cur && !record_ok => Some(format!("{} => ok accepted-with-foreign-record", head)),
            Err(_) => None,
            Ok(()) if signer != risk_admin => Some(format!("{} => ok accepted-for-someone-else-than-the-risk-admin", head)),
            Ok(()) if !record_ok => Some(format!("{} => ok accepted-with-foreign-record", head)),
            Ok(()) => {
                // (committed: the end has cleared the markers again; the snapshot stays in the record)
                let rec = w.liquidation_record(&rec_key);
                Some(format!(
                    "{} => ok {} {} {} {} {} {}",
                    head, a0.account_flags | ACCOUNT_IN_RECEIVERSHIP | ACCOUNT_IN_DELEVERAGE, keys.any(&signer),
                    bits(rec.cache.asset_value_maint), bits(rec.cache.liability_value_maint), bits(rec.cache.asset_value_equity), bits(rec.cache.liability_value_equity)
                ))
            }
        };
    }
    // ---- the end
    let mut probe = w.clone();
    if probe.exec(&ix::pulse_health(acct_key, risk.clone())).is_err() { return None; }
    let hc = probe.marginfi_account(&acct_key).health_cache;
    let (am, lm, ae, le) = (bits(hc.asset_value_maint), bits(hc.liability_value_maint), bits(hc.asset_value_equity), bits(hc.liability_value_equity));
    let jit = |rng: &mut Rng, x: i128| -> i128 { match rng.below(5) { 0 => x, 1 => x + 1, 2 => (x - 1).max(0), 3 => x + (rng.below(ONE as u64) as i128), _ => (x - (rng.below(ONE as u64) as i128)).max(0) } };
    let (pam, plm) = (jit(rng, am), jit(rng, lm));
    let (pae, ple) = (jit(rng, ae), jit(rng, le));
    let named = if rng.chance(7, 8) { risk_admin } else { *rng.pick(&[stranger, Pubkey::default()]) };
    let mut rec = w.liquidation_record(&rec_key);
    rec.liquidation_receiver = named;
    rec.cache.asset_value_maint = I80F48::from_bits(pam).into();
    rec.cache.liability_value_maint = I80F48::from_bits(plm).into();
    rec.cache.asset_value_equity = I80F48::from_bits(pae).into();
    rec.cache.liability_value_equity = I80F48::from_bits(ple).into();
    w.set_liquidation_record(&rec_key, &rec);
    {
        let mut a = w.marginfi_account(&acct_key);
        if rng.chance(9, 10) { a.account_flags |= ACCOUNT_IN_RECEIVERSHIP; }
        if rng.chance(4, 5) { a.account_flags |= ACCOUNT_IN_DELEVERAGE; }
        w.set_marginfi_account(&acct_key, &a);
    }
    let record_ok = rng.chance(7, 8);
    let mut end = ix::end_deleverage(s.group, acct_key, signer, risk.clone());
    if !record_ok {
        let mut r2 = w.liquidation_record(&other_rec);
        r2.liquidation_receiver = named;
        w.set_liquidation_record(&other_rec, &r2);
        end.accounts[1].pubkey = other_rec;
    }
    let (head, mut keys) = context_line(s, &w, "wd.enddelev", &acct_key, &h, signer, h.liquidity_vault, 0, false);
    let mut toks: Vec<String> = head.split(' ').map(|x| x.to_string()).collect();
    toks.truncate(toks.len() - 2);
    toks[127] = "0".to_string();
    toks.push(format!("{} {} {} {} {} {}", record_ok as u8, keys.any(&named), pam, plm, pae, ple));
    let head = toks.join(" ");
    match w.exec(&end) {
        Ok(()) if signer != risk_admin || named != risk_admin => Some(format!("{} => ok accepted-for-someone-else-than-the-risk-admin", head)),
        Ok(()) if !record_ok => Some(format!("{} => ok accepted-with-foreign-record", head)),
        Ok(()) => Some(format!("{} => ok {}", head, w.marginfi_account(&acct_key).account_flags)),
        Err(ExecErr::Custom(code)) if code >= 2000 => Some(format!("{} => err {}", head, code)),
        Err(ExecErr::Panic) => Some(format!("{} => panic", head)),
        Err(_) => None,
    }
}

/// `wd.startfl`: the REAL lending_account_start_flashloan inside a REAL transaction (atomic `exec_tx`, the Instructions sysvar
/// holding the whole transaction): the start at any position, `end_index` pointing at a top-level end_flashloan for the same
/// account / for another account / at an instruction that is no end / backwards or at itself / beyond the transaction; the
/// account flagged disabled, in a flash loan, in receivership, frozen or not; signed by its authority or by someone else.
/// The start's own verdict is read off the index of the first failing instruction.
///   amount field = cur * 1000000 + end_index * 100 + (0: nothing at end_index, 1: not an end for this account, 2: an end for it)
///   `=> ok <account flags with the in-flash-loan bit>`
fn startfl_case(s: &Scen, rng: &mut Rng, stranger: Pubkey) -> Option<String> {
    if s.users.len() < 2 { return None; }
    let u = rng.below(s.users.len() as u64) as usize;
    let v = (u + 1) % s.users.len();
    let mut w = s.w.clone();
    let acct_key = s.users[u].acct;
    let mut a = w.marginfi_account(&acct_key);
    if rng.chance(1, 4) { a.account_flags |= *rng.pick(&[ACCOUNT_DISABLED, ACCOUNT_IN_FLASHLOAN, ACCOUNT_IN_RECEIVERSHIP, ACCOUNT_FROZEN]); }
    w.set_marginfi_account(&acct_key, &a);
    let signer = if rng.chance(1, 6) { *rng.pick(&[stranger, s.admin]) } else { s.users[u].wallet };
    let h = s.banks[0];
    // the transaction: fillers, the start at `cur`, fillers, something at `target`, fillers
    let pre = rng.below(3) as usize;
    let mid = rng.below(3) as usize;
    let post = rng.below(2) as usize;
    let cur = pre;
    let target = pre + 1 + mid;
    let kind = rng.below(8); // what sits at `target`
    let mut ixs: Vec<solana_sdk::instruction::Instruction> = vec![];
    for _ in 0..pre { ixs.push(ix::accrue(&h)); }
    ixs.push(ix::accrue(&h)); // placeholder for the start
    for _ in 0..mid { ixs.push(ix::accrue(&h)); }
    let own_end = ix::end_flashloan(acct_key, s.users[u].wallet, w.remaining_in_slot_order(&acct_key));
    let (at_target, code): (Option<solana_sdk::instruction::Instruction>, i128) = match kind {
        0 => (Some(ix::end_flashloan(s.users[v].acct, s.users[v].wallet, w.remaining_in_slot_order(&s.users[v].acct))), 1),
        1 => (Some(ix::accrue(&h)), 1),
        2 => (None, 0),
        _ => (Some(own_end.clone()), 2),
    };
    if let Some(t) = &at_target { ixs.push(t.clone()); }
    for _ in 0..post { ixs.push(ix::accrue(&h)); }
    // where the start points: at the target (mostly), at itself, backwards, beyond the transaction
    let (end_index, code) = match rng.below(10) {
        0 => (cur, 1),
        1 if cur > 0 => (cur - 1, 1),
        2 => (ixs.len() + rng.below(3) as usize, 0),
        _ => (target, if at_target.is_some() { code } else { 0 }),
    };
    if at_target.is_none() && end_index == target && end_index < ixs.len() { return None; } // (a filler sits there instead)
    ixs[cur] = ix::start_flashloan(acct_key, signer, end_index as u64);
    let amount = (cur as i128) * 1_000_000 + (end_index as i128) * 100 + code;
    let (head, _keys) = context_line(s, &w, "wd.startfl", &acct_key, &h, signer, h.liquidity_vault, amount, false);
    let mut toks: Vec<String> = head.split(' ').map(|x| x.to_string()).collect();
    toks[127] = "0".to_string(); // no bank is operated on
    let head = toks.join(" ");
    let flags0 = a.account_flags;
    match w.exec_tx(&ixs) {
        Err((i, _)) if i < cur => None,
        Err((i, ExecErr::Custom(code))) if i == cur && code >= 6000 => Some(format!("{} => err {}", head, code)),
        Err((i, ExecErr::Panic)) if i == cur => Some(format!("{} => panic", head)),
        Err((i, _)) if i == cur => None,
        _ if signer != s.users[u].wallet => Some(format!("{} => ok accepted-for-someone-else-than-the-authority", head)),
        _ => Some(format!("{} => ok {}", head, flags0 | ACCOUNT_IN_FLASHLOAN)),
    }
}

/// `wd.accrue` / `wd.collect`: the REAL permissionless cranks lending_pool_accrue_bank_interest and lending_pool_collect_bank_fees
/// through dispatch: after any lapse of time, on a bank of the group or of a foreign group, in a paused group, with the liquidity
/// vault full / partly drained / empty, fee buckets as the warm-up left them or pumped up, the right fee ATA or another account.
///   wd.accrue  `=> ok <bank 16> last_update`
///   wd.collect amount field = 1 (right fee ATA) / 0; `=> ok <bank 16> last_update <to insurance> <to fee vault> <to program ATA>`
fn crank_case(s: &Scen, rng: &mut Rng) -> Option<String> {
    let b = rng.below(s.banks.len() as u64) as usize;
    let h = s.banks[b];
    let mut w = s.w.clone();
    let collect = rng.chance(3, 5);
    w.advance(*rng.pick(&[0i64, 1, 60, 3600, 86400, 2_592_000, 31_536_000]));
    if collect {
        // fees to collect: accrue for real first (mostly), pump a bucket now and then
        if rng.chance(3, 4) { let _ = w.exec(&ix::accrue(&h)); }
        if rng.chance(2, 3) {
            let mut bk = w.bank(&h.bank);
            for which in 0..3 {
                if rng.chance(1, 2) { continue; }
                let add = match rng.below(3) { 0 => rng.below(ONE as u64) as i128, 1 => (rng.below(1_000_000) as i128) * ONE + rng.below(ONE as u64) as i128, _ => (rng.below(u32::MAX as u64) as i128) * ONE };
                match which {
                    0 => bk.collected_insurance_fees_outstanding = I80F48::from_bits(bits(bk.collected_insurance_fees_outstanding) + add).into(),
                    1 => bk.collected_group_fees_outstanding = I80F48::from_bits(bits(bk.collected_group_fees_outstanding) + add).into(),
                    _ => bk.collected_program_fees_outstanding = I80F48::from_bits(bits(bk.collected_program_fees_outstanding) + add).into(),
                }
            }
            w.set_bank(&h.bank, &bk);
        }
        // the vault: as it is / a few tokens / nothing
        match rng.below(5) {
            0 => w.set_token_amount(&h.liquidity_vault, 0),
            1 => w.set_token_amount(&h.liquidity_vault, rng.below(5)),
            2 => { let v = w.token_amount(&h.liquidity_vault); w.set_token_amount(&h.liquidity_vault, v / (1 + rng.below(1000))); }
            _ => {}
        }
    }
    let mut foreign = false;
    for _ in 0..(if rng.chance(2, 3) { 0 } else { 1 + rng.below(2) }) {
        match rng.below(3) {
            0 => {
                let _ = w.exec(&ix::panic_pause(s.fee_admin));
                let _ = w.exec(&ix::propagate_fee_state(s.group));
            }
            1 => {
                let mut bk = w.bank(&h.bank);
                bk.group = w.new_key();
                w.set_bank(&h.bank, &bk);
                foreign = true;
            }
            _ => {
                let mut bk = w.bank(&h.bank);
                bk.config.operational_state = *rng.pick(&[BankOperationalState::Paused, BankOperationalState::ReduceOnly, BankOperationalState::KilledByBankruptcy]);
                w.set_bank(&h.bank, &bk);
            }
        }
    }
    // (no margin account is named: the context carries the first user's, which the instruction never sees)
    let acct_key = s.users[0].acct;
    let signer = s.users[0].wallet;
    if !collect {
        let (head, _keys) = context_line(s, &w, "wd.accrue", &acct_key, &h, signer, h.liquidity_vault, 0, false);
        return match w.exec(&ix::accrue(&h)) {
            // (written from the property text, not from the table: a crank must not run a bank under another group's settings)
            Ok(()) if foreign => Some(format!("{} => ok accepted-with-foreign-group", head)),
            Ok(()) => {
                let bank1 = w.bank(&h.bank);
                Some(format!("{} => ok {} {}", head, B::from_bank(&bank1).line(), bank1.last_update))
            }
            Err(ExecErr::Custom(code)) if code >= 6000 => Some(format!("{} => err {}", head, code)),
            Err(ExecErr::Panic) => Some(format!("{} => panic", head)),
            Err(_) => None,
        };
    }
    // the global fee wallet was rotated in the fee state and nobody propagated it to the group yet (now and then): the
    // destination is the LIVE wallet's token account, whatever copy of it the group still carries
    let mut live_wallet = s.fee_wallet;
    if rng.chance(1, 4) {
        let (fs_key, _) = crate::world::fixtures::fee_state_pda();
        let mut fs = w.fee_state(&fs_key);
        live_wallet = w.add_wallet(0);
        fs.global_fee_wallet = live_wallet;
        w.set_fee_state(&fs_key, &fs);
    }
    let right = w.ata(&live_wallet, &h.mint);
    if w.get(&right).is_none() { w.add_ata(live_wallet, h.mint, 0); }
    let stale = w.ata(&s.fee_wallet, &h.mint);
    if w.get(&stale).is_none() { w.add_ata(s.fee_wallet, h.mint, 0); }
    let fee_ata = match rng.below(8) {
        0 => w.add_token_account(h.mint, s.users[0].wallet, 0),
        1 | 2 => stale,
        _ => right,
    };
    let ata_ok = fee_ata == right;
    let (head, _keys) = context_line(s, &w, "wd.collect", &acct_key, &h, signer, h.liquidity_vault, ata_ok as i128, false);
    let (i0, f0, p0) = (w.token_amount(&h.insurance_vault), w.token_amount(&h.fee_vault), w.token_amount(&fee_ata));
    let v0 = w.token_amount(&h.liquidity_vault);
    // (a transfer-fee mint delivers less than it takes: what LEAVES the liquidity vault is compared, per destination, on plain mints only)
    if w.transfer_fee_in_force(&h.mint) != (0, 0) { return None; }
    match w.exec(&ix::collect_fees(&h, fee_ata)) {
        Ok(()) if foreign => Some(format!("{} => ok accepted-with-foreign-group", head)),
        Ok(()) if !ata_ok => Some(format!("{} => ok accepted-with-wrong-fee-ata", head)),
        Ok(()) => {
            let bank1 = w.bank(&h.bank);
            let (di, df, dp) = (w.token_amount(&h.insurance_vault) - i0, w.token_amount(&h.fee_vault) - f0, w.token_amount(&fee_ata) - p0);
            if v0 - w.token_amount(&h.liquidity_vault) != di + df + dp { return Some(format!("{} => ok vault-delta-mismatch", head)); }
            Some(format!("{} => ok {} {} {} {} {}", head, B::from_bank(&bank1).line(), bank1.last_update, di, df, dp))
        }
        Err(ExecErr::Custom(code)) if code >= 6000 => Some(format!("{} => err {}", head, code)),
        Err(ExecErr::Panic) => Some(format!("{} => panic", head)),
        Err(_) => None,
    }
}

fn one_case(s: &Scen, c: &Case, rng: &mut Rng, stranger: Pubkey, risk_admin: Pubkey) -> Option<String> {
    let mut w = s.w.clone();
    let h = s.banks[c.b];
    let us = &s.users[c.u];
    let owner = us.wallet;
    let acct_key = us.acct;
    let writes_tokens_in = c.op == "wd.dep" || c.op == "wd.rep";

    // ---- perturbations (half of the cases run unperturbed; the others carry one to three refusal causes or state twists)
    let np = if rng.chance(1, 2) { 0 } else { 1 + rng.below(3) };
    let mut signer = owner;
    let mut vault_passed = h.liquidity_vault;
    let mut fake_banks: Vec<Pubkey> = vec![];
    for _ in 0..np {
        match rng.below(18) {
            17 => {
                // the bank's (fixed) price is exactly zero: legal for the admin to set; a withdrawal in receivership must not be
                // sized at it
                let mut b = w.bank(&h.bank);
                if b.config.oracle_setup == marginfi_type_crate::types::OracleSetup::Fixed {
                    b.config.fixed_price = I80F48::ZERO.into();
                    w.set_bank(&h.bank, &b);
                }
                if rng.chance(2, 3) {
                    let mut a = w.marginfi_account(&acct_key);
                    a.account_flags |= ACCOUNT_IN_RECEIVERSHIP;
                    w.set_marginfi_account(&acct_key, &a);
                    if rng.chance(1, 2) { signer = stranger; }
                }
            }
            0 => {
                let _ = w.exec(&ix::panic_pause(s.fee_admin));
                let _ = w.exec(&ix::propagate_fee_state(s.group));
                if rng.chance(1, 3) {
                    w.advance(*rng.pick(&[1799i64, 1800, 1801]));
                }
            }
            16 => {
                // the LIVE fee state moves away from the copy the group carries (rates, wallet, a pause nobody propagated yet):
                // the user instructions read the group's copy
                let (fs_key, _) = crate::world::fixtures::fee_state_pda();
                let mut fs = w.fee_state(&fs_key);
                fs.program_fee_rate = I80F48::from_bits(rng.below(ONE as u64 / 2) as i128).into();
                fs.program_fee_fixed = I80F48::from_bits(rng.below(ONE as u64 / 10) as i128).into();
                fs.global_fee_wallet = w.new_key();
                w.set_fee_state(&fs_key, &fs);
                if rng.chance(1, 2) { let _ = w.exec(&ix::panic_pause(s.fee_admin)); }
            }
            1 | 2 => {
                let mut a = w.marginfi_account(&acct_key);
                a.account_flags |= *rng.pick(&[ACCOUNT_DISABLED, ACCOUNT_IN_FLASHLOAN, ACCOUNT_IN_RECEIVERSHIP, ACCOUNT_FROZEN, ACCOUNT_IN_RECEIVERSHIP | ACCOUNT_IN_DELEVERAGE, ACCOUNT_IN_DELEVERAGE]);
                w.set_marginfi_account(&acct_key, &a);
            }
            3 | 4 => {
                signer = *rng.pick(&[stranger, s.admin, risk_admin, owner]);
            }
            5 | 6 => {
                let mut b = w.bank(&h.bank);
                b.config.operational_state = *rng.pick(&[BankOperationalState::Paused, BankOperationalState::ReduceOnly, BankOperationalState::KilledByBankruptcy, BankOperationalState::Operational]);
                w.set_bank(&h.bank, &b);
            }
            7 => {
                let mut b = w.bank(&h.bank);
                b.flags |= *rng.pick(&[TOKENLESS_REPAYMENTS_ALLOWED, TOKENLESS_REPAYMENTS_ALLOWED | TOKENLESS_REPAYMENTS_COMPLETE, TOKENLESS_REPAYMENTS_COMPLETE]);
                w.set_bank(&h.bank, &b);
            }
            8 => {
                if rng.chance(1, 2) {
                    let mut a = w.marginfi_account(&acct_key);
                    a.group = w.new_key();
                    w.set_marginfi_account(&acct_key, &a);
                } else {
                    let mut b = w.bank(&h.bank);
                    b.group = w.new_key();
                    w.set_bank(&h.bank, &b);
                }
            }
            9 => {
                // a look-alike vault: another token account of the same mint
                vault_passed = w.add_token_account(h.mint, h.liquidity_vault_authority, 1_000_000_000);
            }
            10 => {
                let mut b = w.bank(&h.bank);
                b.config.asset_tag = *rng.pick(&[ASSET_TAG_KAMINO, ASSET_TAG_STAKED, ASSET_TAG_SOL, ASSET_TAG_STAKED]);
                w.set_bank(&h.bank, &b);
            }
            11 => {
                // a full slot array (only where the risk engine is not reached with the fake positions: a bank the account
                // holds no position in, deposit / borrow)
                let mut a = w.marginfi_account(&acct_key);
                if (c.op == "wd.dep" || c.op == "wd.bor") && a.lending_account.get_balance(&h.bank).is_none() {
                    for bal in a.lending_account.balances.iter_mut() {
                        if !bal.is_active() {
                            let k = w.new_key();
                            bal.active = 1;
                            bal.bank_pk = k;
                            fake_banks.push(k);
                        }
                    }
                    if rng.chance(1, 3) {
                        // … or all but one
                        if let Some(last) = a.lending_account.balances.iter_mut().rev().find(|b| fake_banks.contains(&b.bank_pk)) {
                            *last = marginfi_type_crate::types::Balance::empty_deactivated();
                        }
                    }
                    use marginfi::state::marginfi_account::LendingAccountImpl;
                    a.lending_account.sort_balances();
                    w.set_marginfi_account(&acct_key, &a);
                }
            }
            12 => {
                let mut b = w.bank(&h.bank);
                b.config.asset_weight_init = I80F48::ZERO.into();
                w.set_bank(&h.bank, &b);
            }
            13 => {
                let mut g = w.group(&s.group);
                g.deleverage_withdraw_window_cache.daily_limit = *rng.pick(&[0u32, 1, 100, 1_000_000, u32::MAX]);
                g.deleverage_withdraw_window_cache.withdrawn_today = *rng.pick(&[0u32, 99, 100, 999_999, u32::MAX - 1]);
                g.deleverage_withdraw_window_cache.last_daily_reset_timestamp = w.clock_ts - *rng.pick(&[0i64, 100, 86_399, 86_400, 86_401, 1_000_000]);
                w.set_group(&s.group, &g);
                let mut a = w.marginfi_account(&acct_key);
                a.account_flags |= ACCOUNT_IN_RECEIVERSHIP | ACCOUNT_IN_DELEVERAGE;
                w.set_marginfi_account(&acct_key, &a);
            }
            14 => {
                w.advance(*rng.pick(&[1i64, 60, 3600, 86400, 31_536_000]));
            }
            _ => {
                // the vault holds less than the books say (a completed deleverage pays what is left)
                let cur = w.token_amount(&h.liquidity_vault);
                w.set_token_amount(&h.liquidity_vault, rng.below(cur.saturating_add(1)));
                if rng.chance(1, 2) {
                    let mut b = w.bank(&h.bank);
                    b.flags |= TOKENLESS_REPAYMENTS_COMPLETE;
                    w.set_bank(&h.bank, &b);
                }
            }
        }
    }
    // a signer other than the owner needs a funded token account of its own for the inbound transfer
    let tok = if signer == owner { us.toks[c.b] } else { w.add_token_account(h.mint, signer, 100_000_000_000_000) };

    // ---- the instruction, built against the perturbed store
    let hv = crate::world::fixtures::BankHandle { liquidity_vault: vault_passed, ..h };
    let ixn = match c.op {
        "wd.dep" => ix::deposit(&hv, acct_key, signer, tok, c.amount, if c.flag { Some(true) } else { None }),
        "wd.rep" => ix::repay(&hv, acct_key, signer, tok, c.amount, if c.flag { Some(true) } else { None }),
        "wd.wd" => {
            let risk = if c.flag { w.remaining_sorted(&acct_key, &[], &[h.bank]) } else { w.remaining_for(&acct_key, &[]) };
            // in receivership the handler first looks for the bank's own oracle accounts: `[bank, oracles…]` in front
            let in_recv = w.marginfi_account(&acct_key).account_flags & ACCOUNT_IN_RECEIVERSHIP != 0;
            let risk = if in_recv { w.bank_and_oracle_metas(&h.bank) } else { risk };
            ix::withdraw(&hv, acct_key, signer, tok, c.amount, if c.flag { Some(true) } else { None }, risk)
        }
        "wd.bor" => {
            // (fabricated slots of a full array have no bank account behind them: the handler refuses before the engine runs)
            let risk = if fake_banks.is_empty() { w.remaining_for(&acct_key, &[h.bank]) } else { w.bank_and_oracle_metas(&h.bank) };
            ix::borrow(&hv, acct_key, signer, tok, c.amount, risk)
        }
        _ => ix::close_balance(&hv, acct_key, signer),
    };
    let _ = writes_tokens_in;

    // ---- the context line
    let (head, keys) = context_line(s, &w, c.op, &acct_key, &h, signer, vault_passed, c.amount as i128, c.flag);
    // ---- run it
    let (vault0, user0) = (w.token_amount(&h.liquidity_vault), w.token_amount(&tok));
    let r = w.exec(&ixn);
    match r {
        Ok(()) => {
            let a1 = w.marginfi_account(&acct_key);
            let bank1 = w.bank(&h.bank);
            let g1 = w.group(&s.group);
            let (vault1, user1) = (w.token_amount(&h.liquidity_vault), w.token_amount(&tok));
            let tokens = match c.op {
                "wd.dep" | "wd.rep" => user0 - user1,
                "wd.close" => 0,
                _ => vault0 - vault1,
            };
            Some(format!(
                "{} => ok {} {} {} {} {} {} {}",
                head, slots_line(&a1, &keys), B::from_bank(&bank1).line(), bank1.last_update, tokens,
                g1.deleverage_withdraw_window_cache.daily_limit, g1.deleverage_withdraw_window_cache.withdrawn_today, g1.deleverage_withdraw_window_cache.last_daily_reset_timestamp
            ))
        }
        Err(ExecErr::Custom(code)) if code >= 6000 => Some(format!("{} => err {}", head, code)),
        Err(ExecErr::Panic) => Some(format!("{} => panic", head)),
        Err(_) => None,
    }
}
