//! Syscall stubs for running the program in-process: silent logs, a settable Clock, stack height 1.
use solana_program::program_stubs::{set_syscall_stubs, SyscallStubs};
use std::sync::atomic::{AtomicI64, AtomicU64, Ordering};

pub static CLOCK_TS: AtomicI64 = AtomicI64::new(0);
pub static CLOCK_SLOT: AtomicU64 = AtomicU64::new(0);
pub static STACK_HEIGHT: AtomicU64 = AtomicU64::new(1);

pub fn set_clock(ts: i64, slot: u64) {
    CLOCK_TS.store(ts, Ordering::SeqCst);
    CLOCK_SLOT.store(slot, Ordering::SeqCst);
}

struct Stubs;

impl SyscallStubs for Stubs {
    fn sol_log(&self, _message: &str) {}
    fn sol_log_data(&self, _fields: &[&[u8]]) {}
    fn sol_log_compute_units(&self) {}
    fn sol_get_stack_height(&self) -> u64 {
        STACK_HEIGHT.load(Ordering::SeqCst)
    }
    fn sol_get_clock_sysvar(&self, var_addr: *mut u8) -> u64 {
        let clock = solana_program::clock::Clock {
            slot: CLOCK_SLOT.load(Ordering::SeqCst),
            epoch_start_timestamp: 0,
            epoch: 0,
            leader_schedule_epoch: 0,
            unix_timestamp: CLOCK_TS.load(Ordering::SeqCst),
        };
        unsafe {
            *(var_addr as *mut solana_program::clock::Clock) = clock;
        }
        0
    }
}

pub fn install() {
    set_syscall_stubs(Box::new(Stubs));
}
