//! One xorshift64* PRNG; every random choice in the harness comes from here (seeded by VERIF_SEED).
#[derive(Clone)]
pub struct Rng(pub u64);

impl Rng {
    pub fn new(seed: u64) -> Self {
        let mut r = Rng(seed.wrapping_mul(0x9E3779B97F4A7C15) ^ 0xD1B54A32D192ED03);
        if r.0 == 0 {
            r.0 = 0x2545F4914F6CDD1D;
        }
        for _ in 0..4 {
            r.next();
        }
        r
    }
    pub fn next(&mut self) -> u64 {
        let mut x = self.0;
        x ^= x >> 12;
        x ^= x << 25;
        x ^= x >> 27;
        self.0 = x;
        x.wrapping_mul(0x2545F4914F6CDD1D)
    }
    pub fn below(&mut self, n: u64) -> u64 {
        if n == 0 {
            0
        } else {
            self.next() % n
        }
    }
    pub fn range(&mut self, lo: i64, hi: i64) -> i64 {
        // inclusive
        let span = (hi as i128 - lo as i128 + 1) as u128;
        (lo as i128 + (self.next() as u128 % span) as i128) as i64
    }
    pub fn chance(&mut self, num: u64, den: u64) -> bool {
        self.below(den) < num
    }
    pub fn pick<'a, T>(&mut self, xs: &'a [T]) -> &'a T {
        &xs[self.below(xs.len() as u64) as usize]
    }
    pub fn u128(&mut self) -> u128 {
        ((self.next() as u128) << 64) | self.next() as u128
    }
    /// "interesting" u64: boundary-heavy distribution
    pub fn u64_mixed(&mut self) -> u64 {
        match self.below(10) {
            0 => *self.pick(&[0u64, 1, 2, 3, 9, 10, 255, 256, 1000, 999_999, 1_000_000, 1_000_001]),
            1 => u64::MAX - self.below(3),
            2 => 1u64 << self.below(64),
            3 => (1u64 << self.below(64)).wrapping_sub(1),
            4 => (1u64 << self.below(64)).wrapping_add(1),
            5 => self.below(1000),
            6 => self.below(1_000_000_000_000),
            7 => 10u64.pow(self.below(20) as u32),
            _ => self.next() >> self.below(64),
        }
    }
    /// random I80F48 bit pattern with a boundary-heavy distribution
    pub fn fx_bits(&mut self) -> i128 {
        const ONE: i128 = 1 << 48;
        match self.below(14) {
            0 => *self.pick(&[0i128, 1, -1, ONE, -ONE, ONE - 1, ONE + 1, 2 * ONE, ONE / 2, ONE / 10]),
            1 => i128::MAX - self.below(3) as i128,
            2 => i128::MIN + self.below(3) as i128,
            3 => (self.below(1_000_000) as i128) * ONE,
            4 => self.below(ONE as u64 * 4) as i128,
            5 => -(self.below(ONE as u64 * 4) as i128),
            6 => (self.u64_mixed() as i128) * ONE,
            7 => (self.u64_mixed() as i128) * ONE + self.below(ONE as u64) as i128,
            8 => {
                let sh = self.below(127) as u32;
                (self.u128() >> 1) as i128 >> sh
            }
            9 => {
                let sh = self.below(127) as u32;
                -((self.u128() >> 1) as i128 >> sh)
            }
            10 => (1i128 << self.below(127)) + self.range(-2, 2) as i128,
            11 => -(1i128 << self.below(127)) + self.range(-2, 2) as i128,
            12 => (self.below(1 << 20) as i128) << self.below(60),
            _ => self.u128() as i128,
        }
    }
    /// non-negative "amount-like" fixed value up to ~2^64 integer part
    pub fn fx_amount(&mut self) -> i128 {
        const ONE: i128 = 1 << 48;
        match self.below(6) {
            0 => (self.u64_mixed() as i128) * ONE,
            1 => (self.u64_mixed() as i128) * ONE + self.below(ONE as u64) as i128,
            2 => self.below(ONE as u64 * 16) as i128,
            3 => (self.below(1_000_000_000) as i128) * ONE + self.below(ONE as u64) as i128,
            4 => (self.below(1_000_000_000_000_000) as i128) * ONE,
            _ => ((self.u128() >> 17) as i128) >> self.below(100),
        }
    }
}

impl Rng {
    /// decimals / exponents: half of the time one of the usual values given, otherwise ANY row of the program's 24-row
    /// power-of-ten table (and, where `over` allows, one or two past its end)
    pub fn dec_wide(&mut self, usual: &[u8], over: u8) -> u8 {
        if self.chance(1, 2) { *self.pick(usual) } else { self.below(24 + over as u64) as u8 }
    }
}
