//! C03 monitor: exact (big-integer) value accounting around real wrapper operations.
use crate::fam_bank::{gen_balance, gen_bank, gen_op_amount, run_wrapper_op, Bal, B, ONE};
use crate::fam_tokenfee::{gen_cfg, tf};
use crate::mon::Report;
use crate::rng::Rng;
use num_bigint::BigInt;

fn net(b: &B, x: &Bal) -> BigInt {
    BigInt::from(x.a) * BigInt::from(b.asv) - BigInt::from(x.l) * BigInt::from(b.lsv)
}

pub fn run(rng: &mut Rng, n: usize, rep: &mut Report) {
    let one = BigInt::from(ONE);
    // directed candidate (known finding C03-F1 = C20-F2): a venue conversion that announces one unit above the exact value
    crate::mon_c20::conversion_above_exact("C03", rep);
    for i in 0..n {
        rep.bump("cases");
        if i % 5 == 4 {
            // transfer-fee inverse: pre − fee(pre) ≥ post on the real functions
            let (bps, max) = gen_cfg(rng);
            if bps > 10000 {
                continue;
            }
            let post = rng.u64_mixed();
            // half of the cases go through the mint-account wrapper the handlers call (calculate_pre_fee_spl_deposit_amount):
            // a real Token-2022 mint with an older and a newer fee and an arbitrary epoch on either side of the switch
            if rng.chance(1, 2) {
                use spl_token_2022::extension::{transfer_fee::TransferFeeConfig, BaseStateWithExtensions, StateWithExtensions};
                let mut w = crate::world::World::new();
                let mint = w.add_mint(crate::world::TokenKind::T22Fee { bps, max_fee: max }, 6);
                let (nb, _) = gen_cfg(rng);
                let act_epoch = rng.below(6);
                if rng.chance(2, 3) {
                    w.schedule_fee_change(&mint, if rng.chance(1, 3) { 0 } else { nb.min(10000) }, max, act_epoch);
                }
                let epoch = rng.below(8);
                let mut acct = w.get(&mint).unwrap().clone();
                let owner = acct.owner;
                let mut lam = acct.lamports;
                let fee_of = {
                    let st = StateWithExtensions::<spl_token_2022::state::Mint>::unpack(&acct.data).unwrap();
                    let cfg = *st.get_extension::<TransferFeeConfig>().unwrap();
                    move |x: u64| cfg.calculate_epoch_fee(epoch, x)
                };
                let r = {
                    let ai = anchor_lang::prelude::AccountInfo::new(&mint, false, false, &mut lam, &mut acct.data, &owner, false, 0);
                    std::panic::catch_unwind(std::panic::AssertUnwindSafe(|| marginfi::utils::calculate_pre_fee_spl_deposit_amount(ai, post, epoch)))
                };
                if let Ok(Ok(pre)) = r {
                    if let Some(fee) = fee_of(pre) {
                        rep.bump("prefee_mint");
                        if pre - fee < post {
                            rep.fail(format!("pre-fee amount from the mint account does not cover: the receiver gets {} of the {} credited (sent {}, fee {} at epoch {}, switch at epoch {})", pre - fee, post, pre, fee, epoch, act_epoch));
                        }
                    }
                }
                continue;
            }
            let t = tf(bps, max);
            if let Some(pre) = crate::fam_tokenfee::pre_fee(bps, max, post) {
                if let Some(fee) = t.calculate_fee(pre) {
                    rep.bump("prefee");
                    if pre - fee < post {
                        rep.fail(format!("pre-fee amount does not cover: bps={} max={} post={} pre={} fee={}", bps, max, post, pre, fee));
                    }
                }
            }
            continue;
        }
        let now: i64 = 1_700_000_000 + rng.range(0, 10_000_000);
        let mut bank = gen_bank(rng);
        bank.emissions_rate = 0; // emissions are C19's
        let mut bal = gen_balance(rng, &bank, now);
        if bal.a >= ONE && bal.l >= ONE {
            bal.l = 0;
        }
        let op = *rng.pick(&["w.dep", "w.rep", "w.wd", "w.bor", "w.wdall", "w.repall"]);
        let amount_tokens = (gen_op_amount(rng, &bank, &bal) / ONE).max(0);
        let mut amount = amount_tokens * ONE;
        if op == "w.wd" && rng.chance(1, 3) && bank.asv > 0 {
            // boundary: a position worth a hair (< ZERO_AMOUNT_THRESHOLD) less than the whole-token amount asked for:
            // the shortfall must be booked as (dust) debt, never given away
            let n_tok = 1 + rng.below(100_000) as i128;
            let thr = (ONE / 10_000) as u64; // 0.0001
            let target = n_tok * ONE - 1 - rng.below(thr + thr / 4) as i128;
            let shares = (BigInt::from(target) * BigInt::from(ONE) / BigInt::from(bank.asv)).to_string().parse::<i128>().unwrap_or(0);
            if shares > 0 && shares <= bank.sa {
                bal.a = shares;
                bal.l = 0;
                amount = n_tok * ONE;
                rep.bump("wd_hair_short");
            }
        }
        let (_, post) = run_wrapper_op(op, &bank, &bal, now, amount);
        let Some((nb, nbal)) = post else { continue };
        if nb.asv != bank.asv || nb.lsv != bank.lsv {
            rep.fail(format!("share value changed by a user op {}: pre [{}] post [{}]", op, bank.line(), nb.line()));
        }
        rep.bump(&format!("ok_{}", op));
        let before = net(&bank, &bal);
        let after = net(&nb, &nbal);
        let paid = BigInt::from(amount) * &one; // tokens·2^96
        match op {
            "w.dep" | "w.rep" => {
                if &after - &before > paid {
                    rep.fail(format!("{} of {} credited more value than paid: pre [{}|{}] post [{}]", op, amount, bank.line(), bal.line(), nbal.line()));
                }
            }
            "w.wd" | "w.bor" => {
                let slack = BigInt::from(bank.asv) + BigInt::from(bank.lsv);
                if &before - &after <= &paid - &slack {
                    rep.fail(format!("{} of {} debited less value than paid out (beyond one ulp per share value): pre [{}|{}] post [{}]", op, amount, bank.line(), bal.line(), nbal.line()));
                }
            }
            _ => {}
        }
        if nbal.a < 0 || nbal.l < 0 {
            rep.fail(format!("negative shares after {}: [{}]", op, nbal.line()));
        }
        rep.sample(format!("{} {} pre[{}] post[{}]", op, amount, bal.line(), nbal.line()));
    }
    // full-close ops need the returned token amount: re-run through the op output
    for _ in 0..(n / 4) {
        let now: i64 = 1_700_000_000 + rng.range(0, 10_000_000);
        let mut bank = gen_bank(rng);
        bank.emissions_rate = 0;
        let mut bal = gen_balance(rng, &bank, now);
        let op = if rng.chance(1, 2) { "w.wdall" } else { "w.repall" };
        if op == "w.wdall" {
            bal.l = rng.below(3) as i128;
            bal.a = bal.a.max(ONE * (1 + rng.below(1000) as i128) + rng.below(ONE as u64) as i128).min(bank.sa.max(0));
        } else {
            bal.a = rng.below(3) as i128;
            bal.l = bal.l.max(ONE * (1 + rng.below(1000) as i128) + rng.below(ONE as u64) as i128).min(bank.sl.max(0));
        }
        // most full closes carry no unsettled rewards; some carry a fraction, some whole units (those must be REFUSED,
        // never paid out while the position stays open)
        bal.emis = match rng.below(5) {
            0 => rng.below(ONE as u64) as i128,
            1 => ONE + rng.below(1 << 50) as i128,
            _ => 0,
        };
        let (out, post) = run_wrapper_op(op, &bank, &bal, now, 0);
        let Some((_, nbal)) = &post else { continue };
        if nbal.active != 0 || nbal.a != 0 || nbal.l != 0 {
            rep.fail(format!(
                "{} succeeded (tokens moved) but the position is still open: pre [{}|{}] post [{}]",
                op, bank.line(), bal.line(), nbal.line()
            ));
        }
        let amt: i128 = out.rsplit(' ').next().unwrap().parse().unwrap();
        let tokens = BigInt::from(amt) * &one * &one;
        rep.bump(&format!("full_{}", op));
        if op == "w.wdall" {
            if tokens > BigInt::from(bal.a) * BigInt::from(bank.asv) {
                rep.fail(format!("withdraw_all paid {} > exact value of {} shares at asv {}", amt, bal.a, bank.asv));
            }
        } else if tokens <= BigInt::from(bal.l) * BigInt::from(bank.lsv) - &one {
            rep.fail(format!("repay_all charged {} < exact value of {} shares at lsv {} (minus one ulp)", amt, bal.l, bank.lsv));
        }
    }
}
