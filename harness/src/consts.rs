//! `dump-consts`: every constant the Lean model uses, printed from the real crates
//! (exact bit patterns / integers). The translator turns this into Mfi/Gen/Consts.lean.
use marginfi::constants as pc;
use marginfi_type_crate::constants as tc;
use marginfi_type_crate::types::PanicState;

fn fx(name: &str, v: fixed::types::I80F48) {
    println!("int {} {}", name, v.to_bits());
}
fn int<T: std::fmt::Display>(name: &str, v: T) {
    println!("int {} {}", name, v);
}
fn bytes(name: &str, v: &[u8]) {
    println!(
        "bytes {} {}",
        name,
        v.iter().map(|b| b.to_string()).collect::<Vec<_>>().join(",")
    );
}

pub fn dump() {
    fx("LIQUIDATION_LIQUIDATOR_FEE", tc::LIQUIDATION_LIQUIDATOR_FEE);
    fx("LIQUIDATION_INSURANCE_FEE", tc::LIQUIDATION_INSURANCE_FEE);
    fx("SECONDS_PER_YEAR", tc::SECONDS_PER_YEAR);
    int("DAILY_RESET_INTERVAL", tc::DAILY_RESET_INTERVAL);
    int("ORACLE_MIN_AGE", tc::ORACLE_MIN_AGE);
    int("MAX_PYTH_ORACLE_AGE", tc::MAX_PYTH_ORACLE_AGE);
    fx("CONF_INTERVAL_MULTIPLE", tc::CONF_INTERVAL_MULTIPLE);
    fx("STD_DEV_MULTIPLE", tc::STD_DEV_MULTIPLE);
    fx("MAX_CONF_INTERVAL", tc::MAX_CONF_INTERVAL);
    fx("U32_MAX_FX", tc::U32_MAX);
    fx("U32_MAX_DIV_10_FX", tc::U32_MAX_DIV_10);
    fx("EMPTY_BALANCE_THRESHOLD", tc::EMPTY_BALANCE_THRESHOLD);
    fx("BANKRUPT_THRESHOLD", tc::BANKRUPT_THRESHOLD);
    fx("ZERO_AMOUNT_THRESHOLD", tc::ZERO_AMOUNT_THRESHOLD);
    int("EMISSIONS_FLAG_BORROW_ACTIVE", tc::EMISSIONS_FLAG_BORROW_ACTIVE);
    int("EMISSIONS_FLAG_LENDING_ACTIVE", tc::EMISSIONS_FLAG_LENDING_ACTIVE);
    int("PERMISSIONLESS_BAD_DEBT_SETTLEMENT_FLAG", tc::PERMISSIONLESS_BAD_DEBT_SETTLEMENT_FLAG);
    int("FREEZE_SETTINGS", tc::FREEZE_SETTINGS);
    int("CLOSE_ENABLED_FLAG", tc::CLOSE_ENABLED_FLAG);
    int("TOKENLESS_REPAYMENTS_ALLOWED", tc::TOKENLESS_REPAYMENTS_ALLOWED);
    int("TOKENLESS_REPAYMENTS_COMPLETE", tc::TOKENLESS_REPAYMENTS_COMPLETE);
    int("EMISSION_FLAGS", tc::EMISSION_FLAGS);
    int("GROUP_FLAGS", tc::GROUP_FLAGS);
    int("MIN_EMISSIONS_START_TIME", tc::MIN_EMISSIONS_START_TIME);
    int("MAX_EXP_10_I80F48", tc::MAX_EXP_10_I80F48);
    for (i, v) in tc::EXP_10_I80F48.iter().enumerate() {
        fx(&format!("EXP_10_I80F48_{}", i), *v);
    }
    int("MAX_EXP_10", tc::MAX_EXP_10);
    for (i, v) in tc::EXP_10.iter().enumerate() {
        int(&format!("EXP_10_{}", i), *v);
    }
    int("TOTAL_ASSET_VALUE_INIT_LIMIT_INACTIVE", tc::TOTAL_ASSET_VALUE_INIT_LIMIT_INACTIVE);
    int("ASSET_TAG_DEFAULT", tc::ASSET_TAG_DEFAULT);
    int("ASSET_TAG_SOL", tc::ASSET_TAG_SOL);
    int("ASSET_TAG_STAKED", tc::ASSET_TAG_STAKED);
    int("ASSET_TAG_KAMINO", tc::ASSET_TAG_KAMINO);
    int("ASSET_TAG_DRIFT", tc::ASSET_TAG_DRIFT);
    int("ASSET_TAG_SOLEND", tc::ASSET_TAG_SOLEND);
    int("MAX_INTEGRATION_POSITIONS", tc::MAX_INTEGRATION_POSITIONS);
    int("PAUSE_DURATION_SECONDS", PanicState::PAUSE_DURATION_SECONDS);
    int("MAX_CONSECUTIVE_PAUSES", PanicState::MAX_CONSECUTIVE_PAUSES);
    int("MAX_DAILY_PAUSES", PanicState::MAX_DAILY_PAUSES);
    int("FLAG_PAUSED", PanicState::FLAG_PAUSED);
    fx("LIQUIDATION_BONUS_FEE_MINIMUM", pc::LIQUIDATION_BONUS_FEE_MINIMUM);
    fx("LIQUIDATION_CLOSEOUT_DOLLAR_THRESHOLD", pc::LIQUIDATION_CLOSEOUT_DOLLAR_THRESHOLD);
    int("DRIFT_SCALED_BALANCE_DECIMALS", pc::DRIFT_SCALED_BALANCE_DECIMALS);
    int("ACCOUNT_TRANSFER_FEE", pc::ACCOUNT_TRANSFER_FEE);
    int("DRIFT_MATH_ERROR", 6000 + drift_mocks::DriftMocksError::MathError as u32);
    {
        use tc::discriminators as d;
        bytes("DISC_GROUP", &d::GROUP);
        bytes("DISC_BANK", &d::BANK);
        bytes("DISC_ACCOUNT", &d::ACCOUNT);
        bytes("DISC_FEE_STATE", &d::FEE_STATE);
        bytes("DISC_STAKED_SETTINGS", &d::STAKED_SETTINGS);
        bytes("DISC_LIQUIDATION_RECORD", &d::LIQUIDATION_RECORD);
        use tc::ix_discriminators as x;
        bytes("IX_INIT_LIQUIDATION_RECORD", &x::INIT_LIQUIDATION_RECORD);
        bytes("IX_START_LIQUIDATION", &x::START_LIQUIDATION);
        bytes("IX_END_LIQUIDATION", &x::END_LIQUIDATION);
        bytes("IX_LENDING_ACCOUNT_WITHDRAW", &x::LENDING_ACCOUNT_WITHDRAW);
        bytes("IX_LENDING_ACCOUNT_REPAY", &x::LENDING_ACCOUNT_REPAY);
        bytes("IX_LENDING_SETTLE_EMISSIONS", &x::LENDING_SETTLE_EMISSIONS);
        bytes("IX_LENDING_WITHDRAW_EMISSIONS", &x::LENDING_WITHDRAW_EMISSIONS);
        bytes("IX_KAMINO_WITHDRAW", &x::KAMINO_WITHDRAW);
        bytes("IX_DRIFT_WITHDRAW", &x::DRIFT_WITHDRAW);
        bytes("IX_START_FLASHLOAN", &x::START_FLASHLOAN);
        bytes("IX_END_FLASHLOAN", &x::END_FLASHLOAN);
        bytes("IX_START_DELEVERAGE", &x::START_DELEVERAGE);
        bytes("IX_END_DELEVERAGE", &x::END_DELEVERAGE);
    }
    // account flags (type-crate user_account.rs)
    {
        use marginfi_type_crate::types as t;
        int("ACCOUNT_DISABLED", t::ACCOUNT_DISABLED);
        int("ACCOUNT_IN_FLASHLOAN", t::ACCOUNT_IN_FLASHLOAN);
        int("ACCOUNT_FLAG_DEPRECATED", t::ACCOUNT_FLAG_DEPRECATED);
        int("ACCOUNT_TRANSFER_AUTHORITY_DEPRECATED", t::ACCOUNT_TRANSFER_AUTHORITY_DEPRECATED);
        int("ACCOUNT_IN_RECEIVERSHIP", t::ACCOUNT_IN_RECEIVERSHIP);
        int("ACCOUNT_IN_DELEVERAGE", t::ACCOUNT_IN_DELEVERAGE);
        int("ACCOUNT_FROZEN", t::ACCOUNT_FROZEN);
        int("MAX_LENDING_ACCOUNT_BALANCES", t::MAX_LENDING_ACCOUNT_BALANCES);
    }
}
