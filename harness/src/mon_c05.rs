//! C05 monitor "LIQ" (Level B): the REAL `lending_account_liquidate` through real dispatch on worlds with
//! an (un)healthy borrower and a liquidator, seize amounts from 1 unit to beyond the full collateral
//! (incl. the exact over-liquidation boundary), banks of different decimals and token programs. Judged by
//! predicates written from the property text, with exact big-integer arithmetic.
use crate::mon::Report;
use crate::mon_c10::health;
use crate::rng::Rng;
use crate::scen::{Act, Scen, ONE};
use crate::world::{ix, World};
use fixed::types::I80F48;
use num_bigint::BigInt;

fn bits(v: marginfi_type_crate::types::WrappedI80F48) -> i128 {
    I80F48::from(v).to_bits()
}
fn big(x: i128) -> BigInt {
    BigInt::from(x)
}

/// (asset amount bits, liability amount bits) of `acct`'s position in `bank`
fn pos_amounts(s: &Scen, acct: &anchor_lang::prelude::Pubkey, bank: &anchor_lang::prelude::Pubkey) -> (BigInt, BigInt, i128, i128) {
    let a = s.w.marginfi_account(acct);
    let b = s.w.bank(bank);
    match a.lending_account.balances.iter().find(|x| x.is_active() && x.bank_pk == *bank) {
        Some(x) => (
            (big(bits(x.asset_shares)) * big(bits(b.asset_share_value))) >> 48u32,
            (big(bits(x.liability_shares)) * big(bits(b.liability_share_value))) >> 48u32,
            bits(x.asset_shares),
            bits(x.liability_shares),
        ),
        None => (big(0), big(0), 0, 0),
    }
}

pub fn run(rng: &mut Rng, n: usize, rep: &mut Report) {
    run_with(rng, n, rep, &mut None)
}

/// family `liqix`: one line per liquidation the REAL instruction accepted in the worlds of this monitor (see Ix.lean)
pub fn gen(rng: &mut Rng, n: usize, out: &mut Vec<String>) {
    let mut guard = 0;
    while out.len() < n && guard < 200 {
        guard += 1;
        let mut scratch = Report::default();
        let mut part: Option<Vec<String>> = Some(vec![]);
        run_with(rng, 60, &mut scratch, &mut part);
        out.extend(part.unwrap());
    }
    out.truncate(n);
}

fn pos_line(w: &crate::world::World, acct: &anchor_lang::prelude::Pubkey, bank: &anchor_lang::prelude::Pubkey) -> (bool, String) {
    match w.marginfi_account(acct).lending_account.balances.iter().find(|x| x.is_active() && x.bank_pk == *bank) {
        Some(x) => (true, crate::fam_bank::Bal::from_balance(x).line()),
        None => (false, "0 0 0 0 0 0".to_string()),
    }
}

pub fn run_with(rng: &mut Rng, n: usize, rep: &mut Report, lines: &mut Option<Vec<String>>) {
    let mut done = 0;
    while done < n {
        let mut s = Scen::build(rng);
        let mut scratch = Report::default();
        let pa0: f64 = *rng.pick(&[10.0f64, 1.0, 250.0, 0.5]);
        let pl: f64 = *rng.pick(&[10.0f64, 1.0, 3.0, 100.0]);
        for (b, p) in [(0usize, pa0), (1usize, pl)] {
            let key = s.banks[b].bank;
            let mut bk = s.w.bank(&key);
            bk.config.deposit_limit = u64::MAX;
            bk.config.borrow_limit = u64::MAX;
            bk.config.fixed_price = I80F48::from_num(p).into();
            s.w.set_bank(&key, &bk);
        }
        // in some worlds the collateral has a LOW initial weight and the liquidator is itself leveraged (debt in a third
        // bank, close to its margin): paying out of its deposit then costs it more weighted collateral than it gains
        let stress = s.banks.len() >= 3 && rng.chance(1, 3);
        let w_init: f64 = if stress { 0.2 } else { 0.8 };
        if stress {
            let key = s.banks[0].bank;
            let mut bk = s.w.bank(&key);
            bk.config.asset_weight_init = I80F48::from_num(0.2).into();
            bk.config.asset_weight_maint = I80F48::from_num(0.5).into();
            s.w.set_bank(&key, &bk);
            let key2 = s.banks[2].bank;
            let mut b2 = s.w.bank(&key2);
            b2.config.deposit_limit = u64::MAX;
            b2.config.borrow_limit = u64::MAX;
            b2.config.fixed_price = I80F48::from_num(1).into();
            s.w.set_bank(&key2, &b2);
        }
        let (d0, d1) = (s.w.mint_decimals(&s.banks[0].mint) as i32, s.w.mint_decimals(&s.banks[1].mint) as i32);
        let dep = 1_000_000_000 * (1 + rng.below(50));
        let dep_value = (dep as f64) / 10f64.powi(d0) * pa0;
        let liq_dep = ((dep_value * (if stress { 1.2 } else { 50.0 }) / pl) * 10f64.powi(d1)) as u64 + 1_000_000;
        // "thin" worlds: the liquidator's own deposit in the DEBT bank is nothing / a fraction of the repayment it will take
        // on (its position there flips from deposit to debt, or is a pure borrow); it is collateralised in the asset bank,
        // and a third user provides the debt bank's liquidity
        let thin = !stress && s.users.len() > 2 && rng.chance(1, 3);
        let funder = if thin { 2 } else { 1 };
        let setup = [
            Act::Deposit { u: 0, b: 0, amt: dep, upto: false },
            Act::Deposit { u: funder, b: 1, amt: liq_dep, upto: false },
        ];
        if !setup.iter().all(|a| matches!(s.step(a, &mut scratch), Some(Ok(())))) {
            rep.bump("prepare_failed");
            done += 1;
            continue;
        }
        let max_b = dep_value * w_init / 1.2 / pl * 10f64.powi(d1);
        let bor = ((max_b * (0.7 + 0.28 * (rng.below(100) as f64) / 100.0)) as u64).max(1);
        if !matches!(s.step(&Act::Borrow { u: 0, b: 1, amt: bor }, &mut scratch), Some(Ok(()))) {
            rep.bump("prepare_failed");
            done += 1;
            continue;
        }
        if stress {
            // someone funds the third bank; the liquidator borrows there up to 90-99 % of what its deposit allows
            let d2 = s.w.mint_decimals(&s.banks[2].mint) as i32;
            let liq_value = (liq_dep as f64) / 10f64.powi(d1) * pl;
            let cap = liq_value * 0.8 / 1.2 * 10f64.powi(d2);
            let other = if s.users.len() > 2 { 2 } else { 0 };
            let _ = s.step(&Act::Deposit { u: other, b: 2, amt: (cap * 2.0) as u64 + 1_000_000, upto: false }, &mut scratch);
            let x = (cap * (0.90 + 0.09 * (rng.below(100) as f64) / 100.0)) as u64;
            if matches!(s.step(&Act::Borrow { u: 1, b: 2, amt: x.max(1) }, &mut scratch), Some(Ok(()))) {
                rep.bump("stressed_liquidator");
            }
        }
        if thin {
            let frac = *rng.pick(&[0.0f64, 0.002, 0.05, 0.3, 0.8]);
            let own = ((bor as f64) * frac) as u64;
            let mut ok = matches!(s.step(&Act::Deposit { u: 1, b: 0, amt: dep.saturating_mul(30), upto: false }, &mut scratch), Some(Ok(())));
            if own > 0 {
                ok &= matches!(s.step(&Act::Deposit { u: 1, b: 1, amt: own, upto: false }, &mut scratch), Some(Ok(())));
            }
            if ok {
                rep.bump("thin_liquidator");
            } else {
                rep.bump("prepare_failed");
                done += 1;
                continue;
            }
        }
        // the liquidator sometimes already holds a debt in the asset bank / a deposit in the asset bank
        if !stress && !thin && rng.chance(1, 3) {
            let _ = s.step(&Act::Deposit { u: 1, b: 0, amt: dep / 3 + 1, upto: false }, &mut scratch);
        }
        s.w.advance(*rng.pick(&[0i64, 60, 86400]));
        let f = *rng.pick(&[1.0f64, 0.9, 0.75, 0.7, 0.6, 0.5, 0.4, 0.3]);
        let pa = pa0 * f;
        {
            let key = s.banks[0].bank;
            let mut bk = s.w.bank(&key);
            bk.config.fixed_price = I80F48::from_num(pa).into();
            s.w.set_bank(&key, &bk);
        }
        // ---- a fifth of the worlds whose collateral mint does not have 9 decimals: the collateral bank is a DRIFT-backed
        //      bank (state edit of the tag on the bank and on the open positions, as drift_deposit would have left them):
        //      its balances are Drift's scaled balances, which always carry 9 decimals whatever the mint says
        let drift = d0 != 9 && !stress && rng.chance(1, 5);
        if drift {
            let key = s.banks[0].bank;
            let mut bk = s.w.bank(&key);
            bk.config.asset_tag = marginfi_type_crate::constants::ASSET_TAG_DRIFT;
            s.w.set_bank(&key, &bk);
            for u in 0..s.users.len() {
                let ak = s.users[u].acct;
                let mut a = s.w.marginfi_account(&ak);
                for bal in a.lending_account.balances.iter_mut() {
                    if bal.is_active() && bal.bank_pk == key {
                        bal.bank_asset_tag = marginfi_type_crate::constants::ASSET_TAG_DRIFT;
                    }
                }
                s.w.set_marginfi_account(&ak, &a);
            }
            rep.bump("drift_collateral_world");
        }
        let d0 = if drift { 9 } else { d0 };
        // bring both banks up to date so that the pre-state measured here is the one the handler sees
        let _ = s.w.exec(&ix::accrue(&s.banks[0]));
        let _ = s.w.exec(&ix::accrue(&s.banks[1]));
        let (victim, liquidator) = (s.users[0].acct, s.users[1].acct);
        let (ab, lb) = (s.banks[0], s.banks[1]);
        // ---- the exact over-liquidation boundary, by bisection on clones of the world: the largest seize amount the
        //      program accepts must still leave the liquidated account not positive at maintenance level
        {
            let (dep_amt, _, _, _) = pos_amounts(&s, &victim, &ab.bank);
            let dep_tokens: u64 = (&dep_amt >> 48u32).try_into().unwrap_or(u64::MAX);
            let attempt = |q: u64| -> (bool, Option<u32>, Option<i128>) {
                let mut w2 = s.w.clone();
                let ixn = ix::liquidate(
                    &ab, &lb, liquidator, s.users[1].wallet, victim, q,
                    w2.oracle_metas_for(&ab.bank), w2.oracle_metas_for(&lb.bank),
                    w2.remaining_for(&liquidator, &[ab.bank, lb.bank]), w2.remaining_for(&victim, &[]),
                );
                match w2.exec(&ixn) {
                    Ok(()) => (true, None, health(&w2, &victim).map(|h| h.maint)),
                    Err(e) => (false, e.code(), None),
                }
            };
            if dep_tokens >= 2 {
                let (ok_lo, _, _) = attempt(1);
                let (ok_hi, code_hi, _) = attempt(dep_tokens);
                if ok_lo && !ok_hi {
                    let (mut lo, mut hi, mut code) = (1u64, dep_tokens, code_hi);
                    while hi - lo > 1 {
                        let mid = lo + (hi - lo) / 2;
                        let (ok, c, _) = attempt(mid);
                        if ok { lo = mid } else { hi = mid; code = c }
                    }
                    rep.bump("boundary_found");
                    rep.bump(&format!("boundary_rej_{}", code.map(|c| c.to_string()).unwrap_or_else(|| "other".into())));
                    for q in [lo, lo.saturating_sub(1).max(1)] {
                        if let (true, _, Some(m)) = attempt(q) {
                            if m > 0 {
                                rep.fail(format!(
                                    "C05 liquidated account positive at maintenance level ({} bits) after the largest accepted seizure {} of {} collateral tokens (next amount refused with {:?}); collateral price {} debt price {}",
                                    m, q, dep_tokens, code, pa, pl
                                ));
                            }
                        }
                    }
                }
            }
        }
        for _ in 0..6 {
            let (dep_amt, _, _, _) = pos_amounts(&s, &victim, &ab.bank);
            let dep_tokens: u64 = (&dep_amt >> 48u32).try_into().unwrap_or(u64::MAX);
            let seize: u64 = match rng.below(9) {
                0 => 1,
                1 => dep_tokens / 1000 + 1,
                2 => dep_tokens / 100 + 1,
                3 => dep_tokens / 20 + 1,
                4 => dep_tokens / 4,
                5 => dep_tokens,
                6 => dep_tokens.saturating_add(1),
                7 => dep_tokens.saturating_sub(1),
                _ => rng.below(dep_tokens.max(1)) + 1,
            };
            // half of the liquidations find banks that were NOT accrued since an earlier time: the handler has to bring both up
            // to date itself. Everything "before" is measured on an accrued copy; the instruction runs on the raw world, and the
            // family line carries the raw banks (their accrual is part of the model of the instruction).
            let mut raw: Option<World> = None;
            if rng.chance(1, 2) {
                s.w.advance(*rng.pick(&[1i64, 60, 3600, 86400, 2_592_000]));
                raw = Some(s.w.clone());
                let _ = s.w.exec(&ix::accrue(&s.banks[0]));
                let _ = s.w.exec(&ix::accrue(&s.banks[1]));
                rep.bump("accrual_left_to_the_handler");
            } else {
                // (a refused lazy attempt leaves the raw world behind: bring it up to date for real)
                let _ = s.w.exec(&ix::accrue(&s.banks[0]));
                let _ = s.w.exec(&ix::accrue(&s.banks[1]));
            }
            let pre_v = health(&s.w, &victim);
            let (v_dep0, _, _, _) = pos_amounts(&s, &victim, &ab.bank);
            let (v_a_in_liab0, v_liab0, _, v_liab_sh0) = pos_amounts(&s, &victim, &lb.bank);
            let (l_dep0, l_debt_in_asset0, _, _) = pos_amounts(&s, &liquidator, &ab.bank);
            let (l_a0, l_l0, _, _) = pos_amounts(&s, &liquidator, &lb.bank);
            let lv0 = s.w.token_amount(&lb.liquidity_vault);
            let fee_i0 = bits(s.w.bank(&lb.bank).collected_insurance_fees_outstanding);
            let (sl_a0, sl_l0) = (crate::scen::slack_of(&s.w, &ab), crate::scen::slack_of(&s.w, &lb));
            let (bka0, bkl0) = (s.w.bank(&ab.bank), s.w.bank(&lb.bank));
            let ixn = ix::liquidate(
                &ab, &lb, liquidator, s.users[1].wallet, victim, seize,
                s.w.oracle_metas_for(&ab.bank), s.w.oracle_metas_for(&lb.bank),
                s.w.remaining_for(&liquidator, &[ab.bank, lb.bank]), s.w.remaining_for(&victim, &[]),
            );
            // from here on the world is the raw one again
            let (bka_acc, bkl_acc) = (bka0, bkl0);
            if let Some(rw) = raw.take() { s.w = rw; }
            let (bka0, bkl0) = (s.w.bank(&ab.bank), s.w.bank(&lb.bank));
            let before = s.w.accounts.clone();
            // pre-state for the liqix family line
            let head = if lines.is_some() {
                let g = s.w.group(&s.group);
                let ira = crate::fam_curve::Ir::from_real(&bka0.config.interest_rate_config, &g);
                let irl = crate::fam_curve::Ir::from_real(&bkl0.config.interest_rate_config, &g);
                let (h1, p1) = pos_line(&s.w, &liquidator, &lb.bank);
                let (_, p2) = pos_line(&s.w, &victim, &ab.bank);
                let (h3, p3) = pos_line(&s.w, &liquidator, &ab.bank);
                let (_, p4) = pos_line(&s.w, &victim, &lb.bank);
                Some(format!(
                    "ix.liq {} {} {} {} {} {} {} {} {} {} {} {} {} {} {} {}",
                    crate::fam_bank::B::from_bank(&bka0).line(), bka0.last_update, ira.line(),
                    crate::fam_bank::B::from_bank(&bkl0).line(), bkl0.last_update, irl.line(),
                    h1 as u8, p1, p2, h3 as u8, p3, p4,
                    s.w.clock_ts, seize, bits(bka0.config.fixed_price), bits(bkl0.config.fixed_price)
                ))
            } else {
                None
            };
            let ins0 = s.w.token_amount(&lb.liquidity_vault);
            let r = s.w.exec(&ixn);
            if let (Some(head), Ok(()), Some(v)) = (&head, &r, lines.as_mut()) {
                let (a1, l1) = (s.w.bank(&ab.bank), s.w.bank(&lb.bank));
                let closed = |x: (bool, String)| if x.0 { x.1 } else { "0 0 0 0 0 0".to_string() };
                v.push(format!(
                    "{} => ok {} {} {} {} {} {} {} {} {}",
                    head,
                    crate::fam_bank::B::from_bank(&a1).line(), a1.last_update,
                    crate::fam_bank::B::from_bank(&l1).line(), l1.last_update,
                    closed(pos_line(&s.w, &liquidator, &lb.bank)), closed(pos_line(&s.w, &victim, &ab.bank)),
                    closed(pos_line(&s.w, &liquidator, &ab.bank)), closed(pos_line(&s.w, &victim, &lb.bank)),
                    ins0 - s.w.token_amount(&lb.liquidity_vault)
                ));
            }
            rep.bump("cases");
            done += 1;
            match r {
                Err(e) => {
                    rep.bump("rejected");
                    rep.bump(&format!("rej_{}", e.code().map(|c| c.to_string()).unwrap_or_else(|| "other".into())));
                    if s.w.accounts != before {
                        rep.fail("C08 a rejected liquidation changed the account store".to_string());
                    }
                }
                Ok(()) => {
                    rep.bump("liquidated");
                    for (name, h, acc) in [("collateral", &ab, &bka_acc), ("debt", &lb, &bkl_acc)] {
                        let b1 = s.w.bank(&h.bank);
                        if b1.last_update != s.w.clock_ts {
                            rep.fail(format!("C06 a liquidation left its {} bank's interest at time {} (now {}): the bank was transacted against stale share values", name, b1.last_update, s.w.clock_ts));
                        } else if bits(b1.liability_share_value) != bits(acc.liability_share_value) || bits(b1.asset_share_value) != bits(acc.asset_share_value) {
                            rep.fail(format!("C06 after a liquidation the {} bank's share values ({}, {}) are not those of an accrual to the current time ({}, {})", name,
                                bits(b1.asset_share_value), bits(b1.liability_share_value), bits(acc.asset_share_value), bits(acc.liability_share_value)));
                        }
                    }
                    let tag = format!("seize {} of {} (collateral price {}, debt price {}, decimals {}/{})", seize, dep_tokens, pa, pl, d0, d1);
                    let post_v = health(&s.w, &victim);
                    if let (Some(pre), Some(post)) = (&pre_v, &post_v) {
                        if pre.maint >= 0 {
                            rep.fail(format!("C05 liquidation succeeded although maintenance health before was not negative ({}): {}", pre.maint, tag));
                        }
                        if post.maint <= pre.maint {
                            rep.fail(format!("C05 maintenance health not strictly better after liquidation ({} -> {}): {}", pre.maint, post.maint, tag));
                        }
                        if post.maint > 0 {
                            rep.fail(format!("C05 liquidated account positive at maintenance level afterwards ({}): {}", post.maint, tag));
                        }
                    } else {
                        rep.bump("health_unavailable");
                    }
                    let (v_dep1, v_debt_in_asset1, _, _) = pos_amounts(&s, &victim, &ab.bank);
                    let (v_a_in_liab1, v_liab1, v_a_sh1, v_liab_sh1) = pos_amounts(&s, &victim, &lb.bank);
                    let (l_dep1, l_debt_in_asset1, _, _) = pos_amounts(&s, &liquidator, &ab.bank);
                    let (l_a1, l_l1, _, _) = pos_amounts(&s, &liquidator, &lb.bank);
                    // no flips
                    if v_debt_in_asset1 > big(0) {
                        rep.fail(format!("C05 the seized collateral position flipped into a debt: {}", tag));
                    }
                    if v_a_sh1 >= ONE || v_a_in_liab1 > v_a_in_liab0 + big(ONE) {
                        rep.fail(format!("C05 the repaid debt flipped into a deposit: {}", tag));
                    }
                    if v_liab_sh1 < ONE || v_liab_sh0 < ONE {
                        rep.fail(format!("C05 the debt position is exhausted / was empty: {}", tag));
                    }
                    let seized = &v_dep0 - &v_dep1;
                    let want_seized = big(seize as i128) << 48u32;
                    let tol = big(1 << 24);
                    if (&seized - &want_seized).magnitude() > tol.magnitude() {
                        rep.fail(format!("C05 collateral seized {} bits but {} tokens were asked: {}", seized, seize, tag));
                    }
                    // the liquidator's collateral-bank position rises by the seized amount
                    let l_gain = (&l_dep1 - &l_dep0) + (&l_debt_in_asset0 - &l_debt_in_asset1);
                    if (&l_gain - &want_seized).magnitude() > tol.magnitude() {
                        rep.fail(format!("C05 liquidator's position in the collateral bank rose by {} bits for {} seized tokens: {}", l_gain, seize, tag));
                    }
                    // value of the seized collateral in debt tokens: seize * pa * 10^d1 / (pl * 10^d0), exact rational
                    let pa_bits = big(bits(s.w.bank(&ab.bank).config.fixed_price));
                    let pl_bits = big(bits(s.w.bank(&lb.bank).config.fixed_price));
                    let num = big(seize as i128) * &pa_bits * BigInt::from(10u8).pow(d1 as u32) * big(ONE);
                    let den = &pl_bits * BigInt::from(10u8).pow(d0 as u32);
                    let full = &num / &den; // bits of debt tokens worth 100 %
                    let relief = &v_liab0 - &v_liab1;
                    let liq_fall = (&l_a0 - &l_a1) + (&l_l1 - &l_l0);
                    let w95 = (&full * big(95)) / big(100);
                    let w975 = (&full * big(975)) / big(1000);
                    // allowance: the discount constants are 0.95 / 0.975 rounded to 48 bits, every step rounds down by < 1 ulp scaled by
                    // the later multipliers; a relative 2^-40 plus a few thousand ulps covers it for the magnitudes generated
                    // (theorem Mfi.Props.C05.amounts_spec: the value loses < 1 + 2^48/10^dA + pA/10^dA ulps, which the conversion
                    // multiplies by 10^dL/pL, then loses < 1 + 2^48/pL ulps itself; share conversion adds a few ulps of the share value)
                    let amp = (BigInt::from(10u8).pow(d1 as u32) << 48u32) / &pl_bits;
                    let allow = &amp * big(3) + (big(ONE) << 48u32) / &pl_bits + (&full >> 44u32) + big(1 << 12);
                    if (&relief - &w95).magnitude() > allow.magnitude() {
                        rep.fail(format!("C05 debt relief {} bits is not 95% ({}) of the seized value: {}", relief, w95, tag));
                    }
                    if (&liq_fall - &w975).magnitude() > allow.magnitude() {
                        rep.fail(format!("C05 liquidator's debt-bank position fell by {} bits, not by 97.5% ({}) of the seized value: {}", liq_fall, w975, tag));
                    }
                    // insurance: whole tokens leave the liquidity vault, the fraction goes to the outstanding insurance fees
                    let fee = &liq_fall - &relief;
                    let lv1 = s.w.token_amount(&lb.liquidity_vault);
                    let fee_i1 = bits(s.w.bank(&lb.bank).collected_insurance_fees_outstanding);
                    let moved = big((lv0 - lv1) as i128) << 48u32;
                    let to_ins = &moved + big(fee_i1 - fee_i0);
                    if (&to_ins - &fee).magnitude() > (big(1 << 26)).magnitude() {
                        rep.fail(format!("C05 insurance received {} bits (vault {} tokens + fees {}), but liquidator-side minus liquidatee-side is {}: {}", to_ins, lv0 - lv1, fee_i1 - fee_i0, fee, tag));
                    }
                    if fee_i1 - fee_i0 < 0 || fee_i1 - fee_i0 >= ONE {
                        rep.fail(format!("C05 the fraction added to the outstanding insurance fees is {} (not in [0,1)): {}", fee_i1 - fee_i0, tag));
                    }
                    // liquidator initially healthy
                    if let Some(h) = health(&s.w, &liquidator) {
                        if h.init < 0 {
                            rep.fail(format!("C05 the liquidator ends initially unhealthy ({}): {}", h.init, tag));
                        }
                    }
                    // C01: in each bank the solvency margin falls by less than asv + lsv + 1 (theorems decrease_step,
                    // increase_step, liquidation_fee_step); both banks were accrued just before
                    for (name, h, s0, b0) in [("collateral", &ab, &sl_a0, &bka_acc), ("debt", &lb, &sl_l0, &bkl_acc)] {
                        let s1 = crate::scen::slack_of(&s.w, h);
                        let allow = big(bits(b0.asset_share_value)) + big(bits(b0.liability_share_value)) + big(1);
                        if &s1 + &allow <= *s0 {
                            rep.fail(format!("C01 solvency margin of the {} bank fell by {} in a liquidation (allowance {}): {}", name, s0 - &s1, allow, tag));
                        }
                    }
                    if seize == dep_tokens { rep.bump("full_seizure_ok"); }
                }
            }
        }
        rep.sample(format!("liq world dep {} bor {} f {}", dep, bor, f));
    }
}
