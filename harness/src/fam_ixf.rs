//! family `ixf`: the four user instructions `lending_account_deposit / withdraw / borrow / repay` through REAL
//! DISPATCH along generated scenarios (the worlds of `scen.rs`: SPL / Token-2022 / transfer-fee mints incl. scheduled
//! fee changes, random valid curves and fees, origination fees, fee-disabled groups, caps), one line per executed
//! instruction carrying the pre-state of the bank and of the position, the result: post bank, post position, tokens
//! that moved between the user's token account and the liquidity vault.
//!   line: `ix.<dep|wd|bor|rep> <bank 16> <last_update> <ir 23> <has> <position 6> now amount flag tfBps tfMax origFee progFeeRate
//!          => ok <bank 16> <last_update> <has> <position 6> <tokens>` | `err <code>`
//! Lines are emitted for successes and for refusals by the modelled part (bank / wrapper errors); a refusal by the
//! initial-margin check (6009) or by the token program is outside this model and is skipped.
use crate::fam_bank::{Bal, B};
use crate::fam_curve::Ir;
use crate::mon::Report;
use crate::rng::Rng;
use crate::scen::{Act, Scen};
use fixed::types::I80F48;
use marginfi_type_crate::types::{Balance, BankOperationalState};

fn pos(s: &Scen, u: usize, b: usize) -> Option<Balance> {
    s.w.marginfi_account(&s.users[u].acct).lending_account.get_balance(&s.banks[b].bank).cloned()
}

fn pos_line(x: &Option<Balance>) -> String {
    match x {
        Some(bal) => format!("1 {}", Bal::from_balance(bal).line()),
        None => "0 0 0 0 0 0 0".to_string(),
    }
}

/// `ix.closebank <bank 16> => ok | err 6078`: the REAL lending_pool_close_bank through dispatch on a bank whose totals,
/// position counters, version flag and unclaimed emissions are set (by state edit) at and around what the instruction
/// tolerates
fn closebank_lines(s: &Scen, rng: &mut Rng, k: usize, out: &mut Vec<String>) {
    use anchor_lang::{InstructionData, ToAccountMetas};
    use marginfi_type_crate::constants::CLOSE_ENABLED_FLAG;
    let thr: i128 = I80F48::from_num(0.0001).to_bits();
    for _ in 0..k {
        let h = s.banks[rng.below(s.banks.len() as u64) as usize];
        let mut w = s.w.clone();
        let mut bk = w.bank(&h.bank);
        let near = |rng: &mut Rng| -> i128 {
            match rng.below(8) { 0 | 1 | 2 => 0, 3 => thr - 1, 4 => thr, 5 => thr + 1, 6 => rng.below(2 * thr as u64) as i128, _ => (rng.below(1_000_000) as i128) << 40 }
        };
        // a closable bank (dust below the tolerance everywhere) with exactly one field moved, or everything drawn freely
        let dust = |rng: &mut Rng| -> i128 { match rng.below(3) { 0 => 0, 1 => thr - 1, _ => rng.below(thr as u64) as i128 } };
        bk.total_asset_shares = I80F48::from_bits(dust(rng)).into();
        bk.total_liability_shares = I80F48::from_bits(dust(rng)).into();
        bk.emissions_remaining = I80F48::from_bits(dust(rng)).into();
        bk.lending_position_count = 0;
        bk.borrowing_position_count = 0;
        bk.flags |= CLOSE_ENABLED_FLAG;
        let free = rng.chance(1, 4);
        let which = rng.below(8);
        if free || which == 0 { bk.total_asset_shares = I80F48::from_bits(near(rng)).into(); }
        if free || which == 1 { bk.total_liability_shares = I80F48::from_bits(near(rng)).into(); }
        if free || which == 2 { bk.emissions_remaining = I80F48::from_bits(near(rng)).into(); }
        if free || which == 3 { bk.lending_position_count = *rng.pick(&[0i32, 1, -1]); }
        if free || which == 4 { bk.borrowing_position_count = *rng.pick(&[0i32, 1, 2]); }
        if (free && rng.chance(1, 3)) || which == 5 { bk.flags &= !CLOSE_ENABLED_FLAG; }
        w.set_bank(&h.bank, &bk);
        let line = B::from_bank(&bk).line();
        let ixn = solana_program::instruction::Instruction {
            program_id: marginfi::ID,
            accounts: marginfi::accounts::LendingPoolCloseBank { group: h.group, bank: h.bank, admin: s.admin }.to_account_metas(None),
            data: marginfi::instruction::LendingPoolCloseBank {}.data(),
        };
        match w.exec(&ixn) {
            Ok(()) => out.push(format!("ix.closebank {} => ok", line)),
            Err(crate::world::ExecErr::Custom(c)) => out.push(format!("ix.closebank {} => err {}", line, c)),
            Err(_) => {}
        }
    }
}

pub fn gen(rng: &mut Rng, n: usize, out: &mut Vec<String>) {
    let mut scratch = Report::default();
    while out.len() < n {
        let mut s = Scen::build(rng);
        closebank_lines(&s, rng, 6, out);
        // seed liquidity
        for u in 0..s.users.len() {
            for b in 0..s.banks.len() {
                if rng.chance(2, 3) {
                    let _ = s.step(&Act::Deposit { u, b, amt: 1_000_000_000 * (1 + rng.below(1000)), upto: false }, &mut scratch);
                }
            }
        }
        let len = 40 + rng.below(80);
        for _ in 0..len {
            if out.len() >= n {
                break;
            }
            let act = s.gen_act(rng);
            let (op, u, b, amount, flag) = match act {
                Act::Deposit { u, b, amt, upto } => ("ix.dep", u, b, amt, upto),
                Act::Withdraw { u, b, amt, all } => ("ix.wd", u, b, amt, all),
                Act::Borrow { u, b, amt } => ("ix.bor", u, b, amt, false),
                Act::Repay { u, b, amt, all } => ("ix.rep", u, b, amt, all),
                Act::CloseBalance { u, b } => ("ix.close", u, b, 0, false),
                Act::Purge { u, b } => ("ix.purge", u, b, 0, false),
                _ => {
                    let _ = s.step(&act, &mut scratch);
                    continue;
                }
            };
            let h = s.banks[b];
            let bank0 = s.w.bank(&h.bank);
            // outside this model: gated bank states, sunset banks, flagged accounts (their gates are C14 / C16 / C11 models)
            let acct0 = s.w.marginfi_account(&s.users[u].acct);
            let sunset = bank0.flags & (marginfi_type_crate::constants::TOKENLESS_REPAYMENTS_ALLOWED | marginfi_type_crate::constants::TOKENLESS_REPAYMENTS_COMPLETE) != 0;
            if bank0.config.operational_state != BankOperationalState::Operational
                || (sunset && op != "ix.purge")
                || (op == "ix.purge" && bank0.flags & marginfi_type_crate::constants::TOKENLESS_REPAYMENTS_COMPLETE == 0)
                || acct0.account_flags != 0
            {
                let _ = s.step(&act, &mut scratch);
                continue;
            }
            let group = s.w.group(&s.group);
            let ir = Ir::from_real(&bank0.config.interest_rate_config, &group);
            let p0 = pos(&s, u, b);
            let now = s.w.clock_ts;
            let (tf_bps, tf_max) = s.w.transfer_fee_in_force(&h.mint);
            let orig = I80F48::from(bank0.config.interest_rate_config.protocol_origination_fee).to_bits();
            let prog = I80F48::from(group.fee_state_cache.program_fee_rate).to_bits();
            let (vault0, user0) = (s.w.token_amount(&h.liquidity_vault), s.w.token_amount(&s.users[u].toks[b]));
            let head = format!(
                "{} {} {} {} {} {} {} {} {} {} {} {}",
                op, B::from_bank(&bank0).line(), bank0.last_update, ir.line(), pos_line(&p0), now, amount, flag as u8, tf_bps, tf_max, orig, prog
            );
            let r = s.step(&act, &mut scratch);
            match r {
                Some(Ok(())) => {
                    let bank1 = s.w.bank(&h.bank);
                    let p1 = pos(&s, u, b);
                    // tokens that left / entered the USER's token account (pre-fee amount for deposits and repayments, the
                    // amount debited from the vault for withdrawals and borrows)
                    let (vault1, user1) = (s.w.token_amount(&h.liquidity_vault), s.w.token_amount(&s.users[u].toks[b]));
                    let tokens = match op {
                        "ix.dep" | "ix.rep" => user0 - user1,
                        _ => vault0 - vault1,
                    };
                    // a position slot that was closed by withdraw_all / repay_all is reported as the closed (inactive) slot
                    let p1_line = match (&p0, &p1) {
                        (_, Some(_)) => pos_line(&p1),
                        (Some(_), None) => "1 0 0 0 0 0 0".to_string(),
                        (None, None) => pos_line(&None),
                    };
                    out.push(format!("{} => ok {} {} {} {}", head, B::from_bank(&bank1).line(), bank1.last_update, p1_line, tokens));
                }
                Some(Err(e)) => match e.code() {
                    Some(6009) | None => {}
                    Some(c) if c < 6000 => {} // token-program errors (e.g. 1 = insufficient funds in the user's token account)
                    Some(c) => out.push(format!("{} => err {}", head, c)),
                },
                None => {}
            }
        }
    }
}
