//! family `fx`: the `fixed` crate's I80F48 operations themselves (validates Mfi/Fx.lean).
use crate::rng::Rng;
use fixed::types::I80F48;

fn o(x: Option<I80F48>) -> String {
    match x {
        Some(v) => format!("some {}", v.to_bits()),
        None => "none".into(),
    }
}

pub fn gen(rng: &mut Rng, n: usize, out: &mut Vec<String>) {
    let ops = [
        "add", "sub", "mul", "div", "floor", "ceil", "frac", "tou64", "ofint", "wmul", "wdiv", "toi64",
    ];
    for i in 0..n {
        let op = ops[i % ops.len()];
        let a = rng.fx_bits();
        let mut b = rng.fx_bits();
        if rng.chance(1, 4) {
            b = rng.fx_amount();
        }
        let fa = I80F48::from_bits(a);
        let fb = I80F48::from_bits(b);
        let line = match op {
            "add" => format!("fx.add {} {} => {}", a, b, o(fa.checked_add(fb))),
            "sub" => format!("fx.sub {} {} => {}", a, b, o(fa.checked_sub(fb))),
            "mul" => format!("fx.mul {} {} => {}", a, b, o(fa.checked_mul(fb))),
            "div" => format!("fx.div {} {} => {}", a, b, o(fa.checked_div(fb))),
            "floor" => {
                // floor() cannot overflow for signed fixed (MIN is an integer)
                format!("fx.floor {} => {}", a, fa.checked_floor().map(|v| v.to_bits().to_string()).unwrap_or("none".into()))
            }
            "ceil" => format!("fx.ceil {} => {}", a, o(fa.checked_ceil())),
            "frac" => format!("fx.frac {} => {}", a, fa.frac().to_bits()),
            "tou64" => format!(
                "fx.tou64 {} => {}",
                a,
                fa.checked_to_num::<u64>().map(|v| format!("some {}", v)).unwrap_or("none".into())
            ),
            "toi64" => format!(
                "fx.toi64 {} => {}",
                a,
                fa.checked_to_num::<i64>().map(|v| format!("some {}", v)).unwrap_or("none".into())
            ),
            "ofint" => {
                let n = rng.u128() as i128 >> rng.below(127);
                format!("fx.ofint {} => {}", n, o(I80F48::checked_from_num(n)))
            }
            "wmul" => format!("fx.wmul {} {} => {}", a, b, fa.wrapping_mul(fb).to_bits()),
            "wdiv" => {
                if b == 0 {
                    format!("fx.wdiv {} {} => {}", a, 1, fa.wrapping_div(I80F48::from_bits(1)).to_bits())
                } else {
                    format!("fx.wdiv {} {} => {}", a, b, fa.wrapping_div(fb).to_bits())
                }
            }
            _ => unreachable!(),
        };
        out.push(line);
    }
}
