//! C13 monitor (Level B, real dispatch): after every SUCCESSFUL configuration instruction (full
//! configure, interest-only, e-mode configure, e-mode clone) the bank must satisfy the coherence
//! invariant, recomputed independently from the raw account bytes.
use crate::fam_admin::{gen_entries, gen_opt, Cfg};
use crate::mon::Report;
use crate::rng::Rng;
use crate::scen::Scen;
use crate::world::ix;
use anchor_lang::prelude::Pubkey;
use anchor_lang::{InstructionData, ToAccountMetas};
use fixed::types::I80F48;
use marginfi_type_crate::types::{Bank, BankOperationalState, EmodeEntry, RiskTier};
use solana_program::instruction::Instruction;

const ONE: i128 = 1 << 48;

fn w(v: marginfi_type_crate::types::WrappedI80F48) -> i128 {
    I80F48::from(v).to_bits()
}

/// independent coherence predicate; returns the first violated clause
fn incoherent(b: &Bank) -> Option<String> {
    let c = &b.config;
    let (ai, am, li, lm) = (w(c.asset_weight_init), w(c.asset_weight_maint), w(c.liability_weight_init), w(c.liability_weight_maint));
    if !(0 <= ai && ai <= ONE) {
        return Some(format!("asset init weight {} outside [0,1]", ai));
    }
    if !(ai <= am && am <= 2 * ONE) {
        return Some(format!("asset maint weight {} not in [init {}, 2]", am, ai));
    }
    if !(ONE <= lm && lm <= li) {
        return Some(format!("liability weights maint {} init {} violate 1 <= maint <= init", lm, li));
    }
    if c.risk_tier == RiskTier::Isolated && (ai != 0 || am != 0) {
        return Some("isolated bank with non-zero asset weights".into());
    }
    if c.oracle_max_age < 10 {
        return Some(format!("oracle max age {} below the minimum", c.oracle_max_age));
    }
    for e in b.emode.emode_config.entries.iter() {
        if e.collateral_bank_emode_tag == 0 {
            continue;
        }
        let (ei, em) = (w(e.asset_weight_init), w(e.asset_weight_maint));
        if !(0 <= ei && ei <= em) {
            return Some(format!("emode-entry: entry tag {} has init {} maint {} (need 0 <= init <= maint)", e.collateral_bank_emode_tag, ei, em));
        }
        if !(ei < li && em < lm) {
            return Some(format!(
                "emode-entry-vs-liability-weights: entry tag {} weights ({}, {}) not below the bank's liability weights ({}, {}) — implied leverage unbounded",
                e.collateral_bank_emode_tag, ei, em, li, lm
            ));
        }
    }
    None
}

fn emode_ix(group: Pubkey, admin: Pubkey, bank: Pubkey, tag: u16, entries: [EmodeEntry; 10]) -> Instruction {
    Instruction {
        program_id: marginfi::ID,
        accounts: marginfi::accounts::LendingPoolConfigureBankEmode { group, emode_admin: admin, bank }.to_account_metas(None),
        data: marginfi::instruction::LendingPoolConfigureBankEmode { emode_tag: tag, entries }.data(),
    }
}

fn clone_emode_ix(group: Pubkey, signer: Pubkey, from: Pubkey, to: Pubkey) -> Instruction {
    Instruction {
        program_id: marginfi::ID,
        accounts: marginfi::accounts::LendingPoolCloneEmode { group, signer, copy_from_bank: from, copy_to_bank: to }.to_account_metas(None),
        data: marginfi::instruction::LendingPoolCloneEmode {}.data(),
    }
}

pub fn run(rng: &mut Rng, n: usize, rep: &mut Report) {
    let mut cells = 0;
    // add-pool validation: the initial configuration of a NEW bank is only checked by BankConfig::validate
    {
        use marginfi::state::bank_config::BankConfigImpl;
        let mut cfg = crate::world::fixtures::bank_config_fixed(I80F48::from_num(1));
        cfg.operational_state = BankOperationalState::KilledByBankruptcy;
        if cfg.validate().is_ok() {
            rep.fail("add-pool-accepts-killed-initial-state: BankConfig::validate() (the only check lending_pool_add_bank* applies to the initial configuration) accepts operational_state = KilledByBankruptcy, so an admin can create a bank that is already in the killed state".to_string());
        }
        rep.bump("cases");
    }
    while cells < n {
        let mut s = Scen::build(rng);
        let h0 = s.banks[0];
        let h1 = s.banks[1];
        for _ in 0..25 {
            // full configure with random (mostly valid, sometimes boundary) options
            let pre = s.w.bank(&h0.bank);
            let og = gen_opt(rng, &Cfg::from_bank(&pre));
            let r = s.w.exec(&ix::configure_bank(&h0, s.admin, og.opt.clone()));
            cells += 1;
            rep.bump("cases");
            if r.is_ok() {
                rep.bump("configure_ok");
                let post = s.w.bank(&h0.bank);
                if post.flags & marginfi_type_crate::constants::FREEZE_SETTINGS != 0 {
                    // unfreeze for the next rounds (test fixture, not an instruction)
                    let mut b = post;
                    b.flags &= !marginfi_type_crate::constants::FREEZE_SETTINGS;
                    s.w.set_bank(&h0.bank, &b);
                }
                if let Some(why) = incoherent(&post) {
                    rep.fail(format!("configure_bank accepted an incoherent configuration: {}; opt [{}]", why, og.line));
                }
                if (post.config.operational_state == BankOperationalState::KilledByBankruptcy) != (pre.config.operational_state == BankOperationalState::KilledByBankruptcy) {
                    rep.fail("configure_bank moved a bank across the killed state".to_string());
                }
            }
            // e-mode configure on bank 0 against its current liability weights
            let cur = Cfg::from_bank(&s.w.bank(&h0.bank));
            let (settings, _line) = gen_entries(rng, cur.l_init, cur.l_maint);
            let r = s.w.exec(&emode_ix(s.group, s.admin, h0.bank, 1 + rng.below(5) as u16, settings.emode_config.entries));
            cells += 1;
            rep.bump("cases");
            if r.is_ok() {
                rep.bump("emode_ok");
                if let Some(why) = incoherent(&s.w.bank(&h0.bank)) {
                    rep.fail(format!("configure_bank_emode accepted an incoherent configuration: {}", why));
                }
            }
            // clone bank 0's e-mode onto bank 1 (which has its own liability weights)
            if rng.chance(1, 2) {
                // give bank 1 different (lower) liability weights through the real configure
                let lm = ONE + rng.below(ONE as u64 / 4) as i128;
                let li = lm + rng.below(ONE as u64 / 4) as i128;
                let _ = s.w.exec(&ix::configure_bank(
                    &h1,
                    s.admin,
                    marginfi_type_crate::types::BankConfigOpt {
                        liability_weight_init: Some(I80F48::from_bits(li).into()),
                        liability_weight_maint: Some(I80F48::from_bits(lm).into()),
                        ..Default::default()
                    },
                ));
            }
            let r = s.w.exec(&clone_emode_ix(s.group, s.admin, h0.bank, h1.bank));
            cells += 1;
            rep.bump("cases");
            if r.is_ok() {
                rep.bump("clone_ok");
                if let Some(why) = incoherent(&s.w.bank(&h1.bank)) {
                    rep.fail(format!("clone-emode-unvalidated: lending_pool_clone_emode left the destination bank with an incoherent configuration: {}", why));
                }
            }
        }
        rep.sample("configure / emode / clone rounds".to_string());
    }
}
